#!/usr/bin/env python3
"""unwind_consts.py <repo> <outdir>  ->  <outdir>/UnwindConsts.v

Regenerates the constant table of the unwinder model (coq/C05/Model.v) from
minidump-unwind/src/{x86,amd64,arm,arm64,arm64_old,mips,lib}.rs, minidump/src/context.rs and
minidump-common/src/format.rs.  Every constant is located by an exact pattern; if a
pattern does not match exactly once the translator aborts (exit 2) and the check
reports an infrastructure failure -- an edited constant therefore either changes the
model on the next run or stops the run, it is never silently ignored.

Register names are encoded as integers: the big-endian base-256 value of the ASCII name
("rsp" -> 0x727370).  ocaml/c05/main.ml decodes them generically, so there is no second
name table to keep in step."""
import os
import re
import sys


def die(msg):
    sys.stderr.write("unwind_consts.py: UNRECOGNISED SOURCE SYNTAX: %s\n" % msg)
    sys.exit(2)


def name_id(s):
    if not re.fullmatch(r"[a-z0-9_]+", s):
        die("register name %r" % s)
    v = 0
    for ch in s.encode("ascii"):
        v = v * 256 + ch
    return v


def one(src, pat, what, flags=0, count=1):
    ms = list(re.finditer(pat, src, flags))
    if len(ms) != count:
        die("%s: pattern %r matched %d times (expected %d)" % (what, pat, len(ms), count))
    return ms[0] if count == 1 else ms


def soft(src, pat, what, flags=0):
    """like one(), but a pattern that no longer matches is not fatal: used only for the constants of the guards at the
    end of get_caller_frame, which Gen/UnwindTail.v re-emits operator by operator.  The caller then emits a value that
    no architecture description may have (arch_ok fails), so the edit breaks the theorems instead of stopping the run."""
    ms = list(re.finditer(pat, src, flags))
    if len(ms) > 1:
        die("%s: pattern %r matched %d times" % (what, pat, len(ms)))
    return ms[0] if ms else None


def intlit(s):
    s = s.strip().replace("_", "")
    if re.fullmatch(r"0x[0-9a-fA-F]+", s):
        return int(s, 16)
    if re.fullmatch(r"[0-9]+", s):
        return int(s)
    die("integer literal %r" % s)


def strlist(s, what):
    items = [x.strip() for x in s.replace("\n", " ").split(",") if x.strip()]
    out = []
    for it in items:
        m = re.fullmatch(r'"([a-z0-9_]+)"', it)
        if not m:
            die("%s: list item %r" % (what, it))
        out.append(m.group(1))
    return out



# ======================================================================================
# Guard-expression translator (round 5): the end of every <arch>::get_caller_frame (from
# `let mut frame = frame?;` to the closing `Some(frame)`) and the stop guard of lib.rs
# walk_stack are parsed (a small statement / expression subset of Rust) and re-emitted as
# Gallina in Gen/UnwindTail.v.  Theorems of C05/Properties.v are stated about exactly these
# generated definitions, so an edited comparison, constant, conjunct or a dropped / reordered
# statement changes the definition the theorems are checked against.  Anything outside the
# subset aborts the run (exit 2).
TOKEN = re.compile(r'(//[^\n]*)|("(?:[^"\\]|\\.)*")|(0x[0-9a-fA-F_]+|\d[\d_]*)|([A-Za-z_][A-Za-z0-9_]*!?)'
                   r'|(::|==|!=|<=|>=|&&|\|\||[-+*/%<>!=(){};.,&|^\[\]?:])')


def tokenize(text, what):
    toks, i = [], 0
    while i < len(text):
        if text[i].isspace():
            i += 1
            continue
        m = TOKEN.match(text, i)
        if not m:
            die("%s: cannot tokenize at %r" % (what, text[i:i + 30]))
        i = m.end()
        if m.group(1) is None:
            toks.append(m.group(0))
    return toks


INT_TYPES = {"u32": 32, "u64": 64}
CMP = {"<": "<?", "<=": "<=?", ">": ">?", ">=": ">=?", "==": "=?"}


class TailParser:
    """statements: if E { .. } | let x = E; | trace!(..); | return None; | break; | frame.instruction = E; | Some(frame)
       expressions: || && comparisons + - `as uN` ! ( ) integer literals and the operands listed in [atoms]"""

    def __init__(self, toks, atoms, what, first_tag):
        self.t, self.i, self.what = toks, 0, what
        self.atoms = atoms
        self.tags = {}          # token position of an arithmetic operator -> panic-site tag
        self.next_tag = first_tag
        self.used = set(v[0] for v in atoms.values())
        self.in_lazy = 0

    def die(self, msg):
        die("%s: %s (at `%s`)" % (self.what, msg, " ".join(self.t[self.i:self.i + 8])))

    def peek(self, k=0):
        return self.t[self.i + k] if self.i + k < len(self.t) else None

    def eat(self, tok=None):
        x = self.peek()
        if x is None or (tok is not None and x != tok):
            self.die("expected %r" % tok)
        self.i += 1
        return x

    def balanced(self):
        """raw text of a parenthesised group starting at '('"""
        depth, out = 0, []
        while True:
            x = self.eat()
            out.append(x)
            if x == "(":
                depth += 1
            elif x == ")":
                depth -= 1
                if depth == 0:
                    return "".join(out)

    # ---- expressions: return (pre, term, type); pre = [(name, rhs)] monadic bindings to run first
    def primary(self, env):
        x = self.peek()
        if x is None:
            self.die("expression expected")
        if re.fullmatch(r"0x[0-9a-fA-F_]+|\d[\d_]*", x):
            self.eat()
            return [], str(intlit(x)), "lit"
        if x == "(":
            self.eat("(")
            r = self.expr(env)
            self.eat(")")
            return r[0], "(%s)" % r[1], r[2]
        if not re.fullmatch(r"[A-Za-z_][A-Za-z0-9_]*", x):
            self.die("operand expected")
        canon = self.eat()
        while self.peek() in (".", "::", "("):
            if self.peek() == "(":
                canon += self.balanced()
            else:
                canon += self.eat()
                if self.peek() == "<":                     # turbofish
                    canon += self.eat("<") + self.eat() + self.eat(">")
                else:
                    y = self.eat()
                    if not re.fullmatch(r"[A-Za-z_][A-Za-z0-9_]*", y):
                        self.die("path segment expected")
                    canon += y
        if canon in env:
            return [], env[canon][0], env[canon][1]
        if canon in self.atoms:
            return [], self.atoms[canon][0], self.atoms[canon][1]
        die("%s: operand `%s` is not one the model has a meaning for" % (self.what, canon))

    def unary(self, env):
        if self.peek() == "!":
            self.eat()
            pre, t, ty = self.unary(env)
            if ty != "bool":
                self.die("`!` on a non-boolean")
            return pre, "(negb %s)" % t, "bool"
        if self.peek() in ("-", "*", "&"):
            self.die("unary `%s` not modelled" % self.peek())
        return self.primary(env)

    def cast(self, env):
        pre, t, ty = self.unary(env)
        while self.peek() == "as":
            self.eat()
            to = self.eat()
            if to not in INT_TYPES:
                self.die("cast to %s not modelled" % to)
            if ty == "lit" or ty == to or (ty in INT_TYPES and INT_TYPES[ty] < INT_TYPES[to]):
                ty = to                                     # widening / no-op cast: the value is unchanged
            else:
                self.die("narrowing cast %s as %s not modelled" % (ty, to))
        return pre, t, ty

    def unify(self, a, b):
        if a == "lit" and b in INT_TYPES:
            return b
        if b == "lit" and a in INT_TYPES:
            return a
        if a == b and a in INT_TYPES:
            return a
        self.die("operand types %s / %s do not match" % (a, b))

    def additive(self, env):
        pre, t, ty = self.cast(env)
        while self.peek() in ("+", "-"):
            pos = self.i
            op = self.eat()
            pre2, t2, ty2 = self.cast(env)
            rty = self.unify(ty, ty2)
            if self.in_lazy:
                self.die("arithmetic on the right of && / || not modelled")
            if pos not in self.tags:
                self.tags[pos] = self.next_tag
                self.next_tag += 1
            tag = self.tags[pos]
            name = "t%d" % tag
            pre = pre + pre2 + [(name, "%s p %d %d %s %s" % ("chk_add" if op == "+" else "chk_sub", INT_TYPES[rty], tag, t, t2))]
            t, ty = name, rty
        if self.peek() in ("*", "/", "%", "&", "|", "^"):
            self.die("operator `%s` not modelled" % self.peek())
        return pre, t, ty

    def comparison(self, env):
        pre, t, ty = self.additive(env)
        if self.peek() in ("<", "<=", ">", ">=", "==", "!="):
            op = self.eat()
            pre2, t2, ty2 = self.additive(env)
            pre = pre + pre2
            if "trust" in (ty, ty2) or "trustconst" in (ty, ty2):
                if sorted((ty, ty2)) != ["trust", "trustconst"] or op not in ("==", "!="):
                    self.die("comparison of frame trusts not modelled")
                const = t2 if ty2 == "trustconst" else t
                if const != "Context":
                    self.die("only FrameTrust::Context has a meaning in the model of the guards")
                return pre, "callee_is_context" if op == "==" else "(negb callee_is_context)", "bool"
            self.unify(ty, ty2)
            if op == "!=":
                return pre, "(negb (%s =? %s))" % (t, t2), "bool"
            return pre, "(%s %s %s)" % (t, CMP[op], t2), "bool"
        return pre, t, ty

    def conj(self, env):
        pre, t, ty = self.comparison(env)
        while self.peek() == "&&":
            self.eat()
            self.in_lazy += 1
            pre2, t2, ty2 = self.comparison(env)
            self.in_lazy -= 1
            if ty != "bool" or ty2 != "bool" or pre2:
                self.die("&& on non-booleans")
            t, ty = "(%s && %s)" % (t, t2), "bool"
        return pre, t, ty

    def expr(self, env):
        pre, t, ty = self.conj(env)
        while self.peek() == "||":
            self.eat()
            self.in_lazy += 1
            pre2, t2, ty2 = self.conj(env)
            self.in_lazy -= 1
            if ty != "bool" or ty2 != "bool" or pre2:
                self.die("|| on non-booleans")
            t, ty = "(%s || %s)" % (t, t2), "bool"
        return pre, t, ty

    # ---- statements
    def fresh(self, name):
        n, k = "l_" + name, 1
        while n in self.used:
            k += 1
            n = "l_%s_%d" % (name, k)
        self.used.add(n)
        return n

    def block(self, env, closing):
        env = dict(env)
        out = []
        while self.peek() != closing:
            x = self.peek()
            if x is None:
                self.die("unexpected end of the guarded region")
            if x == "if":
                self.eat()
                if self.peek() == "let":
                    self.die("`if let` not modelled")
                c = self.expr(env)
                if c[2] != "bool":
                    self.die("condition is not boolean")
                self.eat("{")
                body = self.block(env, "}")
                self.eat("}")
                if self.peek() == "else":
                    self.die("`else` not modelled")
                out.append(("if", c, body))
            elif x == "let":
                self.eat()
                name = self.eat()
                if name == "mut" or not re.fullmatch(r"[a-z_][a-z0-9_]*", name):
                    self.die("`let %s` not modelled" % name)
                self.eat("=")
                e = self.expr(env)
                self.eat(";")
                g = self.fresh(name)
                out.append(("let", g, e))
                env[name] = (g, e[2])
            elif x == "trace!":
                self.eat()
                self.balanced()
                self.eat(";")
            elif x == "return":
                self.eat()
                if self.peek() not in ("None", "false"):
                    self.die("only `return None;` / `return false;` are modelled")
                self.eat()
                self.eat(";")
                out.append(("stop",))
            elif x == "break":
                self.eat()
                self.eat(";")
                out.append(("stop",))
            elif x == "frame" and self.peek(1) == "." and self.peek(2) == "instruction" and self.peek(3) == "=":
                self.i += 4
                e = self.expr(env)
                if e[2] != "u64":
                    self.die("frame.instruction must be assigned a u64")
                self.eat(";")
                out.append(("instr", e))
            elif x == "Some" and self.t[self.i:self.i + 4] == ["Some", "(", "frame", ")"]:
                self.i += 4
                out.append(("some",))
                if self.peek() != closing:
                    self.die("code after Some(frame)")
            else:
                self.die("statement not modelled")
        return out


def binds(pre, ind):
    return "".join("%sdo %s <- %s;\n" % (ind, n, rhs) for n, rhs in pre)


def gen_tail(stmts, instr, ind, what):
    """continuation-passing rendering: `if c { body }; rest` = if c then [body; rest] else [rest]"""
    if not stmts:
        die("%s: the guarded region can end without `Some(frame)` or `return None`" % what)
    s, rest = stmts[0], stmts[1:]
    if s[0] == "stop":
        return ind + "Ret None"
    if s[0] == "some":
        return ind + "Ret (Some %s)" % instr
    if s[0] == "let":
        pre, t, _ = s[2]
        return binds(pre, ind) + "%slet %s := %s in\n" % (ind, s[1], t) + gen_tail(rest, instr, ind, what)
    if s[0] == "instr":
        pre, t, _ = s[1]
        return binds(pre, ind) + gen_tail(rest, t, ind, what)
    if s[0] == "if":
        pre, t, _ = s[1]
        return (binds(pre, ind) + "%sif %s then (\n" % (ind, t) + gen_tail(s[2] + rest, instr, ind + "  ", what) + "\n%s) else (\n" % ind
                + gen_tail(rest, instr, ind + "  ", what) + "\n%s)" % ind)
    die("%s: internal: %r" % (what, s))


def gen_stop(stmts, ind, what, on_stop="true", on_end="false"):
    """walk_stack's stop guard: true = leave the loop before asking for a caller
       (also used for the tests in front of instruction_seems_valid_by_symbols: on_stop = `return false`, on_end = the call is reached)"""
    if not stmts:
        return ind + on_end
    s, rest = stmts[0], stmts[1:]
    if s[0] == "stop":
        return ind + on_stop
    if s[0] == "let":
        pre, t, _ = s[2]
        if pre:
            die("%s: arithmetic in the guard not modelled" % what)
        return "%slet %s := %s in\n" % (ind, s[1], t) + gen_stop(rest, ind, what, on_stop, on_end)
    if s[0] == "if":
        pre, t, _ = s[1]
        if pre:
            die("%s: arithmetic in the guard not modelled" % what)
        return ("%sif %s then (\n" % (ind, t) + gen_stop(s[2] + rest, ind + "  ", what, on_stop, on_end) + "\n%s) else (\n" % ind
                + gen_stop(rest, ind + "  ", what, on_stop, on_end) + "\n%s)" % ind)
    die("%s: statement %s not modelled in the guard" % (what, s[0]))


def tail_definitions(src, fmt, regw):
    """-> text of Gen/UnwindTail.v"""
    out = []
    # field types of the raw contexts the guards read directly
    one(fmt, r"pub struct CONTEXT_X86 \{(?:[^}]*?)\n\s*pub esp: u32,", "CONTEXT_X86.esp : u32", re.S)
    one(fmt, r"pub struct CONTEXT_AMD64 \{(?:[^}]*?)\n\s*pub rsp: u64,", "CONTEXT_AMD64.rsp : u64", re.S)
    common = {
        "frame.context.get_instruction_pointer()": ("caller_ip", "u64"),
        "frame.context.get_stack_pointer()": ("caller_sp", "u64"),
        "args.callee_frame.trust": ("callee_trust", "trust"),
        "FrameTrust::Context": ("Context", "trustconst"),
    }
    for v in ("Scan", "CfiScan", "FramePointer", "CallFrameInfo", "PreWalked", "None"):
        common["FrameTrust::" + v] = (v, "trustconst")
    per = {
        "x86": {"ctx.esp": ("callee_sp", "u32")},
        "amd64": {"ctx.rsp": ("callee_sp", "u64")},
        "arm": {'ctx.get_register_always("sp")': ("callee_sp", "u%d" % regw["arm"]),
                "ctx.get_register_always(STACK_POINTER)": ("callee_sp", "u%d" % regw["arm"])},
        "arm64": {'ctx.get_register_always("sp")': ("callee_sp", "u%d" % regw["arm64"]),
                  "ctx.get_register_always(STACK_POINTER)": ("callee_sp", "u%d" % regw["arm64"])},
        "mips": {'ctx.get_register_always("sp")': ("callee_sp", "u%d" % regw["mips"]),
                 "ctx.get_register_always(STACK_POINTER)": ("callee_sp", "u%d" % regw["mips"])},
    }
    for key in ("x86", "amd64", "arm", "arm64", "mips"):
        s = src[key]
        m = one(s, r"\n    let mut frame = frame\?;\n(.*?)\n\}\n", key + " end of get_caller_frame", re.S)
        what = key + ".rs get_caller_frame (after `let mut frame = frame?;`)"
        atoms = dict(common)
        atoms.update(per[key])
        ps = TailParser(tokenize(m.group(1), what), atoms, what, 550)
        stmts = ps.block({}, None)
        if not stmts or stmts[-1] != ("some",):
            die(what + ": does not end with Some(frame)")
        out.append("(* %s.rs: the checks between `let mut frame = frame?;` and `Some(frame)` of get_caller_frame.\n"
                   "   callee_is_context = (args.callee_frame.trust == FrameTrust::Context), callee_sp = the callee context's stack\n"
                   "   pointer, caller_ip / caller_sp = frame.context.get_instruction_pointer() / get_stack_pointer();\n"
                   "   result: Ret None = `return None`, Ret (Some i) = Some(frame) with frame.instruction = i *)\n"
                   "Definition %s_gcf_tail (p : profile) (callee_is_context : bool) (callee_sp caller_ip caller_sp : Z) : outcome (option Z) :=\n%s.\n"
                   % (key, key, gen_tail(stmts, "caller_ip", "  ", what)))
    # ---- lib.rs walk_stack: what happens between picking the callee frame and asking for its caller
    what = "lib.rs walk_stack (between `let callee_frame = ..` and `let grand_callee_frame = ..`)"
    m = one(src["lib"], r"\n        let callee_frame = &stack\.frames\.last\(\)\.unwrap\(\);\n(.*?)\n        let grand_callee_frame = stack\n", what, re.S)
    atoms = {
        "callee_frame.trust": ("callee_trust", "trust"),
        "FrameTrust::Context": ("Context", "trustconst"),
        "stack_memory.get_memory_at_address::<u8>(callee_frame.context.get_stack_pointer()).is_none()": ("(negb sp_readable)", "bool"),
        "stack_memory.get_memory_at_address::<u8>(callee_frame.context.get_stack_pointer()).is_some()": ("sp_readable", "bool"),
    }
    for v in ("Scan", "CfiScan", "FramePointer", "CallFrameInfo", "PreWalked", "None"):
        atoms["FrameTrust::" + v] = (v, "trustconst")
    ps = TailParser(tokenize(m.group(1), what), atoms, what, 590)
    stmts = ps.block({}, None)
    out.append("(* lib.rs walk_stack: true = the loop is left before get_caller_frame is asked for a caller of this frame.\n"
               "   callee_is_context = (callee_frame.trust == FrameTrust::Context),\n"
               "   sp_readable = stack_memory.get_memory_at_address::<u8>(callee_frame.context.get_stack_pointer()).is_some() *)\n"
               "Definition lib_walk_stop (callee_is_context sp_readable : bool) : bool :=\n%s.\n" % gen_stop(stmts, "  ", what))
    # ---- amd64 resolve(): checked_add (F-C03f) or plain `+`
    a = src["amd64"]
    chk = [r"let frame_base = last_bp\.checked_add\(offset\)\?;",
           r"stack_memory\.get_memory_at_address\(frame_base\.checked_add\(POINTER_WIDTH\)\?\)\?;",
           r"let caller_sp = frame_base\.checked_add\(POINTER_WIDTH \* 2\)\?;"]
    raw = [r"get_memory_at_address\(last_bp \+ offset \+ POINTER_WIDTH\)\?;",
           r"get_memory_at_address\(last_bp \+ offset\)\?;",
           r"let caller_sp = last_bp \+ offset \+ POINTER_WIDTH \* 2;"]
    nchk = sum(len(re.findall(p_, a)) for p_ in chk)
    nraw = sum(len(re.findall(p_, a)) for p_ in raw)
    if nchk == 3 and nraw == 0:
        out.append("Definition amd64_resolve_checked : bool := true.  (* resolve(): every address is formed with checked_add *)\n")
    elif nchk == 0 and nraw == 3:
        out.append("Definition amd64_resolve_checked : bool := false.  (* resolve(): plain `+` *)\n")
    else:
        die("amd64 resolve(): neither the checked_add form nor the plain `+` form")
    # ---- lib.rs StackFrame::from_context: the initialisers of `instruction` and `resume_address`
    lib = src["lib"]
    m = one(lib, r"pub fn from_context\(context: MinidumpContext, trust: FrameTrust\) -> StackFrame \{\s*StackFrame \{(.*?)\n            module: None,", "StackFrame::from_context", re.S)
    atoms = {"context.get_instruction_pointer()": ("ip", "u64"), "context.get_stack_pointer()": ("sp", "u64")}
    what = "lib.rs StackFrame::from_context"
    toks = tokenize(m.group(1), what)
    fields = {}
    ps = TailParser(toks, atoms, what, 595)
    while ps.peek() is not None:
        name = ps.eat()
        ps.eat(":")
        pre, t, ty = ps.expr({})
        ps.eat(",")
        if pre or ty != "u64":
            die(what + ": initialiser of %s is not a plain u64 expression" % name)
        fields[name] = t
    if sorted(fields) != ["instruction", "resume_address"]:
        die(what + ": fields before `module: None` are %s" % sorted(fields))
    out.append("(* lib.rs StackFrame::from_context: `instruction: ..` and `resume_address: ..` as functions of the context's\n"
               "   get_instruction_pointer() / get_stack_pointer() *)\n"
               "Definition lib_from_context_instruction (ip sp : Z) : Z := %s.\n"
               "Definition lib_from_context_resume (ip sp : Z) : Z := %s.\n" % (fields["instruction"], fields["resume_address"]))
    # ---- lib.rs fill_source_line_info: the address the module is looked up with, and the one fill_symbol is given
    m = one(lib, r"\n    // Find the module whose address range covers this frame's instruction\.\n"
                 r"    if let Some\(module\) = modules\.module_at_address\(([^\n]*)\) \{\n"
                 r"(?:\s*//[^\n]*\n)*\s*frame\.module = Some\(module\.clone\(\)\);\n"
                 r"(?:\s*//[^\n]*\n|\s*\n)*\s*let _ = symbol_provider\.fill_symbol\(module, frame\)\.await;\n"
                 r"(?:\s*//[^\n]*\n|\s*\n)*\s*frame\.inlines\.reverse\(\);\n    \}\n\}\n", "fill_source_line_info body", re.S)
    what = "lib.rs fill_source_line_info: argument of module_at_address"
    fatoms = {"frame.instruction": ("instruction", "u64"), "frame.resume_address": ("resume_address", "u64")}
    ps = TailParser(tokenize(m.group(1), what), fatoms, what, 597)
    pre, t_mod, ty = ps.expr({})
    if pre or ty != "u64" or ps.peek() is not None:
        die(what + ": not a plain u64 expression")
    m = one(lib, r"impl FrameSymbolizer for StackFrame \{\s*fn get_instruction\(&self\) -> u64 \{\s*([^\n]*)\n\s*\}", "FrameSymbolizer::get_instruction of StackFrame")
    what = "lib.rs <StackFrame as FrameSymbolizer>::get_instruction"
    satoms = {"self.instruction": ("instruction", "u64"), "self.resume_address": ("resume_address", "u64")}
    ps = TailParser(tokenize(m.group(1), what), satoms, what, 598)
    pre, t_sym, ty = ps.expr({})
    if pre or ty != "u64" or ps.peek() is not None:
        die(what + ": not a plain u64 expression")
    out.append("(* lib.rs fill_source_line_info / FrameSymbolizer::get_instruction: the address a frame's module is looked up with\n"
               "   (modules.module_at_address(..)) and the address fill_symbol symbolizes (frame.get_instruction()) *)\n"
               "Definition lib_module_lookup_address (instruction resume_address : Z) : Z := %s.\n"
               "Definition lib_symbol_lookup_address (instruction resume_address : Z) : Z := %s.\n" % (t_mod, t_sym))
    return ("(* GENERATED by translate/unwind_consts.py from /repo/minidump-unwind/src/{x86,amd64,arm,arm64,mips,lib}.rs -- do not edit.\n"
            "   The guard expressions at the end of every get_caller_frame, the stop guard of walk_stack and the arithmetic flavour of\n"
            "   amd64's resolve(), re-emitted from the Rust text (statement by statement, operator by operator). *)\n"
            "From RM Require Import Base.Word.\nOpen Scope Z_scope.\n\n" + "\n".join(out))


# ======================================================================================
# Second pass of round 5: the scan acceptance test (every <arch>::instruction_seems_valid and
# lib.rs instruction_seems_valid_by_symbols), arm64's ptr_auth_strip and the FrameTrust each
# technique stamps on the frames it makes, re-emitted from the Rust text (appended to
# Gen/UnwindTail.v).  Text is compared after tokenization (comments and layout do not matter).
def norm(text, what):
    return " ".join(tokenize(text, what))


def nre(pat):
    """regex over a normalized token string, written with single spaces between tokens"""
    return pat


TRUST_CODE = {"None": 0, "Scan": 1, "CfiScan": 2, "FramePointer": 3, "CallFrameInfo": 4, "PreWalked": 5, "Context": 6}


def valid_definitions(src, regw):
    out = []
    bits = {"x86": 32, "amd64": 64, "arm": regw["arm"], "arm64": regw["arm64"], "mips": regw["mips"]}
    # ---- is_non_canonical (amd64: an expression of the guard subset; arm64: a range test)
    m = one(src["amd64"], r"\nfn is_non_canonical\(ptr: Pointer\) -> bool \{\n(.*?)\n\}\n", "amd64 is_non_canonical", re.S)
    what = "amd64.rs is_non_canonical"
    ps = TailParser(tokenize(m.group(1), what), {"ptr": ("ptr", "u64")}, what, 600)
    pre, t, ty = ps.expr({})
    if pre or ty != "bool" or ps.peek() is not None:
        die(what + ": not a plain boolean expression of `ptr`")
    out.append("(* amd64.rs is_non_canonical *)\nDefinition amd64_is_non_canonical (ptr : Z) : bool := %s.\n" % t)
    m = one(src["arm64"], r"\nfn is_non_canonical\(instruction: Pointer\) -> bool \{\n(.*?)\n\}\n", "arm64 is_non_canonical", re.S)
    n = norm(m.group(1), "arm64.rs is_non_canonical")
    mm = re.fullmatch(r"(! )?\( (0x[0-9a-fA-F_]+|\d[\d_]*) \. \. (= )?(0x[0-9a-fA-F_]+|\d[\d_]*) \) \. contains \( & instruction \)", n)
    if not mm:
        die("arm64.rs is_non_canonical: body `%s` is not `[!](LO..[=]HI).contains(&instruction)`" % n)
    inner = "((%d <=? instruction) && (instruction %s %d))" % (intlit(mm.group(2)), "<=?" if mm.group(3) else "<?", intlit(mm.group(4)))
    out.append("(* arm64.rs (= arm64_old.rs) is_non_canonical *)\nDefinition arm64_is_non_canonical (instruction : Z) : bool := %s.\n"
               % (("(negb %s)" % inner) if mm.group(1) else inner))
    # ---- <arch>::instruction_seems_valid: the tests in front of the call of instruction_seems_valid_by_symbols
    for key in ("x86", "amd64", "arm", "arm64", "mips"):
        what = key + ".rs instruction_seems_valid"
        m = one(src[key], r"\nasync fn instruction_seems_valid<P>\(\s*instruction: Pointer,\s*modules: &MinidumpModuleList,\s*symbol_provider: &P,\s*\) -> bool\s*"
                          r"where\s*P: SymbolProvider \+ Sync,\s*\{(.*?)\n    super::instruction_seems_valid_by_symbols\(instruction( as u64)?, modules, symbol_provider\)\.await\n\}\n",
                what, re.S)
        atoms = {"instruction": ("instruction", "u%d" % bits[key])}
        if key in ("amd64", "arm64"):
            atoms["is_non_canonical(instruction)"] = ("(%s_is_non_canonical instruction)" % key, "bool")
        ps = TailParser(tokenize(m.group(1), what), atoms, what, 600)
        stmts = ps.block({}, None)
        out.append("(* %s.rs instruction_seems_valid: true = the tests in front of it let the address through to\n"
                   "   super::instruction_seems_valid_by_symbols(instruction%s, ..); false = `return false` *)\n"
                   "Definition %s_instr_pre_ok (instruction : Z) : bool :=\n%s.\n"
                   % (key, m.group(2) or "", key, gen_stop(stmts, "  ", what, "false", "true")))
        # every scan loop asks exactly this function about the candidate word
        cnt = 2 if key == "mips" else 1
        one(src[key], r"\n        if instruction_seems_valid\(caller_(?:ip|pc)(?: as u64)?, args\.modules, args\.symbol_provider\)\.await \{", key + " scan loop acceptance test", count=cnt)
    # ---- lib.rs instruction_seems_valid_by_symbols
    what = "lib.rs instruction_seems_valid_by_symbols"
    m = one(src["lib"], r"\nasync fn instruction_seems_valid_by_symbols<P>\(\s*instruction: u64,\s*modules: &MinidumpModuleList,\s*symbol_provider: &P,\s*\) -> bool\s*"
                        r"where\s*P: SymbolProvider \+ Sync,\s*\{\n(.*?)\n\}\n", what, re.S)
    n = norm(m.group(1), what)
    lit = r"(0x[0-9a-fA-F_]+|\d[\d_]*)"
    mm = re.fullmatch(
        r"let instruction = instruction \. (saturating_sub|wrapping_sub|saturating_add|wrapping_add) \( " + lit + r" \) ; "
        r"(?P<guard>(?:if [^{}]* \{ return false ; \} )*)"
        r"if let Some \( module \) = modules \. module_at_address \( (?P<arg>[^{}]*?) \) \{ "
        r"struct DummyFrame \{ instruction : u64 , has_name : bool , \} "
        r"impl FrameSymbolizer for DummyFrame \{ "
        r"fn get_instruction \( & self \) - > u64 \{ (?P<gi>[^{};]*) \} "
        r"fn set_function \( & mut self , name : & str , _base : u64 , _parameter_size : u32 \) \{ self \. has_name = (?P<neg>! )?name \. is_empty \( \) ; \} "
        r"fn set_source_file \( & mut self , _file : & str , _line : u32 , _base : u64 \) \{ \} \} "
        r"let mut frame = DummyFrame \{ instruction , has_name : (?P<init>true|false) , \} ; "
        r"if symbol_provider \. fill_symbol \( module , & mut frame \) \. await \. (?P<test>is_ok|is_err) \( \) "
        r"\{ (?P<l1>frame \. has_name|! frame \. has_name|true|false) \} else \{ (?P<l2>frame \. has_name|! frame \. has_name|true|false) \} "
        r"\} else \{ (?P<l3>true|false) \}", n)
    if not mm:
        die(what + ": the body no longer has the shape the model was written for: `%s`" % n)
    sub_op, sub_n = mm.group(1), intlit(mm.group(2))
    adj = {"saturating_sub": "sat_sub instruction %d", "wrapping_sub": "wrap64 (instruction - %d)",
           "saturating_add": "sat_add 64 instruction %d", "wrapping_add": "wrap64 (instruction + %d)"}[sub_op] % sub_n
    gtxt = mm.group("guard").strip()
    ps = TailParser(gtxt.split(" ") if gtxt else [], {"instruction": ("instruction", "u64")}, what + " (tests before the module lookup)", 600)
    gstmts = ps.block({}, None)
    ps = TailParser(mm.group("arg").split(" "), {"instruction": ("instruction", "u64")}, what + " (argument of module_at_address)", 600)
    pre, t_arg, ty = ps.expr({})
    if pre or ty != "u64" or ps.peek() is not None:
        die(what + ": argument of module_at_address is not a plain u64 expression")
    ps = TailParser(mm.group("gi").split(" "), {"self.instruction": ("instruction", "u64")}, what + " (DummyFrame::get_instruction)", 600)
    pre, t_gi, ty = ps.expr({})
    if pre or ty != "u64" or ps.peek() is not None:
        die(what + ": DummyFrame::get_instruction is not a plain u64 expression")
    leaf = lambda x: {"frame . has_name": "has_name", "! frame . has_name": "(negb has_name)", "true": "true", "false": "false"}[x]
    ok_leaf, err_leaf = (mm.group("l1"), mm.group("l2")) if mm.group("test") == "is_ok" else (mm.group("l2"), mm.group("l1"))
    if "has_name" in err_leaf:
        pass   # has_name after a failed fill_symbol: whatever set_function calls happened before the error; the model keeps the value below
    body = ("  match module_at (%s) with\n"
            "  | Some module =>\n"
            "      match fill_symbol module (%s) with\n"
            "      | Some called =>\n"
            "          let has_name := match called with Some name_is_empty => %s | None => %s end in\n"
            "          %s\n"
            "      | None =>\n"
            "          let has_name := %s in\n"
            "          %s\n"
            "      end\n"
            "  | None => %s\n"
            "  end" % (t_arg, t_gi, "(negb name_is_empty)" if mm.group("neg") else "name_is_empty", mm.group("init"),
                       leaf(ok_leaf), mm.group("init"), leaf(err_leaf), mm.group("l3")))
    out.append("(* lib.rs instruction_seems_valid_by_symbols.  module_at = modules.module_at_address; fill_symbol module addr models\n"
               "   symbol_provider.fill_symbol(module, &mut frame) for a frame whose get_instruction() is addr: None = Err(_),\n"
               "   Some None = Ok without a call of set_function, Some (Some e) = Ok after set_function(name, ..) with name.is_empty() = e *)\n"
               "Definition lib_isv_adjust (instruction : Z) : Z := %s.  (* `let instruction = instruction.%s(%d);` *)\n"
               "Definition lib_isv_by_symbols {M : Type} (module_at : Z -> option M) (fill_symbol : M -> Z -> option (option bool)) (instruction : Z) : bool :=\n"
               "  let instruction := lib_isv_adjust instruction in\n%s.\n"
               % (adj, sub_op, sub_n, gen_stop(gstmts, "  ", what, "false", "(\n" + body + ")")))
    # ---- arm64 ptr_auth_strip
    what = "arm64.rs ptr_auth_strip"
    m = one(src["arm64"], r"\nfn ptr_auth_strip\(modules: &MinidumpModuleList, ptr: Pointer\) -> Pointer \{\n(.*?)\n\}\n", what, re.S)
    n = norm(m.group(1), what)
    mm = re.fullmatch(
        r"let apple_default_max_addr = \( 1 < < " + lit + r" \) (?P<aop>[-+]) " + lit + r" ; "
        r"let max_module_addr = modules \. by_addr \( \) \. (?P<which>next_back|next) \( \) \. map \( \| last_module \| \{ "
        r"last_module \. base_address \( \) \. (?P<madd>saturating_add|wrapping_add) \( last_module \. size \( \) \) \} \) \. unwrap_or \( " + lit + r" \) ; "
        r"let max_addr = u64 :: (?P<mm>max|min) \( apple_default_max_addr , max_module_addr \) ; "
        r"let mask = max_addr \. checked_next_power_of_two \( \) \. map \( \| high_bit \| high_bit (?P<hop>[-+]) " + lit + r" \) \. unwrap_or \( (?P<dflt>! 0|0) \) ; "
        r"ptr (?P<bop>[&|^]) mask", n)
    if not mm:
        die(what + ": the body no longer has the shape the model was written for: `%s`" % n)
    g = mm.groups()
    shift, aconst, dflt0, hconst = intlit(g[0]), intlit(g[2]), intlit(g[5]), intlit(g[8])
    chk = lambda op: "chk_add" if op == "+" else "chk_sub"
    bop = {"&": "Z.land", "|": "Z.lor", "^": "Z.lxor"}[mm.group("bop")]
    madd = "sat_add 64 base_address size" if mm.group("madd") == "saturating_add" else "wrap64 (base_address + size)"
    out.append("(* arm64.rs (= arm64_old.rs) ptr_auth_strip.  module_end = modules.by_addr().%s() as Some (base_address, size);\n"
               "   checked_next_power_of_two = u64::checked_next_power_of_two (C05/ModelTail.v takes it as an argument) *)\n"
               "Definition arm64_strip_which_module_last : bool := %s.\n"
               "Definition arm64_max_module_addr (module_end : option (Z * Z)) : Z :=\n"
               "  match module_end with Some (base_address, size) => %s | None => %d end.\n"
               "Definition arm64_ptr_auth_strip_gen (checked_next_power_of_two : Z -> option Z) (p : profile) (module_end : option (Z * Z)) (ptr : Z) : outcome Z :=\n"
               "  do apple_default_max_addr <- %s p 64 610 (Z.shiftl 1 %d) %d;\n"
               "  let max_module_addr := arm64_max_module_addr module_end in\n"
               "  let max_addr := Z.%s apple_default_max_addr max_module_addr in\n"
               "  do mask <- match checked_next_power_of_two max_addr with\n"
               "             | Some high_bit => %s p 64 611 high_bit %d\n"
               "             | None => Ret %s\n"
               "             end;\n"
               "  Ret (%s ptr mask).\n"
               % (mm.group("which"), "true" if mm.group("which") == "next_back" else "false", madd, dflt0,
                  chk(mm.group("aop")), shift, aconst, mm.group("mm"), chk(mm.group("hop")), hconst,
                  "18446744073709551615" if mm.group("dflt") == "! 0" else "0", bop))
    # how the techniques use it
    one(src["arm64"], r"ptr_auth_strip\(", "arm64 uses of ptr_auth_strip", count=6)
    # ---- the FrameTrust each technique stamps on its frames; nothing else ever sets a trust
    expect = {"x86": ["get_caller_by_cfi", "get_caller_by_frame_pointer", "get_caller_by_scan"],
              "amd64": ["get_caller_by_cfi", "get_caller_by_frame_pointer", "get_caller_by_scan"],
              "arm": ["get_caller_by_cfi", "get_caller_by_frame_pointer", "get_caller_by_scan"],
              "arm64": ["get_caller_by_cfi", "get_caller_by_frame_pointer", "get_caller_by_scan"],
              "mips": ["get_caller_by_cfi", "get_caller_by_scan32", "get_caller_by_scan64"]}
    short = {"get_caller_by_cfi": "cfi", "get_caller_by_frame_pointer": "fp", "get_caller_by_scan": "scan",
             "get_caller_by_scan32": "scan32", "get_caller_by_scan64": "scan64"}
    lines = []
    for key in ("x86", "amd64", "arm", "arm64", "mips"):
        s = src[key]
        fns = [(mm.start(), mm.group(1)) for mm in re.finditer(r"\n(?:pub )?(?:async )?fn (\w+)", s)]
        found = []
        for mm in re.finditer(r"StackFrame::from_context\(\s*(\w+)\s*,\s*FrameTrust::(\w+)\s*,?\s*\)", s):
            owner = [nm for pos, nm in fns if pos < mm.start()]
            if not owner:
                die(key + ": StackFrame::from_context outside a function")
            if mm.group(2) not in TRUST_CODE:
                die(key + ": unknown FrameTrust::" + mm.group(2))
            found.append((owner[-1], mm.group(2)))
        if [f for f, _ in found] != expect[key]:
            die("%s: frames are made by %s (the model expects exactly one StackFrame::from_context in each of %s)" % (key, found, expect[key]))
        if len(re.findall(r"StackFrame::from_context|StackFrame \{", s)) != len(found):
            die(key + ": a StackFrame is constructed in a way the model does not know")
        for f, tr in found:
            lines.append("Definition %s_trust_%s : Z := %d.  (* %s: FrameTrust::%s *)" % (key, short[f], TRUST_CODE[tr], f, tr))
    m = one(src["lib"], r"frames: vec!\[StackFrame::from_context\(context, FrameTrust::(\w+)\)\],", "lib.rs CallStack::with_context")
    if m.group(1) not in TRUST_CODE:
        die("lib.rs: unknown FrameTrust::" + m.group(1))
    lines.append("Definition lib_trust_context_frame : Z := %d.  (* CallStack::with_context: FrameTrust::%s *)" % (TRUST_CODE[m.group(1)], m.group(1)))
    for key in ("x86", "amd64", "arm", "arm64", "mips", "lib"):
        if re.search(r"\.trust\s*=[^=]", src[key]):
            die(key + ".rs assigns to a frame's trust after construction")
    one(src["lib"], r"pub fn from_context\(context: MinidumpContext, trust: FrameTrust\) -> StackFrame \{\s*StackFrame \{.*?\n            trust,\n", "from_context stores its trust argument", re.S)
    out.append("(* the FrameTrust each technique gives the frames it makes (codes: none 0, scan 1, cfi_scan 2, frame_pointer 3, cfi 4,\n"
               "   prewalked 5, context 6); these are the only places of minidump-unwind where a StackFrame is constructed *)\n" + "\n".join(lines) + "\n")
    return "\n".join(out)


def memory_definitions(repo, libsrc):
    """minidump/src/minidump.rs MinidumpMemoryBase::memory_range (what walk_stack demands of a stack memory) and the two
    statements of get_memory_at_address; lib.rs walk_stack's use of them"""
    md = open(os.path.join(repo, "minidump", "src", "minidump.rs"), encoding="utf-8").read()
    what = "minidump.rs MinidumpMemoryBase::memory_range"
    m = one(md, r"\n    pub fn memory_range\(&self\) -> Option<Range<u64>> \{\n(        if self\.size.*?)\n    \}\n", what, re.S)
    n = norm(m.group(1), what)
    lit = r"(0x[0-9a-fA-F_]+|\d[\d_]*)"
    mm = re.fullmatch(r"if self \. size (?P<cmp>==|<=|<) " + lit + r" \{ return None ; \} "
                      r"Some \( Range :: new \( self \. base_address , self \. base_address \. (?P<add>checked_add|wrapping_add|saturating_add) \( self \. size \) (?P<q>\? )?"
                      r"(?P<op>[-+]) " + lit + r" , \) \)", n)
    if not mm:
        die(what + ": the body no longer has the shape the model was written for: `%s`" % n)
    if (mm.group("add") == "checked_add") != bool(mm.group("q")):
        die(what + ": `?` and checked_add do not go together")
    cmpc, endc = intlit(mm.group(2)), intlit(mm.group(6))
    add = {"checked_add": "checked_add 64 base_address size", "wrapping_add": "Some (wrap64 (base_address + size))",
           "saturating_add": "Some (sat_add 64 base_address size)"}[mm.group("add")]
    out = ("(* minidump/src/minidump.rs MinidumpMemoryBase::memory_range: Ret None = None, Ret (Some (first, last)) = Some(Range::new(first, last)) *)\n"
           "Definition minidump_memory_range (p : profile) (base_address size : Z) : outcome (option (Z * Z)) :=\n"
           "  if (size %s %d) then Ret None else\n"
           "  match %s with\n"
           "  | None => Ret None\n"
           "  | Some e => do t620 <- %s p 64 620 e %d; Ret (Some (base_address, t620))\n"
           "  end.\n" % (CMP[mm.group("cmp")], cmpc, add, "chk_add" if mm.group("op") == "+" else "chk_sub", endc))
    # get_memory_at_address: offset by checked_sub, bounds by scroll's pread_with
    one(md, r"\n        let start = addr\.checked_sub\(self\.base_address\)\? as usize;\n\n        self\.bytes\.pread_with::<T>\(start, self\.endian\)\.ok\(\)\n    \}\n",
        "minidump.rs MinidumpMemoryBase::get_memory_at_address")
    # lib.rs walk_stack: a stack memory without a memory_range is no stack memory; without one the loop ends after the context frame
    one(libsrc, r"\n    let stack_memory =\n        stack_memory\.and_then\(\|stack_memory\| stack_memory\.memory_range\(\)\.map\(\|_\| stack_memory\)\);\n",
        "lib.rs walk_stack: memory_range precondition")
    one(libsrc, r"\n        let Some\(stack_memory\) = stack_memory else \{\n            break;\n        \};\n", "lib.rs walk_stack: no stack memory, no caller")
    one(libsrc, r"\n        let grand_callee_frame = stack\n            \.frames\n            \.len\(\)\n            \.checked_sub\(2\)\n            \.and_then\(\|idx\| stack\.frames\.get\(idx\)\);\n",
        "lib.rs walk_stack: grand callee = the frame before the callee")
    one(libsrc, r"\n        if let Some\(new_frame\) = new_frame \{\n            stack\.frames\.push\(new_frame\);\n        \} else \{\n            has_new_frame = false;\n        \}\n",
        "lib.rs walk_stack: push or stop")
    return out


def main():
    repo, outdir = sys.argv[1], sys.argv[2]
    ud = os.path.join(repo, "minidump-unwind", "src")
    rd = lambda p: open(p, encoding="utf-8").read()
    src = {n: rd(os.path.join(ud, n + ".rs")) for n in ("x86", "amd64", "arm", "arm64", "arm64_old", "mips", "lib")}
    ctxrs = rd(os.path.join(repo, "minidump", "src", "context.rs"))
    fmt = rd(os.path.join(repo, "minidump-common", "src", "format.rs"))

    # arm64_old.rs must be arm64.rs up to the context type (its own header says so)
    a, b = src["arm64"], src["arm64_old"]
    if a.replace("CONTEXT_ARM64;", "CONTEXT_ARM64_OLD;").replace("MinidumpRawContext::Arm64(", "MinidumpRawContext::OldArm64(") != b:
        die("arm64_old.rs is no longer the twin of arm64.rs: model arm64_old separately")

    out = []
    emit = lambda name, val, cmt="": out.append("Definition %s : Z := %d.%s" % (name, val, ("  (* %s *)" % cmt) if cmt else ""))
    EDITED = "the source no longer has the statement this constant is read from: see Gen/UnwindTail.v; no arch_ok holds"

    def emit_stop_le(key, m):
        if m:
            out.append("Definition %s_sp_stop_le : bool := %s.  (* end of stack when caller sp %s callee sp *)" % (key, "true" if m.group(1) == "<=" else "false", m.group(1)))
        else:
            out.append("Definition %s_sp_stop_le : bool := false.  (* %s *)" % (key, EDITED))
    emitl = lambda name, names: out.append("Definition %s : list Z := [%s].  (* %s *)" % (
        name, "; ".join(str(name_id(n)) for n in names), " ".join(names)))

    # callee_forwarded_regs: which CALLEE_SAVED_REGS entries a CFI frame starts from.  Two recognised bodies:
    #   literal: All => every entry; Some(which) => the entries whose NAME is in `which`
    #   alias:   the entries for which <context>::register_is_valid(name, valid) holds (alias groups pinned above;
    #            All => memoize_register(name).is_some(), checked here against CpuContext::REGISTERS / the aliases)
    FWD_LITERAL = ("match valid { MinidumpContextValidity::All => CALLEE_SAVED_REGS.iter().copied().collect(), "
                   "MinidumpContextValidity::Some(ref which) => CALLEE_SAVED_REGS .iter() .filter(|&reg| which.contains(reg)) .copied() .collect(), }")
    FWD_ALIAS = ("let ctx = ArmContext::default(); CALLEE_SAVED_REGS .iter() .copied() "
                 ".filter(|reg| ctx.register_is_valid(reg, valid)) .collect()")
    squeeze = lambda t: "".join(re.sub(r"//[^\n]*", "", t).split())

    def emit_fwd(key, s, saved, known_names):
        m = one(s, r"fn callee_forwarded_regs\(valid: &MinidumpContextValidity\) -> HashSet<&'static str> \{\n(.*?)\n\}\n",
                key + " callee_forwarded_regs", re.S)
        body = squeeze(m.group(1))
        if body == squeeze(FWD_LITERAL):
            alias = False
        elif body == squeeze(FWD_ALIAS):
            alias = True
            # validity All: register_is_valid = memoize_register(reg).is_some(); every listed name must be a register name
            for n in saved:
                if n not in known_names:
                    die(key + ": CALLEE_SAVED_REGS entry %r is not a register name of the context (not forwarded from a fully valid context)" % n)
        else:
            die(key + ": callee_forwarded_regs has neither of the two shapes the model knows (literal name lookup / register_is_valid)")
        out.append("Definition %s_fwd_alias : bool := %s.  (* callee_forwarded_regs: %s *)" % (
            key, "true" if alias else "false", "register_is_valid (alias-aware)" if alias else "literal name lookup"))

    # ---- register width of each context type (context.rs)
    regw = {}
    for ty, key in (("CONTEXT_X86", "x86"), ("CONTEXT_AMD64", "amd64"), ("CONTEXT_ARM", "arm"),
                    ("CONTEXT_ARM64", "arm64"), ("CONTEXT_ARM64_OLD", "arm64_old"), ("CONTEXT_MIPS", "mips")):
        m = one(ctxrs, r"impl CpuContext for md::%s \{\s*type Register = u(32|64);" % ty, "Register type of " + ty)
        regw[key] = int(m.group(1))
    if regw["arm64"] != regw["arm64_old"]:
        die("arm64 / arm64_old register widths differ")
    # CpuContext::REGISTERS of each context type (the names a STACK CFI rule may read or write)
    regs_of = {}
    for ty, key in (("CONTEXT_X86", "x86"), ("CONTEXT_AMD64", "amd64"), ("CONTEXT_ARM", "arm"),
                    ("CONTEXT_ARM64", "arm64"), ("CONTEXT_ARM64_OLD", "arm64_old"), ("CONTEXT_MIPS", "mips")):
        m = one(ctxrs, r"impl CpuContext for md::%s \{\s*type Register = u(?:32|64);\s*const REGISTERS: &'static \[&'static str\] = &\[([^\]]*)\];" % ty,
                "REGISTERS of " + ty)
        regs = strlist(m.group(1), "REGISTERS of " + ty)
        regs_of[key] = regs
        if key == "arm64_old":
            if regs != arm64_regs:
                die("arm64 / arm64_old REGISTERS differ")
            continue
        if key == "arm64":
            arm64_regs = regs
        emitl(key + "_registers", regs)
    # sp / ip names used by the CFI walker (set_cfa / set_ra)
    cfi_names = {}
    for ty, key in (("CONTEXT_X86", "x86"), ("CONTEXT_AMD64", "amd64"), ("CONTEXT_ARM", "arm"),
                    ("CONTEXT_ARM64", "arm64"), ("CONTEXT_MIPS", "mips")):
        m = one(ctxrs, r"impl CpuContext for md::%s \{.*?fn stack_pointer_register_name\(&self\) -> &'static str \{\s*\"([a-z0-9]+)\"\s*\}\s*"
                       r"fn instruction_pointer_register_name\(&self\) -> &'static str \{\s*\"([a-z0-9]+)\"\s*\}" % ty,
                "sp/ip register names of " + ty, re.S)
        cfi_names[key] = (m.group(1), m.group(2))
    # alias groups (register_is_valid / memoize_register)
    m = one(ctxrs, r'impl CpuContext for md::CONTEXT_ARM \{.*?fn memoize_register\(&self, reg: &str\) -> Option<&\'static str> \{\s*match reg \{\s*'
                   r'"r11" => Some\("fp"\),\s*"r13" => Some\("sp"\),\s*"r14" => Some\("lr"\),\s*"r15" => Some\("pc"\),', "ARM aliases", re.S)
    one(ctxrs, r'"r11" \| "fp" => which\.contains\("r11"\) \|\| which\.contains\("fp"\),\s*'
               r'"r13" \| "sp" => which\.contains\("r13"\) \|\| which\.contains\("sp"\),\s*'
               r'"r14" \| "lr" => which\.contains\("r14"\) \|\| which\.contains\("lr"\),\s*'
               r'"r15" \| "pc" => which\.contains\("r15"\) \|\| which\.contains\("pc"\),', "ARM register_is_valid")
    one(ctxrs, r'"x29" \| "fp" => which\.contains\("x29"\) \|\| which\.contains\("fp"\),\s*'
               r'"x30" \| "lr" => which\.contains\("x30"\) \|\| which\.contains\("lr"\),', "ARM64 register_is_valid", count=2)

    pairs = lambda ps: "[" + "; ".join("(%d, %d)" % (name_id(x), name_id(y)) for x, y in ps) + "]"
    out.append("Definition arm_aliases : list (Z * Z) := %s.  (* r11~fp r13~sp r14~lr r15~pc *)" % pairs([("r11", "fp"), ("r13", "sp"), ("r14", "lr"), ("r15", "pc")]))
    out.append("Definition arm64_aliases : list (Z * Z) := %s.  (* x29~fp x30~lr *)" % pairs([("x29", "fp"), ("x30", "lr")]))

    # ---- x86 / amd64
    for key in ("x86", "amd64"):
        s = src[key]
        m = one(s, r"type Pointer = u(32|64);\s*const POINTER_WIDTH: Pointer = (\d+);", key + " POINTER_WIDTH")
        if int(m.group(1)) != regw[key]:
            die(key + ": Pointer type differs from the context's Register type")
        emit(key + "_bits", int(m.group(1)))
        emit(key + "_pw", int(m.group(2)), "POINTER_WIDTH")
        for cname, short in (("INSTRUCTION_REGISTER", "ip"), ("STACK_POINTER_REGISTER", "sp"), ("FRAME_POINTER_REGISTER", "fp")):
            m = one(s, r'const %s: &str = "([a-z0-9]+)";' % cname, key + " " + cname)
            emit("%s_%s_name" % (key, short), name_id(m.group(1)), m.group(1))
        if cfi_names[key] != (re.search(r'const STACK_POINTER_REGISTER: &str = "([a-z0-9]+)"', s).group(1),
                              re.search(r'const INSTRUCTION_REGISTER: &str = "([a-z0-9]+)"', s).group(1)):
            die(key + ": CpuContext sp/ip names differ from the unwinder's constants")
        m = one(s, r"const CALLEE_SAVED_REGS: &\[&str\] = &\[([^\]]*)\];", key + " CALLEE_SAVED_REGS")
        emitl(key + "_callee_saved", strlist(m.group(1), key + " CALLEE_SAVED_REGS"))
        emit_fwd(key, s, strlist(m.group(1), key + " CALLEE_SAVED_REGS"), regs_of[key])
        m = one(s, r"if last_bp >= u(32|64)::MAX - POINTER_WIDTH \* (\d+) \{", key + " frame-pointer overflow guard")
        emit(key + "_fp_guard_words", int(m.group(2)), "last_bp >= MAX - POINTER_WIDTH * n")
        m = one(s, r"let default_scan_range = (\d+);\s*let extended_scan_range = default_scan_range \* (\d+);", key + " scan ranges")
        emit(key + "_scan_default", int(m.group(1)))
        emit(key + "_scan_context", int(m.group(1)) * int(m.group(2)))
        one(s, r"let scan_range = if let FrameTrust::Context = args\.callee_frame\.trust \{\s*extended_scan_range\s*\} else \{\s*default_scan_range\s*\};", key + " scan range choice")
        m = one(s, r"const MAX_REASONABLE_GAP_BETWEEN_FRAMES: Pointer = (\d+) \* (\d+);", key + " MAX_REASONABLE_GAP")
        emit(key + "_max_gap", int(m.group(1)) * int(m.group(2)))
        m = soft(s, r"if frame\.context\.get_instruction_pointer\(\) < (\d+) \{", key + " nullish cut-off")
        emit(key + "_ip_cutoff", int(m.group(1)) if m else 0, "" if m else EDITED)
        m = soft(s, r"if frame\.context\.get_stack_pointer\(\) (<=|<) ctx\.[er]sp( as u64)? \{", key + " sp progress check")
        emit_stop_le(key, m)
        m = soft(s, r"frame\.instruction = ip - (\d+);", key + " call adjustment")
        emit(key + "_adj", int(m.group(1)) if m else 0, "" if m else EDITED)
    m = one(src["amd64"], r"Os::Windows => resolve\((\d+), (\d+) \* POINTER_WIDTH\)\?,\s*_ => resolve\((\d+), (\d+)\)\?,", "amd64 resolve calls")
    emit("amd64_win_scan_max", int(m.group(1)), "resolve(15, ..): offsets 0..=15")
    emit("amd64_win_scan_step_words", int(m.group(2)))
    emit("amd64_other_scan_max", int(m.group(3)))
    emit("amd64_other_scan_step", int(m.group(4)))
    # (soft: is_non_canonical and every instruction_seems_valid are re-emitted expression by expression in Gen/UnwindTail.v and
    #  proved equal to the model's use of these constants -- pre_ok_pinned_*, canon_fp_pinned; an edit breaks those proofs)
    m = soft(src["amd64"], r"ptr > (0x[0-9A-Fa-f]+) && ptr < (0x[0-9A-Fa-f]+)\n", "amd64 is_non_canonical")
    emit("amd64_noncanon_lo", intlit(m.group(1)) if m else 0, "" if m else EDITED)
    emit("amd64_noncanon_hi", intlit(m.group(2)) if m else 0, "" if m else EDITED)

    # ---- arm / arm64
    for key, enum in (("arm", "ArmRegisterNumbers"), ("arm64", "Arm64RegisterNumbers")):
        s = src[key]
        one(s, r"const POINTER_WIDTH: Pointer = std::mem::size_of::<Pointer>\(\) as Pointer;", key + " POINTER_WIDTH")
        one(s, r"type Pointer = <ArmContext as CpuContext>::Register;", key + " Pointer")
        emit(key + "_bits", regw[key])
        emit(key + "_pw", regw[key] // 8, "size_of::<Register>()")
        names = {}
        body = one(fmt, r"impl %s \{\s*pub const fn name\(self\) -> &'static str \{\s*match self \{(.*?)\}\s*\}\s*\}" % enum, enum + "::name", re.S).group(1)
        for mm in re.finditer(r'Self::(\w+) => "([a-z0-9]+)",', body):
            names[mm.group(1)] = mm.group(2)
        def cname(c, what):
            m = one(s, r"const %s: &str = (?:Registers::(\w+)\.name\(\)|\"([a-z0-9]+)\");" % c, key + " " + c)
            if m.group(1):
                if m.group(1) not in names:
                    die("%s: %s::%s has no name" % (key, enum, m.group(1)))
                return names[m.group(1)]
            return m.group(2)
        fp = cname("FRAME_POINTER", "fp")
        sp = cname("STACK_POINTER", "sp")
        pc = cname("PROGRAM_COUNTER", "pc")
        emit(key + "_fp_name", name_id(fp), fp)
        emit(key + "_sp_name", name_id(sp), sp)
        emit(key + "_ip_name", name_id(pc), pc)
        if key == "arm64":
            lr = cname("LINK_REGISTER", "lr")
            emit(key + "_lr_name", name_id(lr), lr)
        emit(key + "_cfi_sp_name", name_id(cfi_names[key][0]), cfi_names[key][0])
        emit(key + "_cfi_ip_name", name_id(cfi_names[key][1]), cfi_names[key][1])
        m = one(s, r"const CALLEE_SAVED_REGS: &\[&str\] = &\[([^\]]*)\];", key + " CALLEE_SAVED_REGS")
        emitl(key + "_callee_saved", strlist(m.group(1), key + " CALLEE_SAVED_REGS"))
        emit_fwd(key, s, strlist(m.group(1), key + " CALLEE_SAVED_REGS"), regs_of[key])
        m = one(s, r"if last_fp >= u(32|64)::MAX - POINTER_WIDTH \* (\d+) \{", key + " frame-pointer overflow guard")
        if int(m.group(1)) != regw[key]:
            die(key + " guard type")
        emit(key + "_fp_guard_words", int(m.group(2)))
        m = one(s, r"let default_scan_range = (\d+);\s*let extended_scan_range = default_scan_range \* (\d+);", key + " scan ranges")
        emit(key + "_scan_default", int(m.group(1)))
        emit(key + "_scan_context", int(m.group(1)) * int(m.group(2)))
        one(s, r"let scan_range = if let FrameTrust::Context = args\.callee_frame\.trust \{\s*extended_scan_range\s*\} else \{\s*default_scan_range\s*\};", key + " scan range choice")
        m = soft(s, r"if frame\.context\.get_instruction_pointer\(\) < (\d+) \{", key + " nullish cut-off")
        emit(key + "_ip_cutoff", int(m.group(1)) if m else 0, "" if m else EDITED)
        m = soft(s, r"if sp (<=|<) last_sp \{.*?let is_leaf = args\.callee_frame\.trust == FrameTrust::Context && sp == last_sp;\s*if !is_leaf \{", key + " sp progress / leaf check", re.S)
        emit_stop_le(key, m)
        m = soft(s, r"frame\.instruction = ip - (\d+);", key + " call adjustment")
        emit(key + "_adj", int(m.group(1)) if m else 0, "" if m else EDITED)
    one(src["arm"], r"if args\.system_info\.os != Os::Ios \{\s*return None;", "arm frame pointer: iOS only")
    m = soft(src["arm64"], r"!\((0x[0-9a-fA-F]+)\.\.=(0x[0-9a-fA-F]+)\)\.contains\(&instruction\)", "arm64 is_non_canonical")
    emit("arm64_canon_lo", intlit(m.group(1)) if m else 0, "" if m else EDITED)
    emit("arm64_canon_hi", intlit(m.group(2)) if m else 0, "" if m else EDITED)
    # (soft: ptr_auth_strip is re-emitted statement by statement in Gen/UnwindTail.v; strip_src_is_model ties it to this constant)
    m = soft(src["arm64"], r"let apple_default_max_addr = \(1 << (\d+)\) - 1;", "arm64 apple_default_max_addr")
    emit("arm64_apple_bits", int(m.group(1)) if m else 0, "" if m else EDITED)

    # ---- mips
    s = src["mips"]
    emit("mips_slot_bits", regw["mips"])
    m = one(s, r'const STACK_POINTER: &str = "([a-z0-9]+)";\s*const PROGRAM_COUNTER: &str = "([a-z0-9]+)";', "mips names")
    emit("mips_sp_name", name_id(m.group(1)), m.group(1))
    emit("mips_ip_name", name_id(m.group(2)), m.group(2))
    if cfi_names["mips"] != (m.group(1), m.group(2)):
        die("mips: CpuContext sp/ip names differ from the unwinder's constants")
    m = one(s, r"const CALLEE_SAVED_REGS: &\[&str\] = &\[([^\]]*)\];", "mips CALLEE_SAVED_REGS")
    emitl("mips_callee_saved", strlist(m.group(1), "mips CALLEE_SAVED_REGS"))
    emit_fwd("mips", s, strlist(m.group(1), "mips CALLEE_SAVED_REGS"), regs_of["mips"])
    m = one(s, r"const MAX_STACK_SIZE: u32 = (\d+);\s*const MIN_ARGS: u32 = (\d+);\s*const POINTER_WIDTH: u32 = (\d+);", "mips32 constants")
    emit("mips32_max_stack", int(m.group(1)))
    emit("mips32_min_args", int(m.group(2)))
    emit("mips32_pw", int(m.group(3)))
    one(s, r"let mut count = MAX_STACK_SIZE / POINTER_WIDTH;", "mips32 count")
    one(s, r"if args\.callee_frame\.trust != FrameTrust::Context \{\s*last_sp = last_sp\.checked_add\(MIN_ARGS \* POINTER_WIDTH\)\?;\s*count -= MIN_ARGS;\s*\}", "mips32 skip")
    m = one(s, r"const MAX_STACK_SIZE: u64 = (\d+);\s*const POINTER_WIDTH: u64 = (\d+);", "mips64 constants")
    emit("mips64_max_stack", int(m.group(1)))
    emit("mips64_pw", int(m.group(2)))
    one(s, r"let count = MAX_STACK_SIZE / POINTER_WIDTH;", "mips64 count")
    m = soft(s, r"if instruction < (0x[0-9a-fA-F]+) \{\s*return false;", "mips instruction_seems_valid")
    emit("mips_instr_min", intlit(m.group(1)) if m else 0, "" if m else EDITED)
    m = soft(s, r"if frame\.context\.get_instruction_pointer\(\) < (\d+) \{", "mips nullish cut-off")
    emit("mips_ip_cutoff", int(m.group(1)) if m else 0, "" if m else EDITED)
    m = soft(s, r"if sp (<=|<) last_sp \{.*?let is_leaf = args\.callee_frame\.trust == FrameTrust::Context && sp == last_sp;\s*if !is_leaf \{", "mips sp progress / leaf check", re.S)
    emit_stop_le("mips", m)
    m = soft(s, r"frame\.instruction = ip - (\d+);", "mips call adjustment")
    emit("mips_adj", int(m.group(1)) if m else 0, "" if m else EDITED)

    # ---- cascade order (cfi > frame pointer > scan) in every get_caller_frame
    for key in ("x86", "amd64", "arm", "arm64"):
        one(src[key], r"frame = get_caller_by_cfi\(ctx, args\)\.await;\s*\}\s*if frame\.is_none\(\) \{\s*frame = get_caller_by_frame_pointer\(ctx, args\);\s*\}\s*"
                      r"if frame\.is_none\(\) \{\s*frame = get_caller_by_scan\(ctx, args\)\.await;\s*\}\s*let mut frame = frame\?;", key + " technique cascade")
    one(src["mips"], r"Ok\(mips32\) => frame = get_caller_by_cfi\(mips32, args\)\.await,\s*Err\(mips64\) => frame = get_caller_by_cfi\(mips64, args\)\.await,\s*\}\s*\}\s*"
                     r"if frame\.is_none\(\) \{\s*match &ctx32 \{\s*Ok\(mips32\) => frame = get_caller_by_scan32\(mips32, args\)\.await,\s*"
                     r"Err\(mips64\) => frame = get_caller_by_scan64\(mips64, args\)\.await,", "mips technique cascade")
    # ---- lib.rs instruction_seems_valid_by_symbols: re-emitted whole in Gen/UnwindTail.v (valid_definitions below)

    text = ("(* GENERATED by translate/unwind_consts.py from /repo/minidump-unwind/src/*.rs -- do not edit.\n"
            "   Register names are the big-endian base-256 value of their ASCII spelling. *)\n"
            "From Coq Require Import ZArith List.\nImport ListNotations.\nOpen Scope Z_scope.\n\n" + "\n".join(out) + "\n")
    tail = tail_definitions(src, fmt, regw) + "\n" + valid_definitions(src, regw) + "\n" + memory_definitions(repo, src["lib"])
    os.makedirs(outdir, exist_ok=True)
    for fname, body in (("UnwindConsts.v", text), ("UnwindTail.v", tail)):
        path = os.path.join(outdir, fname)
        try:
            if open(path).read() == body:
                continue
        except OSError:
            pass
        with open(path, "w") as f:
            f.write(body)


if __name__ == "__main__":
    main()
