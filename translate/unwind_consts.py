#!/usr/bin/env python3
"""unwind_consts.py <repo> <outdir>  ->  <outdir>/UnwindConsts.v

Regenerates the constant table of the unwinder model (coq/C05/Model.v) from
minidump-unwind/src/{x86,amd64,arm,arm64,arm64_old,mips,lib}.rs, minidump/src/context.rs and
minidump-common/src/format.rs.  Every constant is located by an exact pattern; if a
pattern does not match exactly once the translator aborts (exit 2) and the check
reports an infrastructure failure -- an edited constant therefore either changes the
model on the next run or stops the run, it is never silently ignored.

Register names are encoded as integers: the big-endian base-256 value of the ASCII name
("rsp" -> 0x727370).  ocaml/c05/main.ml decodes them generically, so there is no second
name table to keep in step."""
import os
import re
import sys


def die(msg):
    sys.stderr.write("unwind_consts.py: UNRECOGNISED SOURCE SYNTAX: %s\n" % msg)
    sys.exit(2)


def name_id(s):
    if not re.fullmatch(r"[a-z0-9_]+", s):
        die("register name %r" % s)
    v = 0
    for ch in s.encode("ascii"):
        v = v * 256 + ch
    return v


def one(src, pat, what, flags=0, count=1):
    ms = list(re.finditer(pat, src, flags))
    if len(ms) != count:
        die("%s: pattern %r matched %d times (expected %d)" % (what, pat, len(ms), count))
    return ms[0] if count == 1 else ms


def intlit(s):
    s = s.strip().replace("_", "")
    if re.fullmatch(r"0x[0-9a-fA-F]+", s):
        return int(s, 16)
    if re.fullmatch(r"[0-9]+", s):
        return int(s)
    die("integer literal %r" % s)


def strlist(s, what):
    items = [x.strip() for x in s.replace("\n", " ").split(",") if x.strip()]
    out = []
    for it in items:
        m = re.fullmatch(r'"([a-z0-9_]+)"', it)
        if not m:
            die("%s: list item %r" % (what, it))
        out.append(m.group(1))
    return out


def main():
    repo, outdir = sys.argv[1], sys.argv[2]
    ud = os.path.join(repo, "minidump-unwind", "src")
    rd = lambda p: open(p, encoding="utf-8").read()
    src = {n: rd(os.path.join(ud, n + ".rs")) for n in ("x86", "amd64", "arm", "arm64", "arm64_old", "mips", "lib")}
    ctxrs = rd(os.path.join(repo, "minidump", "src", "context.rs"))
    fmt = rd(os.path.join(repo, "minidump-common", "src", "format.rs"))

    # arm64_old.rs must be arm64.rs up to the context type (its own header says so)
    a, b = src["arm64"], src["arm64_old"]
    if a.replace("CONTEXT_ARM64;", "CONTEXT_ARM64_OLD;").replace("MinidumpRawContext::Arm64(", "MinidumpRawContext::OldArm64(") != b:
        die("arm64_old.rs is no longer the twin of arm64.rs: model arm64_old separately")

    out = []
    emit = lambda name, val, cmt="": out.append("Definition %s : Z := %d.%s" % (name, val, ("  (* %s *)" % cmt) if cmt else ""))
    emitl = lambda name, names: out.append("Definition %s : list Z := [%s].  (* %s *)" % (
        name, "; ".join(str(name_id(n)) for n in names), " ".join(names)))

    # ---- register width of each context type (context.rs)
    regw = {}
    for ty, key in (("CONTEXT_X86", "x86"), ("CONTEXT_AMD64", "amd64"), ("CONTEXT_ARM", "arm"),
                    ("CONTEXT_ARM64", "arm64"), ("CONTEXT_ARM64_OLD", "arm64_old"), ("CONTEXT_MIPS", "mips")):
        m = one(ctxrs, r"impl CpuContext for md::%s \{\s*type Register = u(32|64);" % ty, "Register type of " + ty)
        regw[key] = int(m.group(1))
    if regw["arm64"] != regw["arm64_old"]:
        die("arm64 / arm64_old register widths differ")
    # CpuContext::REGISTERS of each context type (the names a STACK CFI rule may read or write)
    for ty, key in (("CONTEXT_X86", "x86"), ("CONTEXT_AMD64", "amd64"), ("CONTEXT_ARM", "arm"),
                    ("CONTEXT_ARM64", "arm64"), ("CONTEXT_ARM64_OLD", "arm64_old"), ("CONTEXT_MIPS", "mips")):
        m = one(ctxrs, r"impl CpuContext for md::%s \{\s*type Register = u(?:32|64);\s*const REGISTERS: &'static \[&'static str\] = &\[([^\]]*)\];" % ty,
                "REGISTERS of " + ty)
        regs = strlist(m.group(1), "REGISTERS of " + ty)
        if key == "arm64_old":
            if regs != arm64_regs:
                die("arm64 / arm64_old REGISTERS differ")
            continue
        if key == "arm64":
            arm64_regs = regs
        emitl(key + "_registers", regs)
    # sp / ip names used by the CFI walker (set_cfa / set_ra)
    cfi_names = {}
    for ty, key in (("CONTEXT_X86", "x86"), ("CONTEXT_AMD64", "amd64"), ("CONTEXT_ARM", "arm"),
                    ("CONTEXT_ARM64", "arm64"), ("CONTEXT_MIPS", "mips")):
        m = one(ctxrs, r"impl CpuContext for md::%s \{.*?fn stack_pointer_register_name\(&self\) -> &'static str \{\s*\"([a-z0-9]+)\"\s*\}\s*"
                       r"fn instruction_pointer_register_name\(&self\) -> &'static str \{\s*\"([a-z0-9]+)\"\s*\}" % ty,
                "sp/ip register names of " + ty, re.S)
        cfi_names[key] = (m.group(1), m.group(2))
    # alias groups (register_is_valid / memoize_register)
    m = one(ctxrs, r'impl CpuContext for md::CONTEXT_ARM \{.*?fn memoize_register\(&self, reg: &str\) -> Option<&\'static str> \{\s*match reg \{\s*'
                   r'"r11" => Some\("fp"\),\s*"r13" => Some\("sp"\),\s*"r14" => Some\("lr"\),\s*"r15" => Some\("pc"\),', "ARM aliases", re.S)
    one(ctxrs, r'"r11" \| "fp" => which\.contains\("r11"\) \|\| which\.contains\("fp"\),\s*'
               r'"r13" \| "sp" => which\.contains\("r13"\) \|\| which\.contains\("sp"\),\s*'
               r'"r14" \| "lr" => which\.contains\("r14"\) \|\| which\.contains\("lr"\),\s*'
               r'"r15" \| "pc" => which\.contains\("r15"\) \|\| which\.contains\("pc"\),', "ARM register_is_valid")
    one(ctxrs, r'"x29" \| "fp" => which\.contains\("x29"\) \|\| which\.contains\("fp"\),\s*'
               r'"x30" \| "lr" => which\.contains\("x30"\) \|\| which\.contains\("lr"\),', "ARM64 register_is_valid", count=2)

    pairs = lambda ps: "[" + "; ".join("(%d, %d)" % (name_id(x), name_id(y)) for x, y in ps) + "]"
    out.append("Definition arm_aliases : list (Z * Z) := %s.  (* r11~fp r13~sp r14~lr r15~pc *)" % pairs([("r11", "fp"), ("r13", "sp"), ("r14", "lr"), ("r15", "pc")]))
    out.append("Definition arm64_aliases : list (Z * Z) := %s.  (* x29~fp x30~lr *)" % pairs([("x29", "fp"), ("x30", "lr")]))

    # ---- x86 / amd64
    for key in ("x86", "amd64"):
        s = src[key]
        m = one(s, r"type Pointer = u(32|64);\s*const POINTER_WIDTH: Pointer = (\d+);", key + " POINTER_WIDTH")
        if int(m.group(1)) != regw[key]:
            die(key + ": Pointer type differs from the context's Register type")
        emit(key + "_bits", int(m.group(1)))
        emit(key + "_pw", int(m.group(2)), "POINTER_WIDTH")
        for cname, short in (("INSTRUCTION_REGISTER", "ip"), ("STACK_POINTER_REGISTER", "sp"), ("FRAME_POINTER_REGISTER", "fp")):
            m = one(s, r'const %s: &str = "([a-z0-9]+)";' % cname, key + " " + cname)
            emit("%s_%s_name" % (key, short), name_id(m.group(1)), m.group(1))
        if cfi_names[key] != (re.search(r'const STACK_POINTER_REGISTER: &str = "([a-z0-9]+)"', s).group(1),
                              re.search(r'const INSTRUCTION_REGISTER: &str = "([a-z0-9]+)"', s).group(1)):
            die(key + ": CpuContext sp/ip names differ from the unwinder's constants")
        m = one(s, r"const CALLEE_SAVED_REGS: &\[&str\] = &\[([^\]]*)\];", key + " CALLEE_SAVED_REGS")
        emitl(key + "_callee_saved", strlist(m.group(1), key + " CALLEE_SAVED_REGS"))
        m = one(s, r"if last_bp >= u(32|64)::MAX - POINTER_WIDTH \* (\d+) \{", key + " frame-pointer overflow guard")
        emit(key + "_fp_guard_words", int(m.group(2)), "last_bp >= MAX - POINTER_WIDTH * n")
        m = one(s, r"let default_scan_range = (\d+);\s*let extended_scan_range = default_scan_range \* (\d+);", key + " scan ranges")
        emit(key + "_scan_default", int(m.group(1)))
        emit(key + "_scan_context", int(m.group(1)) * int(m.group(2)))
        one(s, r"let scan_range = if let FrameTrust::Context = args\.callee_frame\.trust \{\s*extended_scan_range\s*\} else \{\s*default_scan_range\s*\};", key + " scan range choice")
        m = one(s, r"const MAX_REASONABLE_GAP_BETWEEN_FRAMES: Pointer = (\d+) \* (\d+);", key + " MAX_REASONABLE_GAP")
        emit(key + "_max_gap", int(m.group(1)) * int(m.group(2)))
        m = one(s, r"if frame\.context\.get_instruction_pointer\(\) < (\d+) \{", key + " nullish cut-off")
        emit(key + "_ip_cutoff", int(m.group(1)))
        m = one(s, r"if frame\.context\.get_stack_pointer\(\) (<=|<) ctx\.[er]sp( as u64)? \{", key + " sp progress check")
        out.append("Definition %s_sp_stop_le : bool := %s.  (* end of stack when caller sp %s callee sp *)" % (key, "true" if m.group(1) == "<=" else "false", m.group(1)))
        m = one(s, r"frame\.instruction = ip - (\d+);", key + " call adjustment")
        emit(key + "_adj", int(m.group(1)))
    m = one(src["amd64"], r"Os::Windows => resolve\((\d+), (\d+) \* POINTER_WIDTH\)\?,\s*_ => resolve\((\d+), (\d+)\)\?,", "amd64 resolve calls")
    emit("amd64_win_scan_max", int(m.group(1)), "resolve(15, ..): offsets 0..=15")
    emit("amd64_win_scan_step_words", int(m.group(2)))
    emit("amd64_other_scan_max", int(m.group(3)))
    emit("amd64_other_scan_step", int(m.group(4)))
    m = one(src["amd64"], r"ptr > (0x[0-9A-Fa-f]+) && ptr < (0x[0-9A-Fa-f]+)\n", "amd64 is_non_canonical")
    emit("amd64_noncanon_lo", intlit(m.group(1)))
    emit("amd64_noncanon_hi", intlit(m.group(2)))
    one(src["amd64"], r"if is_non_canonical\(instruction\) \|\| instruction == 0 \{\s*return false;", "amd64 instruction_seems_valid")
    one(src["x86"], r"if instruction == 0 \{\s*return false;", "x86 instruction_seems_valid")

    # ---- arm / arm64
    for key, enum in (("arm", "ArmRegisterNumbers"), ("arm64", "Arm64RegisterNumbers")):
        s = src[key]
        one(s, r"const POINTER_WIDTH: Pointer = std::mem::size_of::<Pointer>\(\) as Pointer;", key + " POINTER_WIDTH")
        one(s, r"type Pointer = <ArmContext as CpuContext>::Register;", key + " Pointer")
        emit(key + "_bits", regw[key])
        emit(key + "_pw", regw[key] // 8, "size_of::<Register>()")
        names = {}
        body = one(fmt, r"impl %s \{\s*pub const fn name\(self\) -> &'static str \{\s*match self \{(.*?)\}\s*\}\s*\}" % enum, enum + "::name", re.S).group(1)
        for mm in re.finditer(r'Self::(\w+) => "([a-z0-9]+)",', body):
            names[mm.group(1)] = mm.group(2)
        def cname(c, what):
            m = one(s, r"const %s: &str = (?:Registers::(\w+)\.name\(\)|\"([a-z0-9]+)\");" % c, key + " " + c)
            if m.group(1):
                if m.group(1) not in names:
                    die("%s: %s::%s has no name" % (key, enum, m.group(1)))
                return names[m.group(1)]
            return m.group(2)
        fp = cname("FRAME_POINTER", "fp")
        sp = cname("STACK_POINTER", "sp")
        pc = cname("PROGRAM_COUNTER", "pc")
        emit(key + "_fp_name", name_id(fp), fp)
        emit(key + "_sp_name", name_id(sp), sp)
        emit(key + "_ip_name", name_id(pc), pc)
        if key == "arm64":
            lr = cname("LINK_REGISTER", "lr")
            emit(key + "_lr_name", name_id(lr), lr)
        emit(key + "_cfi_sp_name", name_id(cfi_names[key][0]), cfi_names[key][0])
        emit(key + "_cfi_ip_name", name_id(cfi_names[key][1]), cfi_names[key][1])
        m = one(s, r"const CALLEE_SAVED_REGS: &\[&str\] = &\[([^\]]*)\];", key + " CALLEE_SAVED_REGS")
        emitl(key + "_callee_saved", strlist(m.group(1), key + " CALLEE_SAVED_REGS"))
        m = one(s, r"if last_fp >= u(32|64)::MAX - POINTER_WIDTH \* (\d+) \{", key + " frame-pointer overflow guard")
        if int(m.group(1)) != regw[key]:
            die(key + " guard type")
        emit(key + "_fp_guard_words", int(m.group(2)))
        m = one(s, r"let default_scan_range = (\d+);\s*let extended_scan_range = default_scan_range \* (\d+);", key + " scan ranges")
        emit(key + "_scan_default", int(m.group(1)))
        emit(key + "_scan_context", int(m.group(1)) * int(m.group(2)))
        one(s, r"let scan_range = if let FrameTrust::Context = args\.callee_frame\.trust \{\s*extended_scan_range\s*\} else \{\s*default_scan_range\s*\};", key + " scan range choice")
        m = one(s, r"if frame\.context\.get_instruction_pointer\(\) < (\d+) \{", key + " nullish cut-off")
        emit(key + "_ip_cutoff", int(m.group(1)))
        m = one(s, r"if sp (<=|<) last_sp \{.*?let is_leaf = args\.callee_frame\.trust == FrameTrust::Context && sp == last_sp;\s*if !is_leaf \{", key + " sp progress / leaf check", re.S)
        out.append("Definition %s_sp_stop_le : bool := %s.  (* end of stack when caller sp %s callee sp *)" % (key, "true" if m.group(1) == "<=" else "false", m.group(1)))
        m = one(s, r"frame\.instruction = ip - (\d+);", key + " call adjustment")
        emit(key + "_adj", int(m.group(1)))
    one(src["arm"], r"if args\.system_info\.os != Os::Ios \{\s*return None;", "arm frame pointer: iOS only")
    m = one(src["arm64"], r"!\((0x[0-9a-fA-F]+)\.\.=(0x[0-9a-fA-F]+)\)\.contains\(&instruction\)", "arm64 is_non_canonical")
    emit("arm64_canon_lo", intlit(m.group(1)))
    emit("arm64_canon_hi", intlit(m.group(2)))
    m = one(src["arm64"], r"let apple_default_max_addr = \(1 << (\d+)\) - 1;", "arm64 apple_default_max_addr")
    emit("arm64_apple_bits", int(m.group(1)))
    one(src["arm64"], r"if is_non_canonical\(instruction\) \|\| instruction == 0 \{\s*return false;", "arm64 instruction_seems_valid")

    # ---- mips
    s = src["mips"]
    emit("mips_slot_bits", regw["mips"])
    m = one(s, r'const STACK_POINTER: &str = "([a-z0-9]+)";\s*const PROGRAM_COUNTER: &str = "([a-z0-9]+)";', "mips names")
    emit("mips_sp_name", name_id(m.group(1)), m.group(1))
    emit("mips_ip_name", name_id(m.group(2)), m.group(2))
    if cfi_names["mips"] != (m.group(1), m.group(2)):
        die("mips: CpuContext sp/ip names differ from the unwinder's constants")
    m = one(s, r"const CALLEE_SAVED_REGS: &\[&str\] = &\[([^\]]*)\];", "mips CALLEE_SAVED_REGS")
    emitl("mips_callee_saved", strlist(m.group(1), "mips CALLEE_SAVED_REGS"))
    m = one(s, r"const MAX_STACK_SIZE: u32 = (\d+);\s*const MIN_ARGS: u32 = (\d+);\s*const POINTER_WIDTH: u32 = (\d+);", "mips32 constants")
    emit("mips32_max_stack", int(m.group(1)))
    emit("mips32_min_args", int(m.group(2)))
    emit("mips32_pw", int(m.group(3)))
    one(s, r"let mut count = MAX_STACK_SIZE / POINTER_WIDTH;", "mips32 count")
    one(s, r"if args\.callee_frame\.trust != FrameTrust::Context \{\s*last_sp = last_sp\.checked_add\(MIN_ARGS \* POINTER_WIDTH\)\?;\s*count -= MIN_ARGS;\s*\}", "mips32 skip")
    m = one(s, r"const MAX_STACK_SIZE: u64 = (\d+);\s*const POINTER_WIDTH: u64 = (\d+);", "mips64 constants")
    emit("mips64_max_stack", int(m.group(1)))
    emit("mips64_pw", int(m.group(2)))
    one(s, r"let count = MAX_STACK_SIZE / POINTER_WIDTH;", "mips64 count")
    m = one(s, r"if instruction < (0x[0-9a-fA-F]+) \{\s*return false;", "mips instruction_seems_valid")
    emit("mips_instr_min", intlit(m.group(1)))
    m = one(s, r"if frame\.context\.get_instruction_pointer\(\) < (\d+) \{", "mips nullish cut-off")
    emit("mips_ip_cutoff", int(m.group(1)))
    m = one(s, r"if sp (<=|<) last_sp \{.*?let is_leaf = args\.callee_frame\.trust == FrameTrust::Context && sp == last_sp;\s*if !is_leaf \{", "mips sp progress / leaf check", re.S)
    out.append("Definition mips_sp_stop_le : bool := %s.  (* end of stack when caller sp %s callee sp *)" % ("true" if m.group(1) == "<=" else "false", m.group(1)))
    m = one(s, r"frame\.instruction = ip - (\d+);", "mips call adjustment")
    emit("mips_adj", int(m.group(1)))

    # ---- cascade order (cfi > frame pointer > scan) in every get_caller_frame
    for key in ("x86", "amd64", "arm", "arm64"):
        one(src[key], r"frame = get_caller_by_cfi\(ctx, args\)\.await;\s*\}\s*if frame\.is_none\(\) \{\s*frame = get_caller_by_frame_pointer\(ctx, args\);\s*\}\s*"
                      r"if frame\.is_none\(\) \{\s*frame = get_caller_by_scan\(ctx, args\)\.await;\s*\}\s*let mut frame = frame\?;", key + " technique cascade")
    one(src["mips"], r"Ok\(mips32\) => frame = get_caller_by_cfi\(mips32, args\)\.await,\s*Err\(mips64\) => frame = get_caller_by_cfi\(mips64, args\)\.await,\s*\}\s*\}\s*"
                     r"if frame\.is_none\(\) \{\s*match &ctx32 \{\s*Ok\(mips32\) => frame = get_caller_by_scan32\(mips32, args\)\.await,\s*"
                     r"Err\(mips64\) => frame = get_caller_by_scan64\(mips64, args\)\.await,", "mips technique cascade")
    # ---- lib.rs: instruction_seems_valid_by_symbols prologue
    one(src["lib"], r"let instruction = instruction\.saturating_sub\(1\);\s*// NULL pointer is definitely not valid\s*if instruction == 0 \{\s*return false;", "instruction_seems_valid_by_symbols prologue")

    text = ("(* GENERATED by translate/unwind_consts.py from /repo/minidump-unwind/src/*.rs -- do not edit.\n"
            "   Register names are the big-endian base-256 value of their ASCII spelling. *)\n"
            "From Coq Require Import ZArith List.\nImport ListNotations.\nOpen Scope Z_scope.\n\n" + "\n".join(out) + "\n")
    path = os.path.join(outdir, "UnwindConsts.v")
    os.makedirs(outdir, exist_ok=True)
    try:
        if open(path).read() == text:
            return
    except OSError:
        pass
    with open(path, "w") as f:
        f.write(text)


if __name__ == "__main__":
    main()
