#!/usr/bin/env python3
"""Translator: the bodies of the bit-flip functions of minidump-processor, COMPILED to Gallina -> coq/Gen/C19Src.v
argv: <repo> <outdir>.  Aborts loudly on Rust it cannot compile.

Until round 5 (second pass) these functions were pinned textually by translate/c19_check.py (any edit aborted the
translator).  They are now read statement by statement in a small grammar and emitted as Gallina, so that an edit
inside the grammar CHANGES the generated model; coq/C19/Source.v interprets the generated pieces and
coq/C19/Proofs3.v proves `generated = hand-written model` (c19_*_src_refines) plus the property clauses directly on
the generated form.

  * bitflip::try_bit_flips          -> TRY_EARLY / TRY_ITEMS / TRY_ORIG_IS_ADDRESS / g_try_nc
        early exits on `address`, the closure that builds a candidate (which value is the `original_address`,
        which bit range sets `was_non_canonical`), the loop `for i in bit_range.range()` with
        `possible_address = address ^ (1 << i)` and its items: `if possible_address == N { push }`,
        `if let Some(mi) = lookup(possible_address) { if allowed(&mi) { push } }`, `else if` chains of the former
  * PossibleBitFlip::calculate_heuristics -> g_h_is_null / g_h_was_low / g_h_nc / g_h_calc / g_h_nearby /
        g_h_poison_try / G_REPEAT / G_POISON_BYTES   (every expression compiled; the statement skeleton is fixed)
  * try_detect_null_pointer_in_disguise   -> g_null_pred (the predicate of the search loop)
  * try_get_non_canonical_crash_address   -> g_nc_gates / g_nc_pred (the `return None` gates in source order, the loop predicate)
  * get_exception_details                 -> G_ADJ_ORDER (the `.map(..).or_else(..)` chain: which recovery wins)
  * represents_general_protection_fault   -> g_gpf (the match arms, first match wins)
  * MinidumpException::get_crash_address  -> g_crash_address (match arms with alternatives and guard, pointer-width truncation)
"""
import os
import re
import sys

repo, outdir = sys.argv[1], sys.argv[2]


def rd(p):
    return open(os.path.join(repo, p)).read()


def die(msg):
    sys.stderr.write("c19_src.py: " + msg + "\n")
    sys.exit(1)


def norm(s):
    s = re.sub(r"//[^\n]*", "", s)
    s = re.sub(r"/\*.*?\*/", "", s, flags=re.S)
    return re.sub(r"\s+", " ", s).strip()


def fn_body(src, header_re, what):
    m = re.search(header_re, src)
    if not m:
        die(what + ": header not found")
    i = src.index("{", m.end() - 1)
    depth, j = 0, i
    in_str = False
    while j < len(src):
        ch = src[j]
        if in_str:
            if ch == "\\":
                j += 1
            elif ch == '"':
                in_str = False
        elif ch == '"':
            in_str = True
        elif ch == "/" and src[j + 1] == "/":
            j = src.index("\n", j)
            continue
        elif ch == "{":
            depth += 1
        elif ch == "}":
            depth -= 1
            if depth == 0:
                return src[i + 1:j]
        j += 1
    die(what + ": unbalanced braces")


def enum_vals(src, name):
    return {n: int(v, 0) for n, v in re.findall(r"(\w+)\s*=\s*(0x[0-9a-fA-F]+|\d+)(?:u32|u64)?\s*,",
                                                fn_body(src, r"pub enum %s\s*\{" % name, name))}


pr = rd("minidump-processor/src/processor.rs")
ps = rd("minidump-processor/src/process_state.rs")
si = rd("minidump/src/system_info.rs")
mdrs = rd("minidump/src/minidump.rs")
ew = rd("minidump-common/src/errors/windows.rs")
el = rd("minidump-common/src/errors/linux.rs")
em = rd("minidump-common/src/errors/macos.rs")

cpus = [re.sub(r"\(.*", "", v.strip()) for v in norm(fn_body(si, r"pub enum Cpu\s*\{", "enum Cpu")).split(",") if v.strip()]
oses = [re.sub(r"\(.*", "", v.strip()) for v in norm(fn_body(si, r"pub enum Os\s*\{", "enum Os")).split(",") if v.strip()]

# ------------------------------------------------------------------ expressions
TOK = re.compile(r"\s*(&&|\|\||!=|==|<=|>=|<<|[!()<>,&*+\-]|0x[0-9a-fA-F_]+(?:u64|u32|usize)?|\d[\d_]*(?:u64|u32|usize)?|[A-Za-z_][\w]*(?:(?:::|\.)[A-Za-z_0-9][\w]*)*)")


def tokenize(s, what):
    out, i = [], 0
    s = s.strip()
    while i < len(s):
        m = TOK.match(s, i)
        if not m:
            die("%s: cannot tokenize %r at %r" % (what, s, s[i:i + 30]))
        out.append(m.group(1))
        i = m.end()
    return out


class Expr:
    """bool := or ; or := and ('||' and)* ; and := unary ('&&' unary)* ; unary := '!' unary | '(' bool ')' | cmp
       cmp := int (== != < <= > >=) int | boolname | boolname '(' args ')'
       int := literal | u64::MAX | intname | intname '.abs_diff(' int ')'
       env: name -> ('bool'|'int', coq term)"""

    def __init__(self, s, env, what):
        self.t, self.i, self.env, self.what, self.s = tokenize(s, what), 0, env, what, s

    def peek(self):
        return self.t[self.i] if self.i < len(self.t) else None

    def eat(self, x=None):
        t = self.peek()
        if t is None or (x is not None and t != x):
            die("%s: expected %r at token %d of %r" % (self.what, x, self.i, self.s))
        self.i += 1
        return t

    def parse_bool(self):
        e = self.disj()
        if self.peek() is not None:
            die("%s: trailing tokens in %r" % (self.what, self.s))
        return e

    def disj(self):
        l = self.conj()
        while self.peek() == "||":
            self.eat()
            l = "(%s || %s)" % (l, self.conj())
        return l

    def conj(self):
        l = self.unary()
        while self.peek() == "&&":
            self.eat()
            l = "(%s && %s)" % (l, self.unary())
        return l

    def unary(self):
        if self.peek() == "!":
            self.eat()
            return "(negb %s)" % self.unary()
        if self.peek() == "(":
            self.eat()
            e = self.disj()
            self.eat(")")
            return e
        t = self.peek()
        if t in ("true", "false"):
            self.eat()
            return t
        if t in self.env and self.env[t][0] == "bool":
            self.eat()
            return self.env[t][1]
        if t in self.env and self.env[t][0] == "boolfn":
            self.eat()
            self.eat("(")
            a = self.integer()
            self.eat(")")
            return "(%s %s)" % (self.env[t][1], a)
        a = self.integer()
        op = self.eat()
        b = self.integer()
        coq = {"<": "<?", "<=": "<=?", ">": ">?", ">=": ">=?", "==": "=?"}
        if op == "!=":
            return "(negb (%s =? %s))" % (a, b)
        if op not in coq:
            die("%s: unrecognised comparison %r in %r" % (self.what, op, self.s))
        return "(%s %s %s)" % (a, coq[op], b)

    def integer(self):
        t = self.eat()
        if re.fullmatch(r"(0x[0-9a-fA-F_]+|\d[\d_]*)(u64|u32|usize)?", t):
            return str(int(re.sub(r"(u64|u32|usize)$", "", t).replace("_", ""), 0))
        if t == "u64::MAX":
            return "18446744073709551615"
        mm = re.fullmatch(r"(.+)\.abs_diff", t)
        if mm and mm.group(1) in self.env and self.env[mm.group(1)][0] == "int":
            self.eat("(")
            b = self.integer()
            self.eat(")")
            return "(Z.abs (%s - %s))" % (self.env[mm.group(1)][1], b)
        if t in self.env and self.env[t][0] == "int":
            return self.env[t][1]
        die("%s: unrecognised integer term %r in %r" % (self.what, t, self.s))


def bexpr(s, env, what):
    return Expr(s, env, what).parse_bool()


# ------------------------------------------------------------------ bitflip::try_bit_flips
tb = norm(fn_body(pr, r"pub fn try_bit_flips\(\s*address: u64,\s*source_register: Option<&'static str>,\s*bit_range: BitRange,\s*"
                      r"exception_context: Option<&MinidumpContext>,\s*memory_info: &UnifiedMemoryInfoList,\s*"
                      r"memory_operation: MemoryOperation,\s*\) -> Vec<PossibleBitFlip>\s*\{", "try_bit_flips"))
pos = 0


def take(rx, what, optional=False):
    global pos
    m = re.match(rx, tb[pos:])
    if not m:
        if optional:
            return None
        die("try_bit_flips: expected %s at: %s" % (what, tb[pos:pos + 160]))
    pos += m.end()
    return m


take(r"let mut addresses = Vec::new\(\); ", "`let mut addresses = Vec::new();`")
try_early = []
while True:
    if take(r"if let Some\(mi\) = memory_info\.memory_info_at_address\(address\) \{ if memory_operation\.is_possibly_allowed_for\(&mi\) \{ return addresses; \} \} ",
            "", True):
        try_early.append("TgMapped")
        continue
    m = take(r"if address == (0x[0-9a-fA-F_]+|\d[\d_]*) \{ return addresses; \} ", "", True)
    if m:
        try_early.append("TgEq %d" % int(m.group(1).replace("_", ""), 0))
        continue
    break
m = take(r"let create_possible_address = \|new_address: u64\| \{ let mut ret = PossibleBitFlip::new\(new_address, source_register\); "
         r"ret\.calculate_heuristics\( (address|new_address), (bit_range == BitRange::\w+|true|false), exception_context, \); ret \}; ",
         "the candidate-building closure (PossibleBitFlip::new(new_address, source_register); calculate_heuristics(address, bit_range == .., exception_context))")
try_orig_is_address = "true" if m.group(1) == "address" else "false"
ncx = m.group(2)
if ncx in ("true", "false"):
    try_nc = ncx
else:
    v = ncx.split("::")[1]
    if v not in ("All", "Amd64Canononical", "Amd64NonCanonical"):
        die("try_bit_flips: unknown BitRange " + v)
    try_nc = "gbr_eqb br GBr" + v
take(r"for i in bit_range\.range\(\) \{ let possible_address = address \^ \(1 << i\); ",
     "`for i in bit_range.range() { let possible_address = address ^ (1 << i);`")
PUSH = r"addresses\.push\(create_possible_address\(possible_address\)\);? "
try_items = []
while True:
    m = take(r"if let Some\(mi\) = memory_info\.memory_info_at_address\(possible_address\) \{ "
             r"if memory_operation\.is_possibly_allowed_for\(&mi\) \{ " + PUSH + r"\} \} ", "", True)
    if m:
        if tb[pos:].startswith("else"):
            die("try_bit_flips: `else` after the lookup item is outside the grammar")
        try_items.append(["TgMapped"])
        continue
    m = take(r"if possible_address == (0x[0-9a-fA-F_]+|\d[\d_]*) \{ " + PUSH + r"\} ", "", True)
    if m:
        chain = ["TgEq %d" % int(m.group(1).replace("_", ""), 0)]
        while True:
            m2 = take(r"else if possible_address == (0x[0-9a-fA-F_]+|\d[\d_]*) \{ " + PUSH + r"\} ", "", True)
            if m2:
                chain.append("TgEq %d" % int(m2.group(1).replace("_", ""), 0))
                continue
            m2 = take(r"else if let Some\(mi\) = memory_info\.memory_info_at_address\(possible_address\) \{ "
                      r"if memory_operation\.is_possibly_allowed_for\(&mi\) \{ " + PUSH + r"\} \} ", "", True)
            if m2:
                chain.append("TgMapped")
                if tb[pos:].startswith("else"):
                    die("try_bit_flips: `else` after the lookup item is outside the grammar")
                break
            if tb[pos:].startswith("else"):
                die("try_bit_flips: unrecognised else branch at: " + tb[pos:pos + 120])
            break
        try_items.append(chain)
        continue
    break
take(r"\} addresses$", "the end of the loop and `addresses` (an item of the loop body is outside the grammar)")

# ------------------------------------------------------------------ calculate_heuristics
ch = norm(fn_body(ps, r"pub fn calculate_heuristics\(\s*&mut self,\s*original_address: u64,\s*was_non_canonical: bool,\s*"
                      r"context: Option<&MinidumpContext>,\s*\)\s*\{", "calculate_heuristics"))
CH = (r"self\.details\.is_null = (?P<is_null>[^;]+); "
      r"self\.details\.was_low = (?P<was_low>[^;]+); "
      r"self\.details\.was_non_canonical = (?P<nc>[^;]+); "
      r"self\.details\.nearby_registers = 0; self\.details\.poison_registers = false; "
      r"if let Some\(context\) = context \{ let register_size = context\.register_size\(\); "
      r"let is_repeated = match register_size \{ (?P<rep>(?:\d+ => \|addr: u64\| addr == \(addr & 0xff\) \* 0x[0-9a-fA-F_]+, )+)"
      r"other => \{ tracing::warn!\(\"unsupported register size: \{other\}\"\); \|_\| false \} \}; "
      r"let should_calculate_nearby_registers = (?P<calc>[^;]+); "
      r"for \(_, addr\) in context\.valid_registers\(\) \{ "
      r"if (?P<nearby>[^{}]+) \{ self\.details\.nearby_registers \+= 1; \} "
      r"if (?P<ptry>[^{}]+) \{ match \(addr & 0xff\) as u8 \{ "
      r"(?P<bytes>(?:\|? ?0x[0-9a-fA-F]{2} ?)+)=> \{ self\.details\.poison_registers = true; \} _ => \(\), \} \} \} \} "
      r"self\.confidence = Some\(self\.details\.confidence\(\)\);")
m = re.fullmatch(CH, ch)
if not m:
    die("calculate_heuristics: the statement skeleton changed (is_null; was_low; was_non_canonical; counters reset; register loop with the "
        "nearby test and the poison test; confidence) — coq/C19/Source.v (heuristics_src) must be re-read against it:\n" + ch)
henv = {"self.address.0": ("int", "new"), "original_address": ("int", "orig"),
        "LOW_ADDRESS_CUTOFF": ("int", "LOW_ADDRESS_CUTOFF"), "NEARBY_REGISTER_DISTANCE": ("int", "NEARBY_REGISTER_DISTANCE"),
        "was_non_canonical": ("bool", "nc")}
h_is_null = bexpr(m.group("is_null"), henv, "calculate_heuristics is_null")
henv2 = dict(henv)
henv2["self.details.is_null"] = ("bool", "is_null")
h_was_low = bexpr(m.group("was_low"), henv2, "calculate_heuristics was_low")
henv3 = dict(henv2)
henv3["self.details.was_low"] = ("bool", "was_low")
h_nc = bexpr(m.group("nc"), henv3, "calculate_heuristics was_non_canonical")
h_calc = bexpr(m.group("calc"), henv3, "calculate_heuristics should_calculate_nearby_registers")
henv4 = dict(henv3)
henv4["should_calculate_nearby_registers"] = ("bool", "calc")
henv4["addr"] = ("int", "addr")
h_nearby = bexpr(m.group("nearby"), henv4, "calculate_heuristics nearby test")
henv5 = dict(henv4)
henv5["self.details.poison_registers"] = ("bool", "poison")
henv5["is_repeated"] = ("boolfn", "is_repeated")
h_ptry = bexpr(m.group("ptry"), henv5, "calculate_heuristics poison test")
h_rep = [(int(a), int(b.replace("_", ""), 16)) for a, b in
         re.findall(r"(\d+) => \|addr: u64\| addr == \(addr & 0xff\) \* (0x[0-9a-fA-F_]+),", m.group("rep"))]
if len({a for a, _ in h_rep}) != len(h_rep):
    die("calculate_heuristics: duplicate register size in is_repeated")
h_bytes = [int(x, 16) for x in re.findall(r"0x([0-9a-fA-F]{2})", m.group("bytes"))]

# ------------------------------------------------------------------ try_detect_null_pointer_in_disguise
nd = norm(fn_body(pr, r"fn try_detect_null_pointer_in_disguise\(\s*memory_addresses: Option<&\[MemoryAddressInfo\]>,\s*\) -> Option<u64>\s*\{",
                  "try_detect_null_pointer_in_disguise"))
m = re.fullmatch(r"if let Some\(memory_addresses\) = memory_addresses \{ for access in memory_addresses\.iter\(\) \{ "
                 r"if ([^{}]+) \{ return Some\(access\.address\); \} \} \} None", nd)
if not m:
    die("try_detect_null_pointer_in_disguise: not the recognised search loop (first access satisfying a predicate, its address returned):\n" + nd)
aenv = {"access.is_likely_null_pointer_dereference": ("bool", "null"), "access.address": ("int", "a")}
null_pred = bexpr(m.group(1), aenv, "try_detect_null_pointer_in_disguise predicate")

# ------------------------------------------------------------------ try_get_non_canonical_crash_address
nc = norm(fn_body(pr, r"fn try_get_non_canonical_crash_address\(", "try_get_non_canonical_crash_address"))
m = re.match(r"use system_info::Cpu; const NON_CANONICAL_RANGE: RangeInclusive<u64> = (0x[0-9a-fA-F_]+)\.\.=(0x[0-9a-fA-F_]+); ", nc)
if not m:
    die("try_get_non_canonical_crash_address: prologue (use; NON_CANONICAL_RANGE) not recognised:\n" + nc)
p = m.end()
nc_gates = []
has_addr_gate = False
WARN = r"(?:tracing::warn!\( (?:r#)?\"[^\"]*\"#? \); )?"
while True:
    mm = re.match(r"if system_info\.cpu (!=|==) Cpu::(\w+) \{ " + WARN + r"return None; \} ", nc[p:])
    if mm:
        if mm.group(2) not in cpus or mm.group(2) == "Unknown":
            die("try_get_non_canonical_crash_address: unknown Cpu::" + mm.group(2))
        e = "(gcpu_eqb c G%s)" % mm.group(2)
        nc_gates.append(e if mm.group(1) == "==" else "(negb %s)" % e)
        p += mm.end()
        continue
    mm = re.match(r"if (!?)represents_general_protection_fault\(system_info\.os, reason, address\) \{ " + WARN + r"return None; \} ", nc[p:])
    if mm:
        nc_gates.append("(negb gpf)" if mm.group(1) else "gpf")
        p += mm.end()
        continue
    mm = re.match(r"if memory_addresses\.is_none\(\) \{ " + WARN + r"return None; \} ", nc[p:])
    if mm:
        nc_gates.append("(negb has_addrs)")
        has_addr_gate = True
        p += mm.end()
        continue
    break
mm = re.fullmatch(r"for access in memory_addresses\.unwrap\(\)\.iter\(\) \{ if ([^{}]+) \{ return Some\(access\.address\); \} \} "
                  r"(?:tracing::warn!\( r#\".*?\"# \); )?None", nc[p:])
if not mm:
    die("try_get_non_canonical_crash_address: after the gates, not the recognised search loop:\n" + nc[p:])
if not has_addr_gate:
    die("try_get_non_canonical_crash_address: memory_addresses.unwrap() is no longer guarded by an is_none() gate (panic site)")
ncenv = dict(aenv)
nsrc = mm.group(1).strip()
m2 = re.fullmatch(r"(!?)NON_CANONICAL_RANGE\.contains\(&access\.address\)(.*)", nsrc)
if not m2:
    die("try_get_non_canonical_crash_address: the loop predicate does not start with NON_CANONICAL_RANGE.contains(&access.address): " + nsrc)
rng = "((NON_CANONICAL_LO <=? a) && (a <=? NON_CANONICAL_HI))"
nc_pred = "(negb %s)" % rng if m2.group(1) else rng
if m2.group(2).strip():
    mm3 = re.fullmatch(r"(&&|\|\|) (.+)", m2.group(2).strip())
    if not mm3:
        die("try_get_non_canonical_crash_address: unrecognised predicate tail " + m2.group(2))
    nc_pred = "(%s %s %s)" % (nc_pred, mm3.group(1), bexpr(mm3.group(2), ncenv, "non-canonical predicate"))

# ------------------------------------------------------------------ get_exception_details: which recovery wins
ged = norm(fn_body(pr, r"pub fn get_exception_details\(&self\) -> Option<ExceptionDetails<'a>>\s*\{", "get_exception_details"))
GED_PRE = ("Ok(op_analysis) => { let access_addresses = op_analysis.memory_access_list.as_ref().map(|access_list| { access_list .iter() "
           ".map(|access| access.address_info) .collect::<Vec<MemoryAddressInfo>>() }); "
           "let addresses = access_addresses.map(|mut accesses| { match op_analysis.instruction_pointer_update { "
           "Some(InstructionPointerUpdate::Update { address_info }) => { accesses.push(address_info); accesses } _ => accesses, } }); "
           "let addresses = addresses.as_deref(); let adjusted_address = ")
GED_POST = ("; instruction_registers.clone_from(&op_analysis.registers); "
            "exception_info = Some(crate::ExceptionInfo::with_op_analysis( reason, address.into(), adjusted_address, op_analysis, )); } "
            "Err(e) => { tracing::warn!(\"failed to analyze the thread context: {e}\"); }")
i0 = ged.find(GED_PRE)
if i0 < 0:
    die("get_exception_details: the address list handed to the adjusted-address helpers changed (accesses + ip-update target); "
        "coq/C19/Pipeline.v (oa_addresses) must be re-read:\n" + ged)
i1 = ged.find(GED_POST, i0)
if i1 < 0:
    die("get_exception_details: changed after the adjusted-address computation:\n" + ged[i0:])
chain = ged[i0 + len(GED_PRE):i1]
for piece in ("let mut exception_info: Option<crate::ExceptionInfo> = None; let mut instruction_registers: BTreeSet<&'static str> = Default::default(); "
              "if let Some(context) = context.as_ref() { match crate::op_analysis::analyze_thread_context(",
              "let info = exception_info.unwrap_or_else(|| crate::ExceptionInfo::new(reason, address.into())); "
              "Some(ExceptionDetails { info, context, instruction_registers, })"):
    if piece not in ged:
        die("get_exception_details: changed around the op-analysis call / the result record:\n" + ged)
nw = norm(fn_body(pr, r"fn new\(reason: CrashReason, address: crate::Address\) -> Self\s*\{", "ExceptionInfo::new"))
if "adjusted_address: None," not in nw:
    die("ExceptionInfo::new no longer sets adjusted_address: None")
CAND = {
    r"try_detect_null_pointer_in_disguise\(addresses\) \.map\(\|\w+\| AdjustedAddress::NullPointerWithOffset\(\w+\.into\(\)\)\)": 0,
    r"try_get_non_canonical_crash_address\( &self\.system_info, addresses, reason, address, \) \.map\(\|\w+\| AdjustedAddress::NonCanonical\(\w+\.into\(\)\)\)": 1,
}


def parse_chain(s):
    s = s.strip()
    for rx, k in CAND.items():
        mm = re.match(rx, s)
        if mm:
            rest = s[mm.end():].strip()
            if not rest:
                return [k]
            m3 = re.fullmatch(r"\.or_else\(\|\| \{ (.*) \}\)", rest) or re.fullmatch(r"\.or_else\(\|\| (.*)\)", rest)
            if not m3:
                die("get_exception_details: unrecognised continuation of the adjusted-address chain: " + rest)
            return [k] + parse_chain(m3.group(1))
    die("get_exception_details: unrecognised adjusted-address candidate: " + s)


adj_order = parse_chain(chain)
if len(set(adj_order)) != len(adj_order):
    die("get_exception_details: a recovery appears twice in the adjusted-address chain")

# ------------------------------------------------------------------ represents_general_protection_fault
gp = norm(fn_body(pr, r"fn represents_general_protection_fault\(", "represents_general_protection_fault"))
m = re.fullmatch(r"use minidump_common::errors as minidump_errors; use system_info::Os; "
                 r"((?:const \w+: u32 = minidump_errors::\w+::\w+ as u32; )*)"
                 r"match \(os, reason, address\) \{ (.*) \}", gp)
if not m:
    die("represents_general_protection_fault: not `match (os, reason, address) { .. }` after the use/const lines:\n" + gp)
ENUMS = {"ExceptionCodeWindowsAccessType": enum_vals(ew, "ExceptionCodeWindowsAccessType"),
         "ExceptionCodeMacBadAccessX86Type": enum_vals(em, "ExceptionCodeMacBadAccessX86Type"),
         "ExceptionCodeLinux": enum_vals(el, "ExceptionCodeLinux"),
         "ExceptionCodeLinuxSicode": enum_vals(el, "ExceptionCodeLinuxSicode")}
gconsts = {}
for cn, en, mem in re.findall(r"const (\w+): u32 = minidump_errors::(\w+)::(\w+) as u32; ", m.group(1)):
    if en not in ENUMS or mem not in ENUMS[en]:
        die("represents_general_protection_fault: cannot resolve const %s = %s::%s" % (cn, en, mem))
    gconsts[cn] = ENUMS[en][mem]


def split_top(s, sep=","):
    out, depth, cur = [], 0, ""
    for chx in s:
        if chx in "([{":
            depth += 1
        elif chx in ")]}":
            depth -= 1
        if chx == sep and depth == 0:
            out.append(cur.strip())
            cur = ""
        else:
            cur += chx
    if cur.strip():
        out.append(cur.strip())
    return out


def enum_num(path, what):
    mm = re.fullmatch(r"(?:minidump_errors::)?(\w+)::(\w+)", path.strip())
    if mm and mm.group(1) in ENUMS and mm.group(2) in ENUMS[mm.group(1)]:
        return ENUMS[mm.group(1)][mm.group(2)]
    if path.strip() in gconsts:
        return gconsts[path.strip()]
    if re.fullmatch(r"0x[0-9a-fA-F_]+|\d+", path.strip()):
        return int(path.strip().replace("_", ""), 0)
    die("%s: cannot resolve %r to a number" % (what, path))


REASON_ENUM = {"WindowsAccessViolation": ("ExceptionCodeWindowsAccessType",), "MacBadAccessX86": ("ExceptionCodeMacBadAccessX86Type",),
               "LinuxGeneral": ("ExceptionCodeLinux", None)}


def gpf_arm(pat, res):
    what = "represents_general_protection_fault arm"
    mm = re.fullmatch(r"\( ?(.*?),? ?\)", pat)
    if not mm:
        die(what + ": not a tuple pattern: " + pat)
    parts = split_top(mm.group(1))
    if len(parts) != 3:
        die(what + ": not a 3-tuple: " + pat)
    conds = []
    o, r, a = parts
    if o != "_":
        mo = re.fullmatch(r"Os::(\w+)", o)
        if not mo or mo.group(1) not in oses or mo.group(1) == "Unknown":
            die(what + ": unrecognised os pattern " + o)
        conds.append("gosx_eqb o GOs%s" % mo.group(1))
    if r != "_":
        mr = re.fullmatch(r"CrashReason::(\w+)\( ?(.*?),? ?\)", r)
        if not mr or mr.group(1) not in REASON_ENUM:
            die(what + ": unrecognised reason pattern " + r)
        args = split_top(mr.group(2))
        if len(args) != len(REASON_ENUM[mr.group(1)]):
            die(what + ": wrong number of fields in " + r)
        sub = []
        for k, arg in enumerate(args):
            sub.append(None if arg == "_" else enum_num(arg, what))
        conds.append("greason_matches r G%s %s" % (mr.group(1), " ".join("None" if v is None else "(Some %d)" % v for v in sub)
                                                    + (" None" if len(sub) == 1 else "")))
    if a != "_":
        if a == "u64::MAX":
            conds.append("(address =? 18446744073709551615)")
        elif re.fullmatch(r"0x[0-9a-fA-F_]+|\d+", a):
            conds.append("(address =? %d)" % int(a.replace("_", ""), 0))
        else:
            die(what + ": unrecognised address pattern " + a)
    rr = res.strip()
    if rr in ("true", "false"):
        b = rr
    else:
        mm = re.fullmatch(r"\{ (?:tracing::warn!\(\"[^\"]*\"\); )?(true|false) \}", rr)
        if not mm:
            die(what + ": unrecognised result " + rr)
        b = mm.group(1)
    return conds, b


arms_src = m.group(2).strip()
gpf_arms = []
p = 0
while p < len(arms_src):
    # pattern up to ` => `
    k = arms_src.find(" => ", p)
    if k < 0:
        die("represents_general_protection_fault: trailing text: " + arms_src[p:])
    pat = arms_src[p:k].strip()
    q = k + 4
    if arms_src[q] == "{":
        depth = 0
        j = q
        while True:
            if arms_src[j] == "{":
                depth += 1
            elif arms_src[j] == "}":
                depth -= 1
                if depth == 0:
                    break
            j += 1
        res = arms_src[q:j + 1]
        p = j + 1
        if p < len(arms_src) and arms_src[p] == ",":
            p += 1
    else:
        j = arms_src.find(",", q)
        if j < 0:
            die("represents_general_protection_fault: arm without a comma: " + arms_src[q:])
        res = arms_src[q:j]
        p = j + 1
    while p < len(arms_src) and arms_src[p] == " ":
        p += 1
    gpf_arms.append(gpf_arm(pat, res))
if not gpf_arms or gpf_arms[-1][0]:
    die("represents_general_protection_fault: the last arm is not the catch-all (_, _, _)")

# ------------------------------------------------------------------ MinidumpException::get_crash_address
gca = norm(fn_body(mdrs, r"pub fn get_crash_address\(&self, os: Os, cpu: Cpu\) -> u64\s*\{", "get_crash_address"))
m = re.fullmatch(r"let addr = match \( os, err::ExceptionCodeWindows::from_u32\(self\.raw\.exception_record\.exception_code\), \) \{ (.*) \}; "
                 r"match cpu\.pointer_width\(\) \{ (.*) \}", gca)
if not m:
    die("get_crash_address: not `let addr = match (os, ExceptionCodeWindows::from_u32(code)) {..}; match cpu.pointer_width() {..}`:\n" + gca)
wcodes = enum_vals(ew, "ExceptionCodeWindows")


def field(s, what):
    s = s.strip()
    mm = re.fullmatch(r"\{ (.*) \}", s)
    if mm:
        s = mm.group(1).strip()
    mm = re.fullmatch(r"self\.raw\.exception_record\.exception_information\[(\d+)\]", s)
    if mm:
        return "(info %d)" % int(mm.group(1))
    if s == "self.raw.exception_record.exception_address":
        return "excaddr"
    die("%s: unrecognised value %r" % (what, s))


ca_arms = []      # (list of (os, code) alternatives, guard or None, value)
rest = m.group(1).strip()
arm_rx = re.compile(r"((?:\|? ?\(Os::\w+, Some\(err::ExceptionCodeWindows::\w+\)\) ?)+)"
                    r"(?:if self\.raw\.exception_record\.number_parameters (>=|>|==) (\d+) )?=> (\{ [^{}]+ \}|[^,{}]+),? ?")
ca_default = None
while rest:
    mm = arm_rx.match(rest)
    if mm:
        alts = re.findall(r"\(Os::(\w+), Some\(err::ExceptionCodeWindows::(\w+)\)\)", mm.group(1))
        for o, cde in alts:
            if o not in oses or cde not in wcodes:
                die("get_crash_address: unknown Os / ExceptionCodeWindows member in " + mm.group(1))
        guard = None
        if mm.group(2):
            guard = "(nparams %s %s)" % ({">=": ">=?", ">": ">?", "==": "=?"}[mm.group(2)], mm.group(3))
        ca_arms.append(([(o, wcodes[cde]) for o, cde in alts], guard, field(mm.group(4), "get_crash_address")))
        rest = rest[mm.end():].strip()
        continue
    mm = re.fullmatch(r"_ => ([^,{}]+),?", rest)
    if mm:
        ca_default = field(mm.group(1), "get_crash_address default arm")
        break
    die("get_crash_address: unrecognised arm at: " + rest[:200])
if ca_default is None:
    die("get_crash_address: no default arm")
pwarms = m.group(2).strip()
mm = re.fullmatch(r"((?:PointerWidth::\w+ => (?:addr as u32 as u64|addr), )*)_ => (addr as u32 as u64|addr),", pwarms)
if not mm:
    die("get_crash_address: unrecognised pointer-width match: " + pwarms)
pw_arms = re.findall(r"PointerWidth::(\w+) => (addr as u32 as u64|addr),", mm.group(1))
for w, _ in pw_arms:
    if w not in ("Bits32", "Bits64", "Unknown"):
        die("get_crash_address: unknown PointerWidth::" + w)
pw_default = mm.group(2)


def trunc(e):
    return "(a mod 4294967296)" if e == "addr as u32 as u64" else "a"


# ------------------------------------------------------------------ op_analysis.rs: operand evaluation, implicit stack accesses
oa = rd("minidump-processor/src/op_analysis.rs")
tf = norm(fn_body(oa, r"impl MemoryAddressInfo \{\s*fn try_from_operand\(\s*op: Operand,\s*context: &MinidumpContext,\s*\) -> Result<Option<Self>, OpAnalysisError>\s*\{",
                  "MemoryAddressInfo::try_from_operand"))
FLAG = r"address_info\.is_likely_null_pointer_dereference = true;"
TF = (r"let Some\(op_info\) = MemoryOperandInfo::try_from_operand\(op\) else \{ return Ok\(None\); \}; "
      r"let mut address_info = Self \{ address: (?P<init>0x[0-9a-fA-F_]+|\d+), is_likely_null_pointer_dereference: false, is_likely_guard_page: false, \}; "
      r"if let Some\(reg\) = op_info\.base_reg \{ let base = context\.get_regspec\(reg\)\?; address_info\.address = base; "
      r"(?:if (?P<bnull>[^{}]+) \{ " + FLAG + r" \} )?\} "
      r"if let Some\(reg\) = op_info\.index_reg \{ let index = context\.get_regspec\(reg\)\?; "
      r"let scale = op_info\.scale\.unwrap_or\((?P<scale>\d+)\); let scaled_index = index\.wrapping_mul\(scale\.into\(\)\); "
      r"address_info\.address = address_info\.address\.wrapping_add\(scaled_index\); "
      r"(?:if (?P<inull>[^{}]+) \{ " + FLAG + r" \} )?\} "
      r"let disp = op_info\.disp\.unwrap_or\((?P<disp>\d+)\) as u64; address_info\.address = address_info\.address\.wrapping_add\(disp\); "
      r"Ok\(Some\(address_info\)\)")
m = re.fullmatch(TF, tf)
if not m:
    die("MemoryAddressInfo::try_from_operand: the statement skeleton changed (base: value + null flag; index: wrapping_mul by the scale, "
        "wrapping_add; displacement: wrapping_add) — a plain + or * here is a new panic site; coq/C19/Source.v (operand_address_src) must be re-read:\n" + tf)
op_init = int(m.group("init").replace("_", ""), 0)
oenv = {"index": ("int", "index"), "address_info.address": ("int", "addr")}
op_bnull = bexpr(m.group("bnull"), {"base": ("int", "base")}, "try_from_operand base null test") if m.group("bnull") else "false"
op_inull = bexpr(m.group("inull"), oenv, "try_from_operand index null test") if m.group("inull") else "false"
op_scale, op_disp = int(m.group("scale")), int(m.group("disp"))

ia = norm(fn_body(oa, r"fn add_derivable_opcode_implicit_access\(", "add_derivable_opcode_implicit_access"))
m = re.fullmatch(r"let mut push_implicit_access = \|address, access_type\| \{ let address_info = MemoryAddressInfo \{ address, "
                 r"is_likely_null_pointer_dereference: (?P<null>[^,]+), is_likely_guard_page: false, \}; "
                 r"self\.accesses\.push\(MemoryAccess \{ address_info, size: mem_size, access_type, \}\); \}; "
                 r"match opcode \{ (?P<arms>.*) _ => \(\), \} Ok\(\(\)\)", ia)
if not m:
    die("add_derivable_opcode_implicit_access: skeleton changed:\n" + ia)
imp_null = bexpr(m.group("null"), {"address": ("int", "address")}, "implicit access null flag")
iarm = re.compile(r"((?:\|? ?AccessDerivableOpcode::\w+ ?)+)=> \{ if let Ok\(rsp\) = context\.get_regspec\(RegSpec::rsp\(\)\) \{ "
                  r"push_implicit_access\((rsp|rsp\.wrapping_sub\((\d+)\)|rsp\.wrapping_add\((\d+)\)), MemoryAccessType::(\w+)\); \} \} ?")
imp_sets = {}
rest = m.group("arms")
while rest:
    mm = iarm.match(rest)
    if not mm:
        die("add_derivable_opcode_implicit_access: unrecognised arm at: " + rest[:200])
    names = frozenset(re.findall(r"AccessDerivableOpcode::(\w+)", mm.group(1)))
    off = 0
    if mm.group(3):
        off = -int(mm.group(3))
    elif mm.group(4):
        off = int(mm.group(4))
    imp_sets[names] = off
    rest = rest[mm.end():]
PUSHCALL, POPRET = frozenset(["CALL", "PUSH"]), frozenset(["POP", "RETF", "RETURN"])
if set(imp_sets) != {PUSHCALL, POPRET}:
    die("add_derivable_opcode_implicit_access: the opcode sets with an implicit stack access are no longer {CALL, PUSH} and {POP, RETF, RETURN} "
        "(the generator's decoded form knows exactly these two kinds): %r" % sorted(map(sorted, imp_sets)))
ipu = norm(fn_body(oa, r"impl InstructionPointerUpdate \{\s*fn from_instruction\(", "InstructionPointerUpdate::from_instruction"))
m = re.search(r"let rip_update = \|address\| \{ Some\(InstructionPointerUpdate::Update \{ address_info: MemoryAddressInfo \{ address, "
              r"is_likely_null_pointer_dereference: ([^,]+), is_likely_guard_page: false, \}, \}\) \};", ipu)
if not m:
    die("InstructionPointerUpdate::from_instruction: the rip_update closure changed:\n" + ipu[:600])
ip_null = bexpr(m.group(1), {"address": ("int", "address")}, "rip_update null flag")

# ------------------------------------------------------------------ MinidumpMemoryInfo::is_readable / is_writable / is_executable
fmtrs = rd("minidump-common/src/format.rs")
mpb = fn_body(fmtrs, r"pub struct MemoryProtection: u32\s*\{", "bitflags MemoryProtection")
prot_bits = {n: int(v, 0) for n, v in re.findall(r"const (\w+)\s*=\s*(0x[0-9a-fA-F]+|\d+);", mpb)}
if not prot_bits:
    die("MemoryProtection: no flags found")
mi_impl = fn_body(mdrs, r"impl(?:<'a>)? MinidumpMemoryInfo<'(?:a|_)>\s*\{", "impl MinidumpMemoryInfo")
prot_masks = {}
for which in ("readable", "writable", "executable"):
    b = norm(fn_body(mi_impl, r"pub fn is_%s\(&self\) -> bool\s*\{" % which, "MinidumpMemoryInfo::is_" + which))
    mm = re.fullmatch(r"self\.protection\.intersects\( ?((?:\|? ?md::MemoryProtection::\w+ ?)+),? ?\)", b)
    if not mm:
        die("MinidumpMemoryInfo::is_%s: not `self.protection.intersects(FLAG | ..)`: %s" % (which, b))
    mask = 0
    for f in re.findall(r"md::MemoryProtection::(\w+)", mm.group(1)):
        if f not in prot_bits:
            die("MinidumpMemoryInfo::is_%s: unknown flag %s" % (which, f))
        mask |= prot_bits[f]
    prot_masks[which] = mask
if "protection: md::MemoryProtection::from_bits_truncate(raw.protection)," not in norm(mdrs):
    die("MinidumpMemoryInfo: protection is no longer MemoryProtection::from_bits_truncate(raw.protection)")
all_prot = 0
for v in prot_bits.values():
    all_prot |= v

# ------------------------------------------------------------------ MinidumpLinuxMapInfo::is_readable / is_writable / is_executable
lm_impl = fn_body(mdrs, r"impl(?:<'a>)? MinidumpLinuxMapInfo<'(?:a|_)>\s*\{", "impl MinidumpLinuxMapInfo")
MAPS_BIT = {"READ": 2, "WRITE": 1, "EXECUTE": 0}      # the case format's rwx bits: r = 4, w = 2, x = 1
maps_bits = {}
for which in ("readable", "writable", "executable"):
    b = norm(fn_body(lm_impl, r"pub fn is_%s\(&self\) -> bool\s*\{" % which, "MinidumpLinuxMapInfo::is_" + which))
    mm = re.fullmatch(r"self\.map\.perms\.contains\(MMPermissions::(\w+)\)", b)
    if not mm or mm.group(1) not in MAPS_BIT:
        die("MinidumpLinuxMapInfo::is_%s: not `self.map.perms.contains(MMPermissions::READ|WRITE|EXECUTE)`: %s" % (which, b))
    maps_bits[which] = MAPS_BIT[mm.group(1)]
um = norm(mdrs)
if ("match self { Self::Info(info) => info.$name($($param),*), Self::Map(map) => map.$name($($param),*), }" not in um or
        not re.search(r"impl UnifiedMemoryInfo<'_> \{ unified_memory_forward! \{.*?pub fn is_readable\(&self\) -> bool; pub fn is_writable\(&self\) -> bool; "
                      r"pub fn is_executable\(&self\) -> bool; \} \}", um)):
    die("UnifiedMemoryInfo no longer forwards is_readable / is_writable / is_executable to the inner record")

# ------------------------------------------------------------------ from_windows_exception: the EXCEPTION_ACCESS_VIOLATION refinement
fwx = norm(fn_body(mdrs, r"pub fn from_windows_exception\(", "from_windows_exception"))
m = re.search(r"CrashReason::WindowsGeneral\(ExceptionCodeWindows::EXCEPTION_ACCESS_VIOLATION\) => \{ if record\.number_parameters (>=|>|==) (\d+) \{ "
              r"if let Some\(ty\) = err::ExceptionCodeWindowsAccessType::from_u64\(info\[(\d+)\]\) \{ reason = CrashReason::WindowsAccessViolation\(ty\); \} \} \}", fwx)
if not m:
    die("from_windows_exception: the EXCEPTION_ACCESS_VIOLATION refinement (number_parameters guard; access type from exception_information[..]) "
        "is not recognised:\n" + fwx[:1500])
if int(m.group(3)) != 0:
    die("from_windows_exception: the access type is no longer read from exception_information[0] (coq/C19/Source.v greason_of takes info0)")
win_av_guard = "(nparams %s %s)" % ({">=": ">=?", ">": ">?", "==": "=?"}[m.group(1)], m.group(2))

# ------------------------------------------------------------------ op_analysis.rs get_registers
gr = norm(fn_body(oa, r"fn get_registers\(i: Instruction\) -> BTreeSet<&'static str>\s*\{", "get_registers"))
m = re.fullmatch(r"let mut ret = BTreeSet::new\(\); for op in 0\.\.i\.operand_count\(\) \{ "
                 r"if let Some\(reginfo\) = MemoryOperandInfo::try_from_operand\(i\.operand\(op\)\) \{ "
                 r"((?:if let Some\(reg\) = reginfo\.(?:base|index)_reg \{ ret\.insert\(reg\.name\(\)\); \} )*)\} \} ret", gr)
if not m:
    die("get_registers: not the recognised loop (every operand that is a memory operand contributes its base and/or index register to a "
        "BTreeSet<&'static str>):\n" + gr)
gr_items = re.findall(r"reginfo\.(base|index)_reg", m.group(1))

# ------------------------------------------------------------------ emit
L = []
L.append("(* GENERATED by translate/c19_src.py from minidump-processor/src/{processor,process_state}.rs and minidump/src/minidump.rs — do not edit *)")
L.append("From Coq Require Import ZArith List Bool. Import ListNotations. Open Scope Z_scope.")
L.append("From RM Require Import Gen.BitflipConsts Gen.C19Check.")
L.append("")
L.append("Definition gbr_eqb (a b : gbr) : bool := match a, b with GBrAmd64Canononical, GBrAmd64Canononical | GBrAmd64NonCanonical, GBrAmd64NonCanonical | GBrAll, GBrAll => true | _, _ => false end.")
L.append("Definition gosx_tag (o : gosx) : Z := match o with " + " | ".join("GOs%s => %d" % (o, i) for i, o in enumerate(oses)) + " end.")
L.append("Definition gosx_eqb (a b : gosx) : bool := gosx_tag a =? gosx_tag b.")
L.append("")
L.append("(* bitflip::try_bit_flips.  A guard is `x == k` or `lookup(x) is Some(mi) and the operation is possibly allowed for mi`.")
L.append("   TRY_EARLY: the guards on `address` that return the empty list in front; TRY_ITEMS: the items of the loop body over")
L.append("   possible_address = address ^ (1 << i), each an if / else-if chain that pushes ONE candidate when any of its guards holds *)")
L.append("Inductive tguard := TgEq (k : Z) | TgMapped.")
L.append("Definition TRY_EARLY : list tguard := [%s]." % "; ".join(try_early))
L.append("Definition TRY_ITEMS : list (list tguard) := [%s]." % "; ".join("[%s]" % "; ".join(c) for c in try_items))
L.append("(* calculate_heuristics(original_address := address (true) / the candidate itself (false), was_non_canonical := g_try_nc bit_range, ..) *)")
L.append("Definition TRY_ORIG_IS_ADDRESS : bool := %s." % try_orig_is_address)
L.append("Definition g_try_nc (br : gbr) : bool := %s." % try_nc)
L.append("")
L.append("(* PossibleBitFlip::calculate_heuristics: new = self.address.0 (the candidate), orig = original_address, nc = was_non_canonical *)")
L.append("Definition g_h_is_null (new orig : Z) (nc : bool) : bool := %s." % h_is_null)
L.append("Definition g_h_was_low (new orig : Z) (nc is_null : bool) : bool := %s." % h_was_low)
L.append("Definition g_h_nc (new orig : Z) (nc is_null was_low : bool) : bool := %s." % h_nc)
L.append("Definition g_h_calc (new orig : Z) (nc is_null was_low : bool) : bool := %s." % h_calc)
L.append("(* per valid register value addr: the test in front of `nearby_registers += 1` *)")
L.append("Definition g_h_nearby (new orig : Z) (nc is_null was_low calc : bool) (addr : Z) : bool := %s." % h_nearby)
L.append("(* the test in front of the poison-byte match; poison = the flag so far *)")
L.append("Definition g_h_poison_try (is_repeated : Z -> bool) (new orig : Z) (nc is_null was_low calc poison : bool) (addr : Z) : bool := %s." % h_ptry)
L.append("(* is_repeated: register size -> multiplier of (addr & 0xff); any other size: never repeated *)")
L.append("Definition G_REPEAT : list (Z * Z) := [%s]." % "; ".join("(%d, %d)" % e for e in h_rep))
L.append("Definition G_POISON_BYTES : list Z := [%s]." % "; ".join(map(str, h_bytes)))
L.append("")
L.append("(* try_detect_null_pointer_in_disguise: first access (address a, flag null) satisfying this; its address is the offset *)")
L.append("Definition g_null_pred (a : Z) (null : bool) : bool := %s." % null_pred)
L.append("(* try_get_non_canonical_crash_address: the `return None` gates in source order (gpf = represents_general_protection_fault(..),")
L.append("   has_addrs = memory_addresses.is_some()), then the first access satisfying the predicate *)")
L.append("Definition g_nc_gates (c : gcpu) (gpf has_addrs : bool) : list bool := [%s]." % "; ".join(nc_gates))
L.append("Definition g_nc_pred (a : Z) (null : bool) : bool := %s." % nc_pred)
L.append("(* get_exception_details: the adjusted-address chain, first Some wins: 0 = null pointer in disguise, 1 = non-canonical *)")
L.append("Definition G_ADJ_ORDER : list Z := [%s]." % "; ".join(map(str, adj_order)))
L.append("")
L.append("(* represents_general_protection_fault: CrashReason as far as its patterns look *)")
L.append("Inductive greason := GRWindowsAccessViolation (ty : Z) | GRMacBadAccessX86 (ty : Z) | GRLinuxGeneral (sig code : Z) | GROther.")
L.append("Inductive greason_ctor := GWindowsAccessViolation | GMacBadAccessX86 | GLinuxGeneral.")
L.append("Definition opt_matches (p : option Z) (v : Z) : bool := match p with Some k => v =? k | None => true end.")
L.append("Definition greason_matches (r : greason) (k : greason_ctor) (p1 p2 : option Z) : bool :=")
L.append("  match r, k with")
L.append("  | GRWindowsAccessViolation ty, GWindowsAccessViolation => opt_matches p1 ty")
L.append("  | GRMacBadAccessX86 ty, GMacBadAccessX86 => opt_matches p1 ty")
L.append("  | GRLinuxGeneral s c, GLinuxGeneral => opt_matches p1 s && opt_matches p2 c")
L.append("  | _, _ => false")
L.append("  end.")
e = None
for conds, b in reversed(gpf_arms):
    if e is None:
        e = b
    else:
        e = "if %s then %s else\n  %s" % (" && ".join(conds) if conds else "true", b, e)
L.append("Definition g_gpf (o : gosx) (r : greason) (address : Z) : bool :=\n  %s." % e)
L.append("")
L.append("(* MinidumpException::get_crash_address: info k = exception_information[k] *)")
e = ca_default
for alts, guard, val in reversed(ca_arms):
    c = " || ".join("(gosx_eqb o GOs%s && (code =? %d))" % (o, v) for o, v in alts)
    c = "(%s)" % c
    if guard:
        c += " && " + guard
    e = "if %s then %s else %s" % (c, val, e)
L.append("Definition g_crash_address (c : gcpu) (o : gosx) (code nparams : Z) (info : Z -> Z) (excaddr : Z) : Z :=")
L.append("  let a := %s in" % e)
if len({w for w, _ in pw_arms}) != len(pw_arms):
    die("get_crash_address: duplicate PointerWidth arm")
L.append("  match pointer_width c with " + " | ".join("W%s => %s" % (w, trunc(x)) for w, x in pw_arms) +
         (" | _ => %s end." % trunc(pw_default) if len(pw_arms) < 3 else " end."))
L.append("")
L.append("(* op_analysis.rs MemoryAddressInfo::try_from_operand (all arithmetic is wrapping_* in the source): initial address, the null-flag tests on the")
L.append("   base / index register value, default scale and displacement *)")
L.append("Definition G_OP_INIT : Z := %d." % op_init)
L.append("Definition g_op_base_null (base : Z) : bool := %s." % op_bnull)
L.append("Definition g_op_index_null (index addr : Z) : bool := %s." % op_inull)
L.append("Definition G_OP_DEFAULT_SCALE : Z := %d." % op_scale)
L.append("Definition G_OP_DEFAULT_DISP : Z := %d." % op_disp)
L.append("(* add_derivable_opcode_implicit_access: offset from rsp for {CALL, PUSH} / {POP, RETF, RETURN}; null flag of an implicit access; of an ip-update target *)")
L.append("Definition G_IMPLICIT_PUSHCALL_OFF : Z := %d." % imp_sets[PUSHCALL])
L.append("Definition G_IMPLICIT_POPRET_OFF : Z := %d." % imp_sets[POPRET])
L.append("Definition g_implicit_null (address : Z) : bool := %s." % imp_null)
L.append("Definition g_ip_null (address : Z) : bool := %s." % ip_null)
L.append("")
L.append("(* MinidumpMemoryInfo::is_readable / is_writable / is_executable: protection.intersects(mask), protection = from_bits_truncate(raw.protection)")
L.append("   (G_PROT_KNOWN = all defined MemoryProtection bits; every mask lies inside it, so truncation does not matter) *)")
L.append("Definition G_PROT_R_MASK : Z := %d." % prot_masks["readable"])
L.append("Definition G_PROT_W_MASK : Z := %d." % prot_masks["writable"])
L.append("Definition G_PROT_X_MASK : Z := %d." % prot_masks["executable"])
L.append("Definition G_PROT_KNOWN : Z := %d." % all_prot)
L.append("(* MinidumpLinuxMapInfo::is_readable / is_writable / is_executable: which bit of the maps line's rwx (r = bit 2, w = bit 1, x = bit 0) each asks for;")
L.append("   UnifiedMemoryInfo forwards the three predicates to the inner record *)")
L.append("Definition G_MAPS_R_BIT : Z := %d." % maps_bits["readable"])
L.append("Definition G_MAPS_W_BIT : Z := %d." % maps_bits["writable"])
L.append("Definition G_MAPS_X_BIT : Z := %d." % maps_bits["executable"])
L.append("(* CrashReason::from_windows_exception: EXCEPTION_ACCESS_VIOLATION becomes WindowsAccessViolation(type of exception_information[0]) under this guard *)")
L.append("Definition g_win_av_guard (nparams : Z) : bool := %s." % win_av_guard)
L.append("(* get_registers: which registers of a memory operand enter the set the register pass iterates over *)")
L.append("Definition G_GETREGS_BASE : bool := %s." % ("true" if "base" in gr_items else "false"))
L.append("Definition G_GETREGS_INDEX : bool := %s." % ("true" if "index" in gr_items else "false"))
out = "\n".join(L) + "\n"
os.makedirs(outdir, exist_ok=True)
pth = os.path.join(outdir, "C19Src.v")
try:
    same = open(pth).read() == out
except OSError:
    same = False
if not same:
    open(pth, "w").write(out)
