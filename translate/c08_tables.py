#!/usr/bin/env python3
"""Translator for C08: every range constructor and range-table builder -> coq/Gen/C08Tables.v
argv: <repo> <outdir>.

Reads
  minidump-common/src/traits.rs            IntoRangeMapSafe::into_rangemap_safe
  breakpad-symbols/src/sym_file/parser.rs  the parser-local into_rangemap_safe, insert_win_stack_info and where its two
                                           vectors go, the line-record ranges of finish_item, SymbolParser::finish
  breakpad-symbols/src/sym_file/types.rs   Function / StackInfoCfi / StackInfoWin ::memory_range
  minidump/src/minidump.rs                 MinidumpModule / MinidumpUnloadedModule / MinidumpMemoryBase /
                                           MinidumpMemoryInfo / MinidumpLinuxMapInfo ::memory_range, the forwarding
                                           UnifiedMemory / UnifiedMemoryInfo ::memory_range, the Module accessors the
                                           module ranges are made of, the four index-valued builders, their lookups and
                                           by_addr iterators, the unloaded-module sorted vector and its lookup
Every function body must match a template.  The template's literal text pins the statement structure (which steps, in
which order: sort key, the skip of range-less entries, drop-before-merge, the final try_from_iter(..).unwrap(), the
(range, index) pairs of the builders, `.get(address)` + index); its holes (<name:kind>) are the parts that are translated
to Gallina: comparison operators, operands, integer constants, +/-.  The translations are spliced into generated
definitions g_*; coq/C08/Tie.v proves them equal to the hand-written model (C08/Model.v, C08/WinModel.v) that the
c08_* theorems are about, and C08/Properties.v restates the theorems for the generated builders.  So an edit inside a
hole breaks a proof obligation (or, if harmless, leaves everything proved about the new code), and an edit of the
literal text makes this script abort (reported by the runner as a broken tie).  Nothing is guessed: an operand or
operator outside the tables below aborts."""
import os
import re
import sys

repo, outdir = sys.argv[1], sys.argv[2]


def die(msg):
    sys.stderr.write("c08_tables.py: " + msg + "\n")
    sys.exit(1)


def strip_comments(s):
    out, i, n = [], 0, len(s)
    while i < n:
        if s.startswith("//", i):
            j = s.find("\n", i)
            i = n if j < 0 else j
        elif s.startswith("/*", i):
            j = s.find("*/", i + 2)
            i = n if j < 0 else j + 2
        elif s[i] == '"':
            j = i + 1
            while j < n and s[j] != '"':
                j += 2 if s[j] == "\\" else 1
            out.append(s[i:j + 1])
            i = j + 1
        else:
            out.append(s[i])
            i += 1
    return "".join(out)


def read(rel):
    try:
        return open(os.path.join(repo, rel)).read()
    except OSError as e:
        die("cannot read %s: %s" % (rel, e))


def block_after(src, head_re, what, count=1, which=0):
    """normalised, comment-free text between the braces that follow the match of head_re (exactly `count` matches
    expected; the `which`-th is used).  Comments are stripped from the function's neighbourhood only, so raw strings
    elsewhere in the file cannot confuse the stripper."""
    ms = list(re.finditer(head_re, src))
    if len(ms) != count:
        die("%s: expected %d match(es) of the signature, found %d" % (what, count, len(ms)))
    m = ms[which]
    local = strip_comments(src[m.end() - 1: m.end() + 8000])
    i = local.index("{")
    d, j = 0, i
    while j < len(local):
        if local[j] == "{":
            d += 1
        elif local[j] == "}":
            d -= 1
            if d == 0:
                return re.sub(r"\s+", " ", local[i + 1:j]).strip()
        j += 1
    die(what + ": unbalanced braces")


def impl_block(src, head_re, what):
    """raw text of the impl block whose header matches head_re (exactly once)"""
    ms = list(re.finditer(head_re, src))
    if len(ms) != 1:
        die("%s: expected exactly one `%s`, found %d" % (what, head_re, len(ms)))
    m = ms[0]
    # an impl block ends at the first line that is exactly "}"
    e = src.find("\n}\n", m.end())
    if e < 0:
        die(what + ": end of impl block not found")
    return src[m.start(): e + 3]


KIND = {
    "cmp": r"<=|>=|==|!=|<|>",
    "opd": r"[A-Za-z_][A-Za-z0-9_]*(?:\.[A-Za-z0-9_]+|\(\))*",
    "int": r"\d+",
    "arith": r"\+|-",
    "cast": r"(?: as u64)?",
    "ident": r"[A-Za-z_][A-Za-z0-9_]*",
}


def match(template, text, what):
    parts = re.split(r"(<[a-z0-9_]+:[a-z]+>)", template)
    rx = ""
    for p in parts:
        m = re.fullmatch(r"<([a-z0-9_]+):([a-z]+)>", p)
        if m:
            rx += "(?P<%s>%s)" % (m.group(1), KIND[m.group(2)])
        else:
            rx += re.escape(p)
    m = re.fullmatch(rx, text)
    if not m:
        pre = ""
        for p in parts:
            mm = re.fullmatch(r"<([a-z0-9_]+):([a-z]+)>", p)
            pre2 = pre + ("(?:%s)" % KIND[mm.group(2)] if mm else re.escape(p))
            if not re.match(pre2, text):
                got = re.match(pre, text)
                at = got.end() if got else 0
                die("%s no longer has the shape the C08 model was written for.\n  expected next: %s\n  source has   : %s"
                    % (what, p[:140], text[at:at + 140]))
            pre = pre2
        die("%s: trailing source not recognised: %s" % (what, text[-200:]))
    return m.groupdict()


CMP = {"<": "Z.ltb", "<=": "Z.leb", ">": "Z.gtb", ">=": "Z.geb", "==": "Z.eqb", "!=": "(fun a b => negb (Z.eqb a b))"}
ARITH = {"+": "chk_add", "-": "chk_sub"}


def opd(env, s, what):
    if s not in env:
        die("%s: operand `%s` is not one the translator knows at this site (known: %s)" % (what, s, ", ".join(sorted(env))))
    return env[s]


def cmp_(op, l, r):
    return "(%s %s %s)" % (CMP[op], l, r)


# ============================================================================ memory_range(): size variants
SIZE_T = ("if <z_l:opd> <z_op:cmp> <z_c:int> { return None; } "
          "Some(Range::new( <s:opd>, <e_l:opd>.checked_add(<e_r:opd><e_cast:cast>)? <m_op:arith> <one:int>, ))")


def size_variant(name, body, env, what):
    h = match(SIZE_T, body, what)
    return ("(* %s *)\n"
            "Definition g_mr_%s (p : profile) (base size : Z) : outcome (option range) :=\n"
            "  if %s then Ret None\n"
            "  else match checked_add 64 %s %s with\n"
            "       | None => Ret None                              (* the `?` *)\n"
            "       | Some t => do e <- %s p 64 PANIC_G_MR_ARITH t %s;\n"
            "                   do r <- g_range_new %s e; Ret (Some r)\n"
            "       end.\n"
            % (what, name, cmp_(h["z_op"], opd(env, h["z_l"], what), h["z_c"]),
               opd(env, h["e_l"], what), opd(env, h["e_r"], what), ARITH[h["m_op"]], h["one"], opd(env, h["s"], what)))


ty = read("breakpad-symbols/src/sym_file/types.rs")
mdsrc = read("minidump/src/minidump.rs")
pa = read("breakpad-symbols/src/sym_file/parser.rs")
tr = read("minidump-common/src/traits.rs")

MR_SIG = r"(?:pub )?fn memory_range\(&self\) -> Option<Range<u64>> \{"
defs = []
sites = []      # (generated name, rust site) for the header comment


def mr_in_impl(src, impl_re, what):
    blk = impl_block(src, impl_re, what)
    return block_after(blk, MR_SIG, what)


for (nm, impl_re, env) in [
    ("Function", r"(?m)^impl Function \{", {"self.size": "size", "self.address": "base"}),
    ("StackInfoCfi", r"(?m)^impl StackInfoCfi \{", {"self.size": "size", "self.init.address": "base"}),
    ("StackInfoWin", r"(?m)^impl StackInfoWin \{", {"self.size": "size", "self.address": "base"}),
]:
    what = "%s::memory_range (breakpad-symbols/src/sym_file/types.rs)" % nm
    defs.append(size_variant(nm, mr_in_impl(ty, impl_re, what), env, what))
    sites.append(("g_mr_" + nm, what))

for (nm, impl_re, env) in [
    ("MinidumpModule", r"(?m)^impl MinidumpModule \{", {"self.size()": "size", "self.base_address()": "base"}),
    ("MinidumpUnloadedModule", r"(?m)^impl MinidumpUnloadedModule \{", {"self.size()": "size", "self.base_address()": "base"}),
    ("MinidumpMemoryBase", r"(?m)^impl<'a, Descriptor> MinidumpMemoryBase<'a, Descriptor> \{", {"self.size": "size", "self.base_address": "base"}),
    ("MinidumpMemoryInfo", r"(?m)^impl MinidumpMemoryInfo<'_> \{", {"self.raw.region_size": "size", "self.raw.base_address": "base"}),
]:
    what = "%s::memory_range (minidump/src/minidump.rs)" % nm
    defs.append(size_variant(nm, mr_in_impl(mdsrc, impl_re, what), env, what))
    sites.append(("g_mr_" + nm, what))

# the accessors the two module ranges are made of (u32 size widened, u64 base)
for nm in ("MinidumpModule", "MinidumpUnloadedModule"):
    what = "impl Module for %s (minidump.rs)" % nm
    blk = impl_block(mdsrc, r"(?m)^impl Module for %s \{" % nm, what)
    if block_after(blk, r"fn base_address\(&self\) -> u64 \{", what + " base_address") != "self.raw.base_of_image":
        die(what + ": base_address() is no longer self.raw.base_of_image")
    if block_after(blk, r"fn size\(&self\) -> u64 \{", what + " size") != "self.raw.size_of_image as u64":
        die(what + ": size() is no longer self.raw.size_of_image as u64")

# MinidumpLinuxMapInfo: the pair is already (start, end), inclusive
LM = "MinidumpLinuxMapInfo::memory_range (minidump.rs)"
lm = match("if <c_l:opd> <c_op:cmp> <c_r:opd> { return None; } Some(Range::new(<s:opd>, <e:opd>))",
           mr_in_impl(mdsrc, r"(?m)^impl MinidumpLinuxMapInfo<'_> \{", LM), LM)
E_LM = {"self.map.address.0": "lo", "self.map.address.1": "hi"}
defs.append("(* %s *)\n"
            "Definition g_mr_MinidumpLinuxMapInfo (lo hi : Z) : outcome (option range) :=\n"
            "  if %s then Ret None else do r <- g_range_new %s %s; Ret (Some r).\n"
            % (LM, cmp_(lm["c_op"], opd(E_LM, lm["c_l"], LM), opd(E_LM, lm["c_r"], LM)), opd(E_LM, lm["s"], LM), opd(E_LM, lm["e"], LM)))
sites.append(("g_mr_MinidumpLinuxMapInfo", LM))

# forwarding wrappers: nothing of their own
UM = "UnifiedMemory::memory_range (minidump.rs)"
if mr_in_impl(mdsrc, r"(?m)^impl<'a, 'mdmp> UnifiedMemory<'a, 'mdmp> \{", UM) != \
        "match self { UnifiedMemory::Memory(this) => this.memory_range(), UnifiedMemory::Memory64(this) => this.memory_range(), }":
    die(UM + ": no longer forwards to the wrapped region's memory_range()")
UMI = "UnifiedMemoryInfo (minidump.rs)"
umi = impl_block(mdsrc, r"(?m)^impl UnifiedMemoryInfo<'_> \{", UMI)
if not re.search(r"unified_memory_forward! \{[^}]*pub fn memory_range\(&self\) -> Option<Range<u64>>;", strip_comments(umi), re.S):
    die(UMI + ": memory_range is no longer forwarded by unified_memory_forward!")
fwd = strip_comments(mdsrc[mdsrc.index("macro_rules! unified_memory_forward"):][:1500])
if not re.search(r"match self \{\s*Self::Info\(info\) => info\.\$name\(\$\(\$param\),\*\),\s*Self::Map\(map\) => map\.\$name\(\$\(\$param\),\*\),?\s*\}",
                 fwd):
    die("unified_memory_forward!: no longer a plain forward to the Info / Map variant")

# ============================================================================ parser.rs: line records of a FUNC
FI = "SymbolParser::finish_item, Line::Function arm (parser.rs)"
fi_body = block_after(pa, r"fn finish_item\(&mut self, item: Line\) \{", FI)
m = re.match(r"match item \{ Line::Function\(mut cur, lines, mut inlinees\) => \{ (cur\.lines = .*?\.into_rangemap_safe\(\);)", fi_body)
if not m:
    die(FI + ": `cur.lines = ... .into_rangemap_safe();` not found at the start of the arm")
fi = match("cur.lines = lines .into_iter() .filter(|l| <f_l:opd> <f_op:cmp> <f_c:int>) .map(|l| { "
           "let end_address = <e_l:opd>.checked_add(<e_r:opd><e_cast:cast> <m_op:arith> <one:int>); "
           "let range = end_address.map(|end| Range::new(<s:opd>, end)); (range, l) }) .into_rangemap_safe();",
           m.group(1), FI)
E_FI = {"l.size": "size", "l.address": "base"}
defs.append("(* %s *)\n"
            "Definition g_line_keep (size : Z) : bool := %s.\n"
            "Definition g_mr_line (p : profile) (base size : Z) : outcome (option range) :=\n"
            "  do s1 <- %s p 64 PANIC_G_MR_ARITH %s %s;\n"
            "  match checked_add 64 %s s1 with\n"
            "  | None => Ret None\n"
            "  | Some e => do r <- g_range_new %s e; Ret (Some r)\n"
            "  end.\n"
            % (FI, cmp_(fi["f_op"], opd(E_FI, fi["f_l"], FI), fi["f_c"]), ARITH[fi["m_op"]], opd(E_FI, fi["e_r"], FI), fi["one"],
               opd(E_FI, fi["e_l"], FI), opd(E_FI, fi["s"], FI)))
sites.append(("g_line_keep, g_mr_line", FI))
rest = fi_body[m.end():]
for need, why in [("if let Some(range) = cur.memory_range() { self.functions.push((range, cur)); }", "FUNC records are filed under Function::memory_range()"),
                  ("if let Some(range) = cur.memory_range() { self.cfi_stack_info.push((range, cur)); }", "STACK CFI INIT records are filed under StackInfoCfi::memory_range()")]:
    if need not in rest:
        die(FI + ": " + why + " — not found")

FIN = "SymbolParser::finish (parser.rs)"
fin = block_after(pa, r"pub fn finish\(mut self\) -> SymbolFile \{", FIN)
for need in ("functions: into_rangemap_safe(self.functions),", "cfi_stack_info: into_rangemap_safe(self.cfi_stack_info),",
             "win_stack_framedata_info: into_rangemap_safe(self.win_stack_framedata_info),",
             "win_stack_fpo_info: into_rangemap_safe(self.win_stack_fpo_info),"):
    if need not in fin:
        die(FIN + ": `%s` not found" % need)

# ============================================================================ the two into_rangemap_safe copies
E_RS = {"range.start": "(fst r)", "range.end": "(snd r)", "last_range.start": "(fst lr)", "last_range.end": "(snd lr)"}
STEP = ("Definition g_merge_step_%(n)s {V : Type} (eqb : V -> V -> bool) (acc : list (range * V)) (rv : range * V) : list (range * V) :=\n"
        "  match acc with\n"
        "  | [] => [rv]\n"
        "  | (lr, lv) :: acc' =>\n"
        "      let '(r, v) := rv in\n"
        "      if %(a)s && negb (eqb v lv) then acc\n"
        "      else if (%(bop)s %(bl)s (sat_add 64 %(br)s %(bone)s)) && eqb v lv\n"
        "           then ((fst lr, Z.max %(ml)s %(mr)s), lv) :: acc'\n"
        "           else rv :: acc\n"
        "  end.\n")


def step(n, h, what):
    return STEP % dict(n=n, a=cmp_(h["a_op"], opd(E_RS, h["a_l"], what), opd(E_RS, h["a_r"], what)), bop=CMP[h["b_op"]],
                       bl=opd(E_RS, h["b_l"], what), br=opd(E_RS, h["b_r"], what), bone=h["b_one"],
                       ml=opd(E_RS, h["m_l"], what), mr=opd(E_RS, h["m_r"], what))


TS = "IntoRangeMapSafe::into_rangemap_safe (minidump-common/src/traits.rs)"
ts = match("let mut input: Vec<_> = self.into_iter().collect(); input.sort_by_key(|x| x.0); "
           "let mut vec: Vec<(Range<u64>, V)> = Vec::with_capacity(input.len()); "
           "for (range, val) in input.into_iter() { if range.is_none() { continue; } let range = range.unwrap(); "
           "if let Some(&mut (ref mut last_range, ref last_val)) = vec.last_mut() { "
           "if <a_l:opd> <a_op:cmp> <a_r:opd> && &val != last_val { continue; } "
           "if <b_l:opd> <b_op:cmp> <b_r:opd>.saturating_add(<b_one:int>) && &val == last_val { "
           "last_range.end = cmp::max(<m_l:opd>, <m_r:opd>); continue; } } vec.push((range, val)); } "
           "RangeMap::try_from_iter(vec).unwrap()",
           block_after(tr, r"fn into_rangemap_safe\(self\) -> RangeMap<u64, V> \{", TS), TS)
if not re.search(r"pub trait IntoRangeMapSafe<V>: IntoIterator<Item = \(Option<Range<u64>>, V\)> \+ Sized", tr):
    die(TS + ": the trait is no longer over (Option<Range<u64>>, V) items")
defs.append("(* %s: one iteration of the loop (after the skip of range-less entries) *)\n" % TS + step("traits", ts, TS) +
            "(* the whole function: stable sort by the first component (None < Some, then (start, end)), skip None, the loop,\n"
            "   RangeMap::try_from_iter(vec).unwrap() *)\n"
            "Definition g_build_traits {V : Type} (eqb : V -> V -> bool) (l : list (option range * V)) : outcome (list (range * V)) :=\n"
            "  rm_try_from_iter eqb (rev (fold_left (g_merge_step_traits eqb) (drop_none (sort_stable okey_lt l)) [])).\n")
sites.append(("g_merge_step_traits, g_build_traits", TS))

RS = "parser-local into_rangemap_safe (breakpad-symbols/src/sym_file/parser.rs)"
rs = match("input.sort_by_key(|x| x.0); let mut vec: Vec<(Range<u64>, V)> = Vec::with_capacity(input.len()); "
           "for (range, val) in input { if let Some((last_range, last_val)) = vec.last_mut() { "
           "if <a_l:opd> <a_op:cmp> <a_r:opd> && val != *last_val { continue; } "
           "if <b_l:opd> <b_op:cmp> <b_r:opd>.saturating_add(<b_one:int>) && &val == last_val { "
           "last_range.end = std::cmp::max(<m_l:opd>, <m_r:opd>); continue; } } vec.push((range, val)); } "
           "RangeMap::try_from_iter(vec).unwrap()",
           block_after(pa, r"fn into_rangemap_safe<V: Clone \+ Eq \+ Debug>\(mut input: Vec<\(Range<u64>, V\)>\) -> RangeMap<u64, V> \{", RS), RS)
defs.append("(* %s *)\n" % RS + step("parser", rs, RS) +
            "Definition g_build_parser {V : Type} (eqb : V -> V -> bool) (l : list (range * V)) : outcome (list (range * V)) :=\n"
            "  rm_try_from_iter eqb (rev (fold_left (g_merge_step_parser eqb) (sort_stable range_lt l) [])).\n")
sites.append(("g_merge_step_parser, g_build_parser", RS))

# ============================================================================ insert_win_stack_info
WI = "insert_win_stack_info (parser.rs)"
wi = match("if let Some(memory_range) = info.memory_range() { if let Some((last_range, last_info)) = stack_win.last_mut() { "
           "if last_range.intersects(&memory_range) { if <c_l:opd> <c_op:cmp> <c_r:opd> { "
           "last_info.size = (<s_l:opd> <s_op:arith> <s_r:opd>) as u32; *last_range = last_info.memory_range().unwrap(); } "
           "else if *last_range != memory_range { warn!( \"STACK WIN entry had bad intersections, dropping it {:?}\", info ); return; } } } "
           "stack_win.push((memory_range, info)); } else { warn!(\"STACK WIN entry had invalid range, dropping it {:?}\", info); }",
           block_after(pa, r"fn insert_win_stack_info\(", WI), WI)
E_WI = {"info.address": "(wa w)", "last_info.address": "(wa lw)", "info.size": "(ws w)", "last_info.size": "(ws lw)"}
if not re.search(r"match frame_type \{\s*WinFrameType::FrameData\(s\) => \{\s*insert_win_stack_info\(&mut self\.win_stack_framedata_info, s\);\s*\}"
                 r"\s*WinFrameType::Fpo\(s\) => \{\s*insert_win_stack_info\(&mut self\.win_stack_fpo_info, s\);\s*\}\s*_ => \{\}", strip_comments(pa[pa.index("fn insert_win_stack_info("):][:6000])):
    die("parser.rs: STACK WIN records are no longer filed FrameData -> win_stack_framedata_info, Fpo -> win_stack_fpo_info, others ignored")
defs.append("(* %s; the record's range is StackInfoWin::memory_range (g_mr_StackInfoWin, proved = win_range) *)\n" % WI +
            "Definition g_insert_win (p : profile) (acc : list (range * winrec)) (w : winrec) : outcome (list (range * winrec)) :=\n"
            "  match win_range w with\n"
            "  | None => Ret acc\n"
            "  | Some mr =>\n"
            "      match acc with\n"
            "      | (lr, lw) :: rest =>\n"
            "          if intersects lr mr then\n"
            "            if %s then\n"
            "              do d <- %s p 64 PANIC_WIN_SUB %s %s;\n"
            "              let lw' := set_size lw (wrap32 d) in\n"
            "              match win_range lw' with\n"
            "              | Some lr' => Ret ((mr, w) :: (lr', lw') :: rest)\n"
            "              | None => Panic PANIC_WIN_UNWRAP\n"
            "              end\n"
            "            else if negb (range_eqb lr mr) then Ret acc\n"
            "            else Ret ((mr, w) :: acc)\n"
            "          else Ret ((mr, w) :: acc)\n"
            "      | [] => Ret [(mr, w)]\n"
            "      end\n"
            "  end.\n"
            % (cmp_(wi["c_op"], opd(E_WI, wi["c_l"], WI), opd(E_WI, wi["c_r"], WI)), ARITH[wi["s_op"]],
               opd(E_WI, wi["s_l"], WI), opd(E_WI, wi["s_r"], WI)))
sites.append(("g_insert_win", WI))

# ============================================================================ index-valued builders, lookups, by_addr
BUILD_T = "let <f:opd> = <v:opd> .iter() .enumerate() .map(|(i, <x:opd>)| (<x2:opd>.memory_range(), i)) .into_rangemap_safe(); <ty:opd> { <v2:opd>, <f2:opd>, }"
builders = [
    ("MinidumpModuleList", r"pub fn from_modules\(modules: Vec<MinidumpModule>\) -> MinidumpModuleList \{", "modules", "modules_by_addr"),
    ("MinidumpMemoryListBase", r"pub fn from_regions\(\s*regions: Vec<MinidumpMemoryBase<'mdmp, Descriptor>>,\s*\) -> MinidumpMemoryListBase<'mdmp, Descriptor> \{", "regions", "regions_by_addr"),
    ("MinidumpMemoryInfoList", r"pub fn from_regions\(regions: Vec<MinidumpMemoryInfo<'mdmp>>\) -> MinidumpMemoryInfoList<'mdmp> \{", "regions", "regions_by_addr"),
    ("MinidumpLinuxMaps", r"pub fn from_regions\(regions: Vec<MinidumpLinuxMapInfo<'mdmp>>\) -> Self \{", "regions", "regions_by_addr"),
]
for (nm, sig, vec, fld) in builders:
    what = "%s builder (minidump.rs)" % nm
    h = match(BUILD_T, block_after(mdsrc, sig, what), what)
    if not (h["f"] == h["f2"] == fld and h["v"] == h["v2"] == vec and h["x"] == h["x2"]):
        die(what + ": the table is no longer built from (entry.memory_range(), index) over the stored vector")
    sites.append(("g_build_indexed", what))

# *_at_address / by_addr of the four index-valued lists: the shape of each body selects a generated definition
#   .get(address).map(|&index| &self.V[index])           -> g_lookup_index   (`[index]` is a panic site)
#   .get(address).and_then(|&index| self.V.get(index))    -> g_lookup_get     (out of bounds = None)
#   .ranges_values().map(move |&(_, index)| &self.V[index]) -> g_iter_index   (`[index]` is a panic site)
LOOKUP_SHAPES = [
    ("g_lookup_index", "self.<t:ident> .get(address) .map(|&index| &self.<v:ident>[index])"),
    ("g_lookup_get", "self.<t:ident> .get(address) .and_then(|&index| self.<v:ident>.get(index))"),
    ("g_iter_index", "self.<t:ident> .ranges_values() .map(move |&(_, index)| &self.<v:ident>[index])"),
]
LOOKUPS = [
    ("g_MinidumpModuleList_module_at_address", "MinidumpModuleList::module_at_address", r"pub fn module_at_address\(&self, address: u64\) -> Option<&MinidumpModule> \{", "modules", ("g_lookup_index", "g_lookup_get")),
    ("g_MinidumpMemoryListBase_memory_at_address", "MinidumpMemoryListBase::memory_at_address", r"pub fn memory_at_address\(\s*&self,\s*address: u64,\s*\) -> Option<&MinidumpMemoryBase<'mdmp, Descriptor>> \{", "regions", ("g_lookup_index", "g_lookup_get")),
    ("g_MinidumpMemoryInfoList_memory_info_at_address", "MinidumpMemoryInfoList::memory_info_at_address", r"pub fn memory_info_at_address\(&self, address: u64\) -> Option<&MinidumpMemoryInfo<'mdmp>> \{", "regions", ("g_lookup_index", "g_lookup_get")),
    ("g_MinidumpLinuxMaps_memory_info_at_address", "MinidumpLinuxMaps::memory_info_at_address", r"pub fn memory_info_at_address\(&self, address: u64\) -> Option<&MinidumpLinuxMapInfo<'mdmp>> \{", "regions", ("g_lookup_index", "g_lookup_get")),
    ("g_MinidumpModuleList_by_addr", "MinidumpModuleList::by_addr", r"pub fn by_addr\(&self\) -> impl DoubleEndedIterator<Item = &MinidumpModule> \{", "modules", ("g_iter_index",)),
    ("g_MinidumpMemoryListBase_by_addr", "MinidumpMemoryListBase::by_addr", r"pub fn by_addr<'slf>\(\s*&'slf self,\s*\) -> impl Iterator<Item = &'slf MinidumpMemoryBase<'mdmp, Descriptor>> \{", "regions", ("g_iter_index",)),
    ("g_MinidumpMemoryInfoList_by_addr", "MinidumpMemoryInfoList::by_addr", r"pub fn by_addr<'slf>\(&'slf self\) -> impl Iterator<Item = &'slf MinidumpMemoryInfo<'mdmp>> \{", "regions", ("g_iter_index",)),
    ("g_MinidumpLinuxMaps_by_addr", "MinidumpLinuxMaps::by_addr", r"pub fn by_addr<'slf>\(&'slf self\) -> impl Iterator<Item = &'slf MinidumpLinuxMapInfo<'mdmp>> \{", "regions", ("g_iter_index",)),
]
lk = ["Definition PANIC_G_INDEX : Z := 833.      (* `&self.vector[index]` out of bounds *)\n"
      "Definition g_idx {A : Type} (v : list A) (i : Z) : outcome A :=\n"
      "  match nth_error v (Z.to_nat i) with Some a => Ret a | None => Panic PANIC_G_INDEX end.\n"
      "Definition g_lookup_index {A : Type} (v : list A) (tbl : list (range * Z)) (address : Z) : outcome (option A) :=\n"
      "  match rm_get tbl address with None => Ret None | Some i => do a <- g_idx v i; Ret (Some a) end.\n"
      "Definition g_lookup_get {A : Type} (v : list A) (tbl : list (range * Z)) (address : Z) : outcome (option A) :=\n"
      "  match rm_get tbl address with None => Ret None | Some i => Ret (nth_error v (Z.to_nat i)) end.\n"
      "Fixpoint g_iter_index {A : Type} (v : list A) (tbl : list (range * Z)) : outcome (list A) :=\n"
      "  match tbl with [] => Ret [] | e :: t => do a <- g_idx v (snd e); do r <- g_iter_index v t; Ret (a :: r) end.\n"]
for (gname, nm, sig, vec, allowed) in LOOKUPS:
    got = block_after(mdsrc, sig, nm)
    hit = None
    for (shape, tmpl) in LOOKUP_SHAPES:
        parts = re.split(r"(<[a-z0-9_]+:[a-z]+>)", tmpl)
        rx = "".join("(?P<%s>%s)" % (re.fullmatch(r"<([a-z0-9_]+):([a-z]+)>", q).group(1), KIND["ident"]) if q.startswith("<") else re.escape(q) for q in parts)
        m = re.fullmatch(rx, got)
        if m:
            hit = (shape, m.groupdict())
            break
    if not hit or hit[0] not in allowed:
        die("%s (minidump.rs) is no longer a lookup / iteration of the by-address table followed by the index into the stored vector:\n"
            "  source  : %s" % (nm, got))
    if hit[1]["t"] != vec + "_by_addr" or hit[1]["v"] != vec:
        die("%s (minidump.rs): table `%s` / vector `%s` are not the ones its builder fills (%s_by_addr / %s)" % (nm, hit[1]["t"], hit[1]["v"], vec, vec))
    lk.append("(* %s (minidump.rs) *)\nDefinition %s {A : Type} := @%s A.\n" % (nm, gname, hit[0]))
defs.append("".join(lk))
sites.append(("g_<List>_<lookup>, g_<List>_by_addr", "the *_at_address / by_addr of the four index-valued lists (minidump.rs): shape -> g_lookup_index / g_lookup_get / g_iter_index"))

# ============================================================================ the Unified* views (forwarding enums)
# A wrapped list is (by-address table, number of stored entries).  The method each arm calls is translated through this
# table; the variant <-> wrapper pairing and the order of the two halves of by_addr are read from the source.
U_METHOD = {"memory_at_address": "g_lst_get", "memory_info_at_address": "g_lst_get", "by_addr": "g_lst_by_addr", "iter": "g_lst_iter"}
U_LIST = {"Memory": "GUML_Memory", "Memory64": "GUML_Memory64", "Info": "GUMIL_Info", "Maps": "GUMIL_Maps"}
U_ITEM = {"UnifiedMemory::Memory": "GUM_Memory", "UnifiedMemory::Memory64": "GUM_Memory64",
          "UnifiedMemoryInfo::Info": "GUMI_Info", "UnifiedMemoryInfo::Map": "GUMI_Map"}


def um(tbl, k, what):
    if k not in tbl:
        die("%s: `%s` is not a name the translator knows here (known: %s)" % (what, k, ", ".join(sorted(tbl))))
    return tbl[k]


UL1 = "UnifiedMemoryList::memory_at_address (minidump.rs)"
u1 = match("match self { UnifiedMemoryList::<v1:ident>(this) => { this.<m1:ident>(address).map(UnifiedMemory::<w1:ident>) } "
           "UnifiedMemoryList::<v2:ident>(this) => { this.<m2:ident>(address).map(UnifiedMemory::<w2:ident>) } }",
           block_after(mdsrc, r"pub fn memory_at_address<'slf>\(&'slf self, address: u64\) -> Option<UnifiedMemory<'slf, 'mdmp>> \{", UL1), UL1)
UL2 = "UnifiedMemoryList::by_addr (minidump.rs)"
u2 = match("let iter1 = if let UnifiedMemoryList::<v1:ident>(this) = self { Some(this.<m1:ident>().map(UnifiedMemory::<w1:ident>)) } else { None }; "
           "let iter2 = if let UnifiedMemoryList::<v2:ident>(this) = self { Some(this.<m2:ident>().map(UnifiedMemory::<w2:ident>)) } else { None }; "
           "iter1 .into_iter() .flatten() .chain(iter2.into_iter().flatten())",
           block_after(mdsrc, r"pub fn by_addr<'slf>\(&'slf self\) -> impl Iterator<Item = UnifiedMemory<'slf, 'mdmp>> \{", UL2), UL2)
UI1 = "UnifiedMemoryInfoList::memory_info_at_address (minidump.rs)"
u3 = match("match self { Self::<v1:ident>(info) => info .<m1:ident>(address) .map(UnifiedMemoryInfo::<w1:ident>), "
           "Self::<v2:ident>(maps) => maps .<m2:ident>(address) .map(UnifiedMemoryInfo::<w2:ident>), }",
           block_after(mdsrc, r"pub fn memory_info_at_address\(&self, address: u64\) -> Option<UnifiedMemoryInfo> \{", UI1), UI1)
UI2 = "UnifiedMemoryInfoList::by_addr (minidump.rs)"
u4 = match("let info = self .<a1:ident>() .into_iter() .flat_map(|info| info.<m1:ident>().map(UnifiedMemoryInfo::<w1:ident>)); "
           "let maps = self .<a2:ident>() .into_iter() .flat_map(|maps| maps.<m2:ident>().map(UnifiedMemoryInfo::<w2:ident>)); info.chain(maps)",
           block_after(mdsrc, r"pub fn by_addr\(&self\) -> impl Iterator<Item = UnifiedMemoryInfo> \{", UI2), UI2)
# the accessors by_addr goes through: which variant each one exposes
ACC = {}
for acc, ty in (("maps", "MinidumpLinuxMaps"), ("info", "MinidumpMemoryInfoList")):
    what = "UnifiedMemoryInfoList::%s (minidump.rs)" % acc
    h = match("match &self { Self::<v1:ident>(<b1:ident>) => <r1:ident>, Self::<v2:ident>(<b2:ident>) => <r2:ident>, }",
              re.sub(r"Some\((\w+)\)", r"Some_\1", block_after(mdsrc, r"pub fn %s\(&self\) -> Option<&%s<'a>> \{" % (acc, ty), what)), what)
    some = [h["v%d" % i] for i in (1, 2) if h["r%d" % i] == "Some_" + h["b%d" % i]]
    none = [h["v%d" % i] for i in (1, 2) if h["r%d" % i] == "None"]
    if len(some) != 1 or len(none) != 1:
        die(what + ": not `Some(inner)` for one variant and `None` for the other")
    ACC[acc] = some[0]
UN = "UnifiedMemoryInfoList::new (minidump.rs)"
un = match("match (info, maps) { (Some(info), Some(_maps)) => { warn!(\"UnifiedMemoryInfoList got both kinds of info! (using InfoList)\"); "
           "Some(Self::<b:ident>(<bx:ident>)) } (Some(info), None) => Some(Self::<i:ident>(<ix:ident>)), "
           "(None, Some(maps)) => Some(Self::<m:ident>(<mx:ident>)), (None, None) => None, }",
           block_after(mdsrc, r"pub fn new\(\s*info: Option<MinidumpMemoryInfoList<'a>>,\s*maps: Option<MinidumpLinuxMaps<'a>>,\s*\) -> Option<Self> \{", UN), UN)
for k in ("bx", "ix", "mx"):
    un[k] = un[k].lstrip("_")          # `_maps` is the same binding, marked unused
    if un[k] not in ("info", "maps"):
        die(UN + ": unknown binding " + un[k])
if not re.search(r"pub enum UnifiedMemoryList<'a> \{\s*Memory\(MinidumpMemoryList<'a>\),\s*Memory64\(MinidumpMemory64List<'a>\),\s*\}", strip_comments(mdsrc)):
    die("UnifiedMemoryList is no longer { Memory(MinidumpMemoryList), Memory64(MinidumpMemory64List) }")
if not re.search(r"pub enum UnifiedMemoryInfoList<'a> \{\s*Maps\(MinidumpLinuxMaps<'a>\),\s*Info\(MinidumpMemoryInfoList<'a>\),\s*\}", strip_comments(mdsrc)):
    die("UnifiedMemoryInfoList is no longer { Maps(MinidumpLinuxMaps), Info(MinidumpMemoryInfoList) }")


def arm(lst, item, meth, arg, what):
    return "%s this => %s %s (%s this%s)" % (um(U_LIST, lst, what), "option_map" if arg else "map",
                                           um(U_ITEM, item, what), um(U_METHOD, meth, what), arg)


def half(lst, item, meth, what):
    return "(match l with %s this => map %s (%s this) | _ => [] end)" % (um(U_LIST, lst, what), um(U_ITEM, item, what), um(U_METHOD, meth, what))


defs.append(
    "(* the Unified* views: a wrapped list is (by-address table, number of stored entries); items carry the index *)\n"
    "Definition g_lst : Type := (list (range * Z) * Z)%%type.\n"
    "Definition g_lst_get (l : g_lst) (x : Z) : option Z := rm_get (fst l) x.         (* *_at_address of the wrapped list *)\n"
    "Definition g_lst_by_addr (l : g_lst) : list Z := map snd (fst l).                 (* by_addr of the wrapped list *)\n"
    "Definition g_lst_iter (l : g_lst) : list Z := map Z.of_nat (seq 0 (Z.to_nat (snd l))).   (* iter: stored order *)\n"
    "Inductive g_uml := GUML_Memory (t : g_lst) | GUML_Memory64 (t : g_lst).\n"
    "Inductive g_um := GUM_Memory (i : Z) | GUM_Memory64 (i : Z).\n"
    "Inductive g_umil := GUMIL_Maps (t : g_lst) | GUMIL_Info (t : g_lst).\n"
    "Inductive g_umi := GUMI_Info (i : Z) | GUMI_Map (i : Z).\n"
    "(* %s *)\n"
    "Definition g_uml_memory_at_address (l : g_uml) (address : Z) : option g_um :=\n"
    "  match l with\n  | %s\n  | %s\n  end.\n"
    "(* %s *)\n"
    "Definition g_uml_by_addr (l : g_uml) : list g_um :=\n  %s ++\n  %s.\n"
    "(* %s *)\n"
    "Definition g_umil_memory_info_at_address (l : g_umil) (address : Z) : option g_umi :=\n"
    "  match l with\n  | %s\n  | %s\n  end.\n"
    "(* %s, through the accessors %s() = the %s variant, %s() = the %s variant *)\n"
    "Definition g_umil_by_addr (l : g_umil) : list g_umi :=\n  %s ++\n  %s.\n"
    "(* %s *)\n"
    "Definition g_umil_new (info maps : option g_lst) : option g_umil :=\n"
    "  match info, maps with\n  | Some info, Some maps => Some (%s %s)\n  | Some info, None => Some (%s %s)\n"
    "  | None, Some maps => Some (%s %s)\n  | None, None => None\n  end.\n"
    % (UL1, arm(u1["v1"], "UnifiedMemory::" + u1["w1"], u1["m1"], " address", UL1), arm(u1["v2"], "UnifiedMemory::" + u1["w2"], u1["m2"], " address", UL1),
       UL2, half(u2["v1"], "UnifiedMemory::" + u2["w1"], u2["m1"], UL2), half(u2["v2"], "UnifiedMemory::" + u2["w2"], u2["m2"], UL2),
       UI1, arm(u3["v1"], "UnifiedMemoryInfo::" + u3["w1"], u3["m1"], " address", UI1), arm(u3["v2"], "UnifiedMemoryInfo::" + u3["w2"], u3["m2"], " address", UI1),
       UI2, u4["a1"], um(ACC, u4["a1"], UI2), u4["a2"], um(ACC, u4["a2"], UI2),
       half(um(ACC, u4["a1"], UI2), "UnifiedMemoryInfo::" + u4["w1"], u4["m1"], UI2), half(um(ACC, u4["a2"], UI2), "UnifiedMemoryInfo::" + u4["w2"], u4["m2"], UI2),
       UN, um(U_LIST, un["b"], UN), un["bx"], um(U_LIST, un["i"], UN), un["ix"], um(U_LIST, un["m"], UN), un["mx"]))
sites.append(("g_uml_*, g_umil_*", "UnifiedMemoryList / UnifiedMemoryInfoList ::{memory(_info)_at_address, by_addr, new, info, maps} (minidump.rs)"))

# MinidumpModuleList::read: the read-time filter in front of from_modules
MR_ = "MinidumpModuleList::read (minidump.rs)"
mlr = match("let mut offset = 0; let raw_modules: Vec<md::MINIDUMP_MODULE> = read_stream_list(&mut offset, bytes, endian)?; "
            "let mut modules = Vec::with_capacity(raw_modules.len()); "
            "for (module_index, raw) in raw_modules.into_iter().enumerate() { "
            "if <z_l:opd> <z_op:cmp> <z_c:int> || <o_l:opd> as u64 <o_op:cmp> (u64::MAX <s_op:arith> <o_r:opd>) { "
            "tracing::warn!( module_index, base = raw.base_of_image, size = raw.size_of_image, \"bad module image size\" ); continue; } "
            "modules.push(MinidumpModule::read(raw, all, endian, system_info)?); } "
            "Ok(MinidumpModuleList::from_modules(modules))",
            block_after(mdsrc, r"fn read\(\s*bytes: &'a \[u8\],\s*all: &'a \[u8\],\s*endian: scroll::Endian,\s*system_info: Option<&MinidumpSystemInfo>,\s*\) -> Result<MinidumpModuleList, Error> \{", MR_), MR_)
E_MLR = {"raw.size_of_image": "size", "raw.base_of_image": "base"}
defs.append("(* %s: true = the raw module is skipped *)\n"
            "Definition g_module_read_drop (p : profile) (base size : Z) : outcome bool :=\n"
            "  if %s then Ret true\n"
            "  else do t <- %s p 64 PANIC_G_MR_ARITH U64MAX %s; Ret %s.\n"
            % (MR_, cmp_(mlr["z_op"], opd(E_MLR, mlr["z_l"], MR_), mlr["z_c"]), ARITH[mlr["s_op"]], opd(E_MLR, mlr["o_r"], MR_),
               cmp_(mlr["o_op"], opd(E_MLR, mlr["o_l"], MR_), "t")))
sites.append(("g_module_read_drop", MR_))

# MinidumpUnloadedModuleList::read: one bad raw module rejects the whole stream (Err), the rest go to from_modules
UR_ = "MinidumpUnloadedModuleList::read (minidump.rs)"
ulr = match("let mut offset = 0; let raw_modules: Vec<md::MINIDUMP_UNLOADED_MODULE> = read_ex_stream_list(&mut offset, bytes, endian)?; "
            "let mut modules = Vec::with_capacity(raw_modules.len()); "
            "for raw in raw_modules.into_iter() { "
            "if <z_l:opd> <z_op:cmp> <z_c:int> || <o_l:opd> as u64 <o_op:cmp> (u64::MAX <s_op:arith> <o_r:opd>) { "
            "return Err(Error::ModuleReadFailure); } "
            "modules.push(MinidumpUnloadedModule::read(raw, all, endian)?); } "
            "Ok(MinidumpUnloadedModuleList::from_modules(modules))",
            block_after(mdsrc, r"fn read\(\s*bytes: &'a \[u8\],\s*all: &'a \[u8\],\s*endian: scroll::Endian,\s*_system_info: Option<&MinidumpSystemInfo>,\s*\) -> Result<MinidumpUnloadedModuleList, Error> \{", UR_), UR_)
defs.append("(* %s: true = the raw module makes read return Err(ModuleReadFailure) *)\n"
            "Definition g_unloaded_read_bad (p : profile) (base size : Z) : outcome bool :=\n"
            "  if %s then Ret true\n"
            "  else do t <- %s p 64 PANIC_G_MR_ARITH U64MAX %s; Ret %s.\n"
            % (UR_, cmp_(ulr["z_op"], opd(E_MLR, ulr["z_l"], UR_), ulr["z_c"]), ARITH[ulr["s_op"]], opd(E_MLR, ulr["o_r"], UR_),
               cmp_(ulr["o_op"], opd(E_MLR, ulr["o_l"], UR_), "t")))
sites.append(("g_unloaded_read_bad", UR_))

# ============================================================================ memory lists read from stream bytes
# MinidumpMemory::read: the null-RVA / empty guard, location_slice, and which raw fields become (base_address, size)
MM = "MinidumpMemory::read (minidump.rs)"
mm = match("if <a_l:opd> <a_op:cmp> <a_c:int> || <b_l:opd> <b_op:cmp> <b_c:int> { return Err(Error::MemoryReadFailure); } "
           "let bytes = location_slice(data, &desc.memory).or(Err(Error::StreamReadFailure))?; "
           "Ok(MinidumpMemory { desc: *desc, base_address: <f_b:opd>, size: <f_s:opd> as u64, bytes, endian, })",
           block_after(mdsrc, r"pub fn read\(\s*desc: &md::MINIDUMP_MEMORY_DESCRIPTOR,\s*data: &'a \[u8\],\s*endian: scroll::Endian,\s*\) -> Result<MinidumpMemory<'a>, Error> \{", MM), MM)
E_MM = {"desc.memory.rva": "rva", "desc.memory.data_size": "size", "desc.start_of_memory_range": "base"}
LS = "location_slice (minidump.rs)"
ls = match("let start = <s:opd> as usize; start .checked_add(<z:opd> as usize) .and_then(|end| bytes.get(start..end)) .ok_or(Error::StreamReadFailure)",
           block_after(mdsrc, r"fn location_slice<'a>\(\s*bytes: &'a \[u8\],\s*loc: &md::MINIDUMP_LOCATION_DESCRIPTOR,\s*\) -> Result<&'a \[u8\], Error> \{", LS), LS)
E_LS = {"loc.rva": "rva", "loc.data_size": "size"}
MLR = "MinidumpMemoryList::read (minidump.rs)"
if block_after(mdsrc, r"fn read\(\s*bytes: &'a \[u8\],\s*all: &'a \[u8\],\s*endian: scroll::Endian,\s*_system_info: Option<&MinidumpSystemInfo>,\s*\) -> Result<MinidumpMemoryList<'a>, Error> \{", MLR) != \
        ("let mut offset = 0; let descriptors: Vec<md::MINIDUMP_MEMORY_DESCRIPTOR> = read_stream_list(&mut offset, bytes, endian)?; "
         "let mut regions = Vec::with_capacity(descriptors.len()); for raw in descriptors.into_iter() { "
         "if let Ok(memory) = MinidumpMemory::read(&raw, all, endian) { regions.push(memory); } else { continue; } } "
         "Ok(MinidumpMemoryList::from_regions(regions))"):
    die(MLR + ": no longer `push the regions MinidumpMemory::read accepts, skip the others, from_regions`")
M64 = "MinidumpMemory64List::read (minidump.rs)"
m64body = block_after(mdsrc, r"fn read\(\s*bytes: &'a \[u8\],\s*all: &'a \[u8\],\s*endian: scroll::Endian,\s*_system_info: Option<&MinidumpSystemInfo>,\s*\) -> Result<MinidumpMemory64List<'a>, Error> \{", M64)
m64i = m64body.find("let mut regions = Vec::with_capacity(raw_entries.len());")
if m64i < 0 or "let mut rva: u64 = bytes .gread_with(&mut offset, endian) .or(Err(Error::StreamReadFailure))?;" not in m64body[:m64i]:
    die(M64 + ": the base rva / region loop were not found")
m64 = match("let mut regions = Vec::with_capacity(raw_entries.len()); for raw in raw_entries { let start = rva; "
            "let end = rva .checked_add(<z:opd>) .ok_or(Error::StreamReadFailure)?; "
            "let bytes = all .get(start as usize..end as usize) .ok_or(Error::StreamReadFailure)?; "
            "regions.push(MinidumpMemory64 { desc: raw, base_address: <f_b:opd>, size: <f_s:opd>, bytes, endian, }); rva = end; } "
            "Ok(MinidumpMemory64List::from_regions(regions))", m64body[m64i:], M64)
E_M64 = {"raw.data_size": "size", "raw.start_of_memory_range": "base"}
defs.append("(* %s: true = Err, the list reader skips the descriptor *)\n"
            "Definition g_memory_read_null (rva size : Z) : bool := %s || %s.\n"
            "(* %s: Some slice <-> start + size does not overflow usize and start <= end <= bytes.len() *)\n"
            "Definition g_location_slice_ok (len rva size : Z) : bool :=\n"
            "  match checked_add 64 %s %s with Some e => (Z.leb %s e) && (Z.leb e len) | None => false end.\n"
            "(* %s: the region kept for a raw descriptor (start_of_memory_range, data_size, rva): (base_address, size) *)\n"
            "Definition g_memory_read (len base size rva : Z) : option (Z * Z) :=\n"
            "  if g_memory_read_null rva size then None\n"
            "  else if g_location_slice_ok len rva size then Some (%s, %s) else None.\n"
            "(* %s: one region; None = Err for the whole stream, Some (next rva, (base_address, size)) *)\n"
            "Definition g_mem64_step (len rva base size : Z) : option (Z * (Z * Z)) :=\n"
            "  match checked_add 64 rva %s with\n"
            "  | None => None\n"
            "  | Some e => if (Z.leb rva e) && (Z.leb e len) then Some (e, (%s, %s)) else None\n"
            "  end.\n"
            % (MM, cmp_(mm["a_op"], opd(E_MM, mm["a_l"], MM), mm["a_c"]), cmp_(mm["b_op"], opd(E_MM, mm["b_l"], MM), mm["b_c"]),
               LS, opd(E_LS, ls["s"], LS), opd(E_LS, ls["z"], LS), opd(E_LS, ls["s"], LS),
               MM, opd(E_MM, mm["f_b"], MM), opd(E_MM, mm["f_s"], MM),
               M64, opd(E_M64, m64["z"], M64), opd(E_M64, m64["f_b"], M64), opd(E_M64, m64["f_s"], M64)))
sites.append(("g_memory_read*, g_location_slice_ok", MM + ", " + LS + ", " + MLR))
sites.append(("g_mem64_step", M64))

# unloaded modules: sorted vector + filter(contains)
UB = "MinidumpUnloadedModuleList::from_modules (minidump.rs)"
ub = block_after(mdsrc, r"pub fn from_modules\(modules: Vec<MinidumpUnloadedModule>\) -> MinidumpUnloadedModuleList \{", UB)
if ub != ("let mut modules_by_addr = (0..modules.len()) .filter_map(|i| modules[i].memory_range().map(|r| (r, i))) .collect::<Vec<_>>(); "
          "modules_by_addr.sort_by_key(|(range, _idx)| *range); MinidumpUnloadedModuleList { modules, modules_by_addr, }"):
    die(UB + ": no longer filter_map(memory_range) + sort_by_key(range):\n  source: " + ub)
UA = "MinidumpUnloadedModuleList::modules_at_address (minidump.rs)"
ua = block_after(mdsrc, r"pub fn modules_at_address\(\s*&self,\s*address: u64,\s*\) -> impl Iterator<Item = &MinidumpUnloadedModule> \{", UA)
if ua != "self.modules_by_addr .iter() .filter(move |(range, _idx)| range.contains(address)) .map(move |(_range, idx)| &self.modules[*idx])":
    die(UA + ": no longer iter().filter(range.contains(address)).map(index):\n  source: " + ua)
UBA = "MinidumpUnloadedModuleList::by_addr (minidump.rs)"
if block_after(mdsrc, r"pub fn by_addr\(&self\) -> impl Iterator<Item = &MinidumpUnloadedModule> \{", UBA) != \
        "self.modules_by_addr .iter() .map(move |&(_, index)| &self.modules[index])":
    die(UBA + ": no longer the sorted vector in order")

# ============================================================================ the range-map crate (third party, version from Cargo.lock)
import glob
lock = read("Cargo.lock")
mv = re.search(r'name = "range-map"\nversion = "([0-9.]+)"', lock)
if not mv:
    die("Cargo.lock: range-map not found")
cargo_home = os.environ.get("CARGO_HOME") or os.path.expanduser("~/.cargo")
cands = sorted(glob.glob(os.path.join(cargo_home, "registry", "src", "*", "range-map-" + mv.group(1), "src", "lib.rs")))
if not cands:
    die("range-map %s: source not found under %s/registry/src" % (mv.group(1), cargo_home))
rmsrc = open(cands[0]).read()
RMN = "range-map %s " % mv.group(1)
if not re.search(r"#\[derive\(Copy, Clone, Hash, PartialEq, PartialOrd, Eq, Ord\)\]\s*pub struct Range<T> \{\s*pub start: T,\s*pub end: T,\s*\}", rmsrc):
    die(RMN + "Range<T> is no longer {start, end} with derived (lexicographic) Ord")
E_RM = {"start": "s", "end": "e", "self.start": "(fst r)", "self.end": "(snd r)", "other.start": "(fst o)", "other.end": "(snd o)", "x": "x"}
RN = RMN + "Range::new"
rn = match("if <l:opd> <op:cmp> <r:opd> { panic!(\"Ranges must be ordered\"); } Range { start: start, end: end, }",
           block_after(rmsrc, r"pub fn new\(start: T, end: T\) -> Range<T> \{", RN), RN)
RC = RMN + "Range::contains"
rc = match("<a_l:opd> <a_op:cmp> <a_r:opd> && <b_l:opd> <b_op:cmp> <b_r:opd>",
           block_after(rmsrc, r"pub fn contains\(&self, x: T\) -> bool \{", RC), RC)
RI = RMN + "Range::intersects"
ri = match("<a_l:opd> <a_op:cmp> <a_r:opd> && <b_l:opd> <b_op:cmp> <b_r:opd>",
           block_after(rmsrc, r"pub fn intersects\(&self, other: &Self\) -> bool \{", RI), RI)
RP = RMN + "PartialOrd<T> for Range<T>"
rp = match("if <a_l:opd> <a_op:cmp> *x { Some(Ordering::Less) } else if <b_l:opd> <b_op:cmp> *x { Some(Ordering::Greater) } else { Some(Ordering::Equal) }",
           block_after(rmsrc, r"fn partial_cmp\(&self, x: &T\) -> Option<Ordering> \{", RP), RP)
RT = RMN + "RangeMap::try_from_iter"
if block_after(rmsrc, r"pub fn try_from_iter<I: IntoIterator<Item = \(Range<T>, V\)>>\(\s*iter: I,\s*\) -> Result<RangeMap<T, V>, OverlapError<T, V>> \{", RT) != \
        ("let mut vec: Vec<_> = iter.into_iter().collect(); vec.sort_by(|x, y| x.0.cmp(&y.0)); let mut ret = RangeMap { elts: vec }; "
         "let discarded = ret.normalize(); if discarded.is_empty() { Ok(ret) } else { Err(OverlapError { non_overlapping: ret, discarded: discarded, }) }"):
    die(RT + " is no longer sort_by(range) + normalize + Err when something was discarded")
RG = RMN + "RangeMap::get"
if block_after(rmsrc, r"pub fn get\(&self, x: T\) -> Option<&V> \{", RG) != \
        "self.elts .binary_search_by(|r| r.0.partial_cmp(&x).unwrap()) .ok() .map(|idx| &self.elts[idx].1)":
    die(RG + " is no longer binary_search_by(range vs point)")
RNZ = RMN + "RangeMap::normalize"
nz = match("let mut vec = Vec::with_capacity(self.elts.len()); let mut discarded = Vec::new(); mem::swap(&mut vec, &mut self.elts); "
           "for (range, val) in vec.into_iter() { if let Some(&mut (ref mut last_range, ref last_val)) = self.elts.last_mut() { "
           "if <a_l:opd> <a_op:cmp> <a_r:opd> && &val != last_val { discarded.push((range, val)); continue; } "
           "if <b_l:opd> <b_op:cmp> <b_r:opd>.saturating_add(T::one()) && &val == last_val { "
           "last_range.end = max(<m_l:opd>, <m_r:opd>); continue; } } self.elts.push((range, val)); } discarded",
           block_after(rmsrc, r"fn normalize\(&mut self\) -> Vec<\(Range<T>, V\)> \{", RNZ), RNZ)
rm_defs = ("(* %s *)\n"
           "Definition g_range_new (s e : Z) : outcome range := if %s then Panic PANIC_G_RANGE_NEW else Ret (s, e).\n"
           "(* %s *)\n"
           "Definition g_contains (r : range) (x : Z) : bool := %s && %s.\n"
           "(* %s *)\n"
           "Definition g_intersects (r o : range) : bool := %s && %s.\n"
           "(* %s *)\n"
           "Definition g_range_cmp_pt (r : range) (x : Z) : ordering :=\n"
           "  if %s then OLess else if %s then OGreater else OEqual.\n"
           "(* %s: one iteration; state = (elts reversed, discarded reversed) *)\n"
           "Definition g_norm_step {V : Type} (eqb : V -> V -> bool) (st : list (range * V) * list (range * V)) (rv : range * V) :=\n"
           "  let '(acc, disc) := st in\n"
           "  match acc with\n"
           "  | [] => ([rv], disc)\n"
           "  | (lr, lv) :: acc' =>\n"
           "      let '(r, v) := rv in\n"
           "      if %s && negb (eqb v lv) then (acc, rv :: disc)\n"
           "      else if (%s %s (sat_add 64 %s 1)) && eqb v lv\n"
           "           then (((fst lr, Z.max %s %s), lv) :: acc', disc)\n"
           "           else (rv :: acc, disc)\n"
           "  end.\n"
           % (RN, cmp_(rn["op"], opd(E_RM, rn["l"], RN), opd(E_RM, rn["r"], RN)),
              RC, cmp_(rc["a_op"], opd(E_RM, rc["a_l"], RC), opd(E_RM, rc["a_r"], RC)), cmp_(rc["b_op"], opd(E_RM, rc["b_l"], RC), opd(E_RM, rc["b_r"], RC)),
              RI, cmp_(ri["a_op"], opd(E_RM, ri["a_l"], RI), opd(E_RM, ri["a_r"], RI)), cmp_(ri["b_op"], opd(E_RM, ri["b_l"], RI), opd(E_RM, ri["b_r"], RI)),
              RP, cmp_(rp["a_op"], opd(E_RM, rp["a_l"], RP), "x"), cmp_(rp["b_op"], opd(E_RM, rp["b_l"], RP), "x"),
              RNZ, cmp_(nz["a_op"], opd(E_RS, nz["a_l"], RNZ), opd(E_RS, nz["a_r"], RNZ)), CMP[nz["b_op"]], opd(E_RS, nz["b_l"], RNZ),
              opd(E_RS, nz["b_r"], RNZ), opd(E_RS, nz["m_l"], RNZ), opd(E_RS, nz["m_r"], RNZ)))
sites.append(("g_range_new, g_contains, g_intersects,", RMN + "(%s)" % cands[0].split("/registry/src/")[-1]))
sites.append(("g_range_cmp_pt, g_norm_step", RMN + "Range::{new, contains, intersects, partial_cmp}, RangeMap::{normalize}; try_from_iter, get pinned"))

# ============================================================================ output
out = """(* GENERATED by translate/c08_tables.py from minidump-common/src/traits.rs, breakpad-symbols/src/sym_file/{parser,types}.rs
   and minidump/src/minidump.rs — do not edit.
   g_* are copies of the definitions of C08/Model.v / C08/WinModel.v whose comparison operators, operands, constants and
   +/- were read from the source (the statement structure around them is pinned literally by the translator);
   C08/Tie.v proves them equal to the model, C08/Properties.v states the property theorems for them.
%s *)
From RM Require Import Base.Word C08.Model C08.WinModel.
Open Scope Z_scope.

Definition PANIC_G_RANGE_NEW : Z := 831.   (* range_map::Range::new: "Ranges must be ordered" *)
Definition PANIC_G_MR_ARITH : Z := 832.    (* the `- 1` of a memory_range() (debug builds trap) *)
%s
%s
(* the index-valued builders (from_modules / from_regions x4): (entry.memory_range(), index) pairs in vector order *)
Definition g_build_indexed (ranges : list (option range)) : outcome (list (range * Z)) :=
  g_build_traits Z.eqb (enumerate_from 0 ranges).
""" % ("\n".join("   %-40s <- %s" % x for x in sites), rm_defs, "\n".join(defs))
os.makedirs(outdir, exist_ok=True)
path = os.path.join(outdir, "C08Tables.v")
try:
    same = open(path).read() == out
except OSError:
    same = False
if not same:
    open(path, "w").write(out)
