#!/usr/bin/env python3
"""Translator (C09, round 5 second pass): the numeric helpers of breakpad-symbols/src/sym_file/parser.rs,
`hex_str` and `decimal_u32`, COMPILED statement by statement to Gallina -> coq/Gen/C09Numeric.v.   argv: <repo> <outdir>.

The bodies are parsed with a small parser for the subset of Rust they are written in:
    let [mut] x [: T] = <expr>;        const X: usize = <int>;        x = <expr>;        x += <int>;
    for v in input.iter().take(<name>) { ... }
    let d = match <expr>.to_digit(<int>) { Some(v) => v, None => break, };
    if k == 0 { return Err(Err::Error(Error::from_error_kind(input, ErrorKind::<Kind>))); }
    let x = u32::try_from(x).map_err(|_| Err::Error(Error::from_error_kind(input, ErrorKind::<Kind>)))?;
    let remaining = &input[k..];       Ok((remaining, res))
    <expr> ::= names, integer literals, T::from(e), mem::size_of::<T>(), (e), *v as char, e as u8 / u64,  e * e, e + e, e << e, e | e
Every statement becomes one `let` / `do` of the generated definition, in source order; `+` `*` `+=` are the checked
operators of Base/Word.v at the width of the variable assigned (debug: Panic, release: wrap), `<<` drops the high bits,
`&input[k..]` is a slice site.  Anything outside this subset aborts.  coq/C09/PinsNum.v proves the generated functions equal
to the number recognisers of coq/C09/Grammar.v (hex_str 8 / 16 digits, decimal_u32) on every byte string, in both profiles."""
import os
import re
import sys

repo, outdir = sys.argv[1], sys.argv[2]


def die(msg):
    sys.stderr.write("c09_numeric.py: " + msg + "\n")
    sys.exit(1)


src = open(os.path.join(repo, "breakpad-symbols/src/sym_file/parser.rs")).read()


def fn_body(sig_rx, name):
    m = re.search(sig_rx, src)
    if not m:
        die("cannot find the signature of %s()" % name)
    j = m.end()
    depth, k = 1, j
    while depth:
        if k >= len(src):
            die("unbalanced braces in %s()" % name)
        depth += {"{": 1, "}": -1}.get(src[k], 0)
        k += 1
    body = src[j:k - 1]
    body = re.sub(r"//[^\n]*", "", body)
    return body


TOK = re.compile(r"\s*(<<|\+=|==|=>|::|\.\.|[A-Za-z_][A-Za-z_0-9]*|\d[\d_]*|[{}()\[\];:,.=+*|&<>?!])")


def tokenize(text, name):
    toks, i = [], 0
    text = text.strip()
    while i < len(text):
        m = TOK.match(text, i)
        if not m:
            die("%s(): cannot tokenise at `%s`" % (name, text[i:i + 40]))
        toks.append(m.group(1))
        i = m.end()
    return toks


class P:
    """recursive-descent parser / compiler for one function body"""

    def __init__(self, name, toks, width_of, tagbase):
        self.name, self.t, self.i = name, toks, 0
        self.width_of = width_of      # variable -> Gallina width expression
        self.tag = tagbase
        self.ntmp = 0

    def die(self, msg):
        die("%s(): %s at `%s`" % (self.name, msg, " ".join(self.t[self.i:self.i + 12])))

    def peek(self, k=0):
        return self.t[self.i + k] if self.i + k < len(self.t) else None

    def eat(self, *ws):
        for w in ws:
            if self.peek() != w:
                self.die("expected `%s`" % w)
            self.i += 1

    def eat_seq(self, text):
        self.eat(*tokenize(text, self.name))

    def ident(self):
        w = self.peek()
        if w is None or not re.fullmatch(r"[A-Za-z_][A-Za-z_0-9]*", w):
            self.die("identifier expected")
        self.i += 1
        return w

    def integer(self):
        w = self.peek()
        if w is None or not re.fullmatch(r"\d[\d_]*", w):
            self.die("integer literal expected")
        self.i += 1
        return int(w.replace("_", ""))

    def newtag(self):
        self.tag += 1
        return self.tag

    def tmp(self):
        self.ntmp += 1
        return "t%d" % self.ntmp

    # ---- expressions: returns (bindings, atom); bindings are `do x <- e;` lines; width = width of the variable assigned
    def atom(self, width, scope):
        w = self.peek()
        if w == "(":
            self.eat("(")
            if self.peek() == "*":                       # (*v as char)
                self.eat("*")
                v = self.ident()
                if v not in scope:
                    self.die("unknown variable %s" % v)
                self.eat_seq("as char )")
                return [], v
            b, a = self.expr(width, scope)
            self.eat(")")
            return b, a
        if w == "*":                                     # *v as char
            self.eat("*")
            v = self.ident()
            if v not in scope:
                self.die("unknown variable %s" % v)
            self.eat_seq("as char")
            return [], v
        if w == "T" and self.peek(1) == "::":
            self.eat_seq("T :: from (")
            b, a = self.expr(width, scope)
            self.eat(")")
            return b, a                                   # u8 -> T: value preserving
        if w == "mem":
            self.eat_seq("mem :: size_of :: < T > ( )")
            return [], "size_of_T"
        if w is not None and re.fullmatch(r"\d[\d_]*", w):
            return [], str(self.integer())
        v = self.ident()
        if v not in scope:
            self.die("unknown variable %s" % v)
        return [], v

    def cast(self, width, scope):
        b, a = self.atom(width, scope)
        while self.peek() == "as":
            self.eat("as")
            ty = self.ident()
            if ty == "u8":
                a = "(%s mod 256)" % a
            elif ty == "u64":
                pass                                      # from u32 / u8: value preserving
            else:
                self.die("cast to %s not supported" % ty)
        return b, a

    def binlevel(self, ops, sub, width, scope):
        b, a = sub(width, scope)
        while self.peek() in ops:
            op = self.peek()
            self.i += 1
            b2, a2 = sub(width, scope)
            b = b + b2
            if op == "*":
                t = self.tmp()
                b.append("do %s <- chk_mul p %s %d %s %s;" % (t, width, self.newtag(), a, a2))
                a = t
            elif op == "+":
                t = self.tmp()
                b.append("do %s <- chk_add p %s %d %s %s;" % (t, width, self.newtag(), a, a2))
                a = t
            elif op == "<<":
                a = "(shl_w %s %s %s)" % (width, a, a2)
            elif op == "|":
                a = "(Z.lor %s %s)" % (a, a2)
        return b, a

    def expr(self, width, scope):                          # Rust precedence: * > + > << > |
        mul = lambda w, s: self.binlevel(("*",), self.cast, w, s)
        add = lambda w, s: self.binlevel(("+",), mul, w, s)
        shl = lambda w, s: self.binlevel(("<<",), add, w, s)
        return self.binlevel(("|",), shl, width, scope)

    # ---- statements
    def err_return(self, wrapped=True):
        """[Err(] Err::Error(Error::from_error_kind(input, ErrorKind::<Kind>)) [)]  -> the kind"""
        if wrapped:
            self.eat_seq("Err (")
        self.eat_seq("Err :: Error ( Error :: from_error_kind ( input , ErrorKind ::")
        kind = self.ident()
        if self.peek() == ",":                            # rustfmt's trailing comma of a multi-line call
            self.eat(",")
        self.eat_seq(") ) )" if wrapped else ") )")
        return kind

    def loop_body(self, scope, state):
        """statements of the for body; returns Gallina text of `fun st v => ...` body lines"""
        lines = []
        scope = set(scope) | {"v"}
        while self.peek() != "}":
            if self.peek() == "let":
                self.eat("let")
                x = self.ident()
                self.eat("=")
                if self.peek() == "match":
                    self.eat("match")
                    b, a = self.cast("64", scope)
                    if b:
                        self.die("checked arithmetic inside a match scrutinee")
                    self.eat_seq(". to_digit (")
                    radix = self.integer()
                    self.eat_seq(") { Some ( v ) => v , None => break , } ;")
                    lines.append(("match", x, a, radix))
                    scope.add(x)
                else:
                    b, a = self.expr("64", scope)
                    self.eat(";")
                    lines += [("do", l) for l in b]
                    lines.append(("let", x, a))
                    scope.add(x)
            else:
                x = self.ident()
                if x not in state:
                    self.die("assignment to %s, which is not declared `let mut` before the loop" % x)
                if self.peek() == "+=":
                    self.eat("+=")
                    n = self.integer()
                    self.eat(";")
                    lines.append(("do", "do %s <- chk_add p %s %d %s %d;" % (x, self.width_of[x], self.newtag(), x, n)))
                else:
                    self.eat("=")
                    b, a = self.expr(self.width_of[x], scope)
                    self.eat(";")
                    lines += [("do", l) for l in b]
                    lines.append(("let", x, a))
        return lines

    def function(self, params):
        scope = set(params)
        pre, state, post = [], [], []
        loop = None
        result = None
        while self.peek() is not None:
            w = self.peek()
            if w == "const":
                self.eat("const")
                x = self.ident()
                self.eat_seq(": usize =")
                n = self.integer()
                self.eat(";")
                (pre if loop is None else post).append("let %s := %d in" % (x, n))
                scope.add(x)
            elif w == "let":
                self.eat("let")
                mut = self.peek() == "mut"
                if mut:
                    self.eat("mut")
                x = self.ident()
                if self.peek() == ":":
                    self.eat(":")
                    ty = self.ident()
                    if self.width_of.get(x) is None:
                        self.die("no width known for %s: %s" % (x, ty))
                self.eat("=")
                if self.peek() == "u32" and self.peek(1) == "::":
                    self.eat_seq("u32 :: try_from (")
                    y = self.ident()
                    self.eat_seq(") . map_err ( | _ | ")
                    kind = self.err_return(wrapped=False)
                    self.eat_seq(") ? ;")
                    post.append("match (if %s <=? U32MAX then Some %s else None) with None => Ret None (* ErrorKind::%s *) | Some %s =>" % (y, y, kind, x))
                    self.closers = getattr(self, "closers", 0) + 1
                elif self.peek() == "&":
                    self.eat_seq("& input [")
                    k = self.ident()
                    self.eat_seq(".. ] ;")
                    if k not in scope:
                        self.die("unknown variable %s" % k)
                    post.append("do %s <- slice_from %d %s input;" % (x, self.newtag(), k))
                else:
                    b, a = self.expr(self.width_of.get(x, "64"), scope)
                    self.eat(";")
                    tgt = pre if loop is None else post
                    tgt += b
                    tgt.append("let %s := %s in" % (x, a))
                    if mut:
                        if loop is not None:
                            self.die("`let mut` after the loop")
                        state.append(x)
                scope.add(x)
            elif w == "for":
                if loop is not None:
                    self.die("second loop")
                self.eat_seq("for v in input . iter ( ) . take (")
                n = self.ident()
                if n not in scope:
                    self.die("unknown variable %s" % n)
                self.eat_seq(") {")
                body = self.loop_body(scope, state)
                self.eat("}")
                loop = (n, body)
            elif w == "if":
                self.eat("if")
                x = self.ident()
                self.eat("==")
                n = self.integer()
                self.eat_seq("{ return")
                kind = self.err_return()
                self.eat_seq("; }")
                if loop is None:
                    self.die("`if` before the loop")
                post.append("if %s =? %d then Ret None (* ErrorKind::%s *) else" % (x, n, kind))
            elif w == "Ok":
                self.eat_seq("Ok ( (")
                a = self.ident()
                self.eat(",")
                b = self.ident()
                self.eat_seq(") )")
                if a not in scope or b not in scope:
                    self.die("unknown variable in the result")
                result = "Ret (Some (%s, %s))" % (a, b)
                if self.peek() is not None:
                    self.die("statements after the result expression")
            else:
                self.die("statement not in the supported subset")
        if loop is None or result is None:
            self.die("no loop / no result expression")
        return pre, state, loop, post, result


def compile_fn(name, sig_rx, params, gparams, width_of, tagbase):
    body = fn_body(sig_rx, name)
    p = P(name, tokenize(body, name), width_of, tagbase)
    pre, state, (take, lbody), post, result = p.function(params)
    if not state:
        die("%s(): the loop has no state" % name)
    st = "(" + ", ".join(state) + ")"
    out = []
    # the loop body as its own definition
    out.append("Definition %s_body (p : profile) %s(st : %s) (v : Z) : outcome (option (%s)) :=" %
               (name, gparams, " * ".join(["Z"] * len(state)), " * ".join(["Z"] * len(state))))
    out.append("  let '%s := st in" % st)
    depth = 0
    for ln in lbody:
        if ln[0] == "match":
            _, x, a, radix = ln
            out.append("  match to_digit %s %d with" % (a, radix))
            out.append("  | None => Ret None                     (* break *)")
            out.append("  | Some %s =>" % x)
            depth += 1
        elif ln[0] == "do":
            out.append("  " + ln[1])
        else:
            out.append("  let %s := %s in" % (ln[1], ln[2]))
    out.append("  Ret (Some %s)" % st)
    out += ["  end"] * depth
    out[-1] += "."
    args = " ".join(w for w in gparams.replace("(", " ").replace(")", " ").replace(": Z", " ").split())
    out.append("Definition %s_src (p : profile) %s(input : list Z) : outcome (option (list Z * Z)) :=" % (name, gparams))
    for l in pre:
        out.append("  " + l)
    out.append("  do st <- for_take (Z.to_nat %s) input (%s_body p %s) %s;" % (take, name, args, st))
    out.append("  let '%s := st in" % st)
    for l in post:
        out.append("  " + l)
    out.append("  " + result)
    out += ["  end"] * getattr(p, "closers", 0)
    out[-1] += "."
    return "\n".join(out) + "\n"


HEADER = """(* GENERATED by translate/c09_numeric.py from breakpad-symbols/src/sym_file/parser.rs - do not edit *)
From RM Require Import Base.Word.
Open Scope Z_scope.
(* ---- fixed part: the meaning given to the library calls the two functions make *)
(* `(b as char).to_digit(radix)` for a u8 `b`: '0'..'9', 'a'..'z', 'A'..'Z' with value < radix *)
Definition to_digit (b radix : Z) : option Z :=
  let d := if (48 <=? b) && (b <=? 57) then b - 48
           else if (97 <=? b) && (b <=? 122) then b - 97 + 10
           else if (65 <=? b) && (b <=? 90) then b - 65 + 10
           else radix in
  if d <? radix then Some d else None.
(* `x << n` at width w: high bits are dropped, no trap on the value (the shift amount is a literal < w) *)
Definition shl_w (w x n : Z) : Z := (x * 2 ^ n) mod 2 ^ w.
(* `&input[k..]`: panics when k > input.len() *)
Definition slice_from (tag k : Z) (input : list Z) : outcome (list Z) :=
  if (0 <=? k) && (k <=? Z.of_nat (length input)) then Ret (skipn (Z.to_nat k) input) else Panic tag.
(* `for v in input.iter().take(n) { body }`: body returns the new values of the `let mut` variables, or None = `break` *)
Fixpoint for_take {S : Type} (n : nat) (input : list Z) (body : S -> Z -> outcome (option S)) (st : S) : outcome S :=
  match n, input with
  | S n', v :: t => do r <- body st v; match r with Some st' => for_take n' t body st' | None => Ret st end
  | _, _ => Ret st
  end.
(* ---- compiled part.  Result: Ret None = the nom error of the function, Ret (Some (remaining, value)) = Ok *)
"""

out = HEADER
out += "(* fn hex_str<T>(input: &[u8]) -> IResult<&[u8], T>;  size_of_T = mem::size_of::<T>() (4 for u32, 8 for u64) *)\n"
out += compile_fn("hex_str",
                  r"fn hex_str<T: std::ops::Shl<T, Output = T> \+ std::ops::BitOr<T, Output = T> \+ From<u8>>\(\s*input: &\[u8\],?\s*\) -> IResult<&\[u8\], T> \{",
                  ["input"], "(size_of_T : Z) ",
                  {"max_len": "64", "res": "(size_of_T * 8)", "k": "64"}, 9510)
out += "(* fn decimal_u32(input: &[u8]) -> IResult<&[u8], u32> *)\n"
out += compile_fn("decimal_u32", r"fn decimal_u32\(input: &\[u8\]\) -> IResult<&\[u8\], u32> \{",
                  ["input"], "",
                  {"res": "64", "k": "64"}, 9530)

os.makedirs(outdir, exist_ok=True)
path = os.path.join(outdir, "C09Numeric.v")
try:
    same = open(path).read() == out
except OSError:
    same = False
if not same:
    open(path, "w").write(out)
