#!/usr/bin/env python3
"""Translator (C07): STACK WIN evaluation, compiled from the Rust source into Gallina.

Reads breakpad-symbols/src/sym_file/walker.rs (and mod.rs for the record preference order) and regenerates
coq/Gen/C07WinEval.v:
  * `win_frame_size`                      -> g_win_frame_size          (Option chain)
  * `clear_stack_win_caller_registers`    -> g_clear_names             (the names really passed)
  * `eval_win_expr`
      - the prologue up to the token loop -> g_win_initial_vars        (the `?`s in source order, the `@` rule, the
                                                                          predefined constants in insertion order)
      - every arm of `match token`        -> g_win_step                (one Gallina branch per arm, in source order:
                                                                          pops, guards, arithmetic, pushes)
      - `output_regs` and the final loop  -> g_win_outputs
  * `walk_with_stack_win_fpo`             -> g_walk_win_fpo            (statement by statement; walker writes threaded
                                                                          as a state, `?` = give up with the state reached)
  * `walk_with_stack_win_framedata`, the tokenizer closure, the output loop and `SymbolFile::walk_frame`'s record
    preference are PINNED textually (the model's glue is written for exactly this text).
The Rust subset understood: `let [mut] x [: T] = e;`, `x = e;`, `e;`, `return None;`, `if c {..} [else {..}]`,
`if let PAT = e {..} [else {..}]`, `match x { "lit" => {..} .. _ => {..} }`, `for x in e {..}`, blocks with a tail
expression, method calls / calls / paths / casts / `?` / unary `! - &` / binary `== || && & ^ -`, integer, string and
char literals, logging macros (dropped).  Every method and function is looked up in a table of known meanings with
simple type tracking (u32 / u64 / bool / Option / WinVal / &str); anything else ABORTS (exit 1).
Integer `-` is emitted as a trapping subtraction (`chk_usub`: debug panic / release wrap), `wrapping_div` /
`wrapping_rem` as `g_div` / `g_rem` (panic on a zero divisor), so a dropped guard shows up as a reachable Panic.
argv: <repo> <outdir>."""
import os
import re
import sys

repo, outdir = sys.argv[1], sys.argv[2]


def die(msg):
    sys.stderr.write("c07_win_eval.py: " + msg + "\n")
    sys.exit(1)


def norm(s):
    s = re.sub(r"//[^\n]*", "", s)
    return re.sub(r"\s+", "", s)


def balanced(src, start, open_c, close_c):
    if src[start] != open_c:
        die("internal: expected %r at %d, found %r" % (open_c, start, src[start:start + 20]))
    depth = 0
    i = start
    while i < len(src):
        c = src[i]
        if c == '"':
            i = src.index('"', i + 1)
        elif c == "'" and re.match(r"'(\\.|[^\\'])'", src[i:]):
            i += len(re.match(r"'(\\.|[^\\'])'", src[i:]).group(0)) - 1
        elif c == open_c:
            depth += 1
        elif c == close_c:
            depth -= 1
            if depth == 0:
                return i + 1
        i += 1
    die("unbalanced %r" % open_c)


def fn_body(src, header_re, what):
    """-> (signature text, body text without the outer braces)"""
    m = re.search(header_re, src)
    if not m:
        die("%s: function header not found" % what)
    b0 = src.index("{", m.end())
    b1 = balanced(src, b0, "{", "}")
    return src[m.start():b0], src[b0 + 1:b1 - 1]


# =============================================================================== lexer / parser of the Rust subset
TOK = re.compile(r"""\s*(?:(?P<str>"(?:[^"\\]|\\.)*")|(?P<chr>'(?:[^'\\]|\\.)')|(?P<num>[0-9][0-9_]*(?:i32|u32|i64|u64)?)|
                     (?P<id>[A-Za-z_][A-Za-z0-9_]*)|(?P<op>::|=>|==|!=|&&|\|\||\.\.|->|<=|>=|[-+*/%&|^!=<>.,;:(){}\[\]?@\#]))""", re.X)


def lex(s):
    s = re.sub(r"//[^\n]*", "", s)
    out, i = [], 0
    while True:
        while i < len(s) and s[i].isspace():
            i += 1
        if i >= len(s):
            break
        m = TOK.match(s, i)
        if not m:
            die("lexer: unrecognised text %r" % s[i:i + 40])
        k = m.lastgroup
        out.append((k, m.group(k)))
        i = m.end()
    out.append(("eof", ""))
    return out


BINPREC = {"||": 1, "&&": 2, "==": 3, "!=": 3, "<": 3, ">": 3, "<=": 3, ">=": 3, "|": 4, "^": 5, "&": 6, "+": 8, "-": 8,
           "*": 9, "/": 9, "%": 9}


class Parser:
    def __init__(self, toks, what):
        self.t, self.i, self.what = toks, 0, what

    def peek(self, k=0):
        return self.t[self.i + k]

    def at(self, v):
        return self.t[self.i][1] == v and self.t[self.i][0] in ("op", "id")

    def eat(self, v):
        if not self.at(v):
            die("%s: expected %r, found %r (token %d)" % (self.what, v, self.t[self.i][1], self.i))
        self.i += 1

    def ident(self):
        k, v = self.t[self.i]
        if k != "id":
            die("%s: identifier expected, found %r" % (self.what, v))
        self.i += 1
        return v

    # ---- blocks and statements
    def block(self):
        """-> ('block', [stmts], tail_expr_or_None)"""
        self.eat("{")
        stmts, tail = [], None
        while not self.at("}"):
            if self.at("let"):
                self.i += 1
                mut = False
                if self.at("mut"):
                    self.i += 1
                    mut = True
                name = self.ident()
                if self.at(":"):            # type annotation: skipped up to the `=`
                    depth = 0
                    while not (self.at("=") and depth == 0):
                        if self.at("<"):
                            depth += 1
                        if self.at(">"):
                            depth -= 1
                        if self.peek()[0] == "eof":
                            die("%s: runaway type annotation" % self.what)
                        self.i += 1
                self.eat("=")
                e = self.expr()
                self.eat(";")
                stmts.append(("let", name, mut, e))
                continue
            if self.at("return"):
                self.i += 1
                e = self.expr()
                self.eat(";")
                stmts.append(("return", e))
                continue
            if self.at("for"):
                self.i += 1
                v = self.ident()
                self.eat("in")
                e = self.expr(nostruct=True)
                b = self.block()
                stmts.append(("for", v, e, b))
                continue
            e = self.expr()
            if e[0] == "macro" and e[1] in ("trace", "debug"):
                self.eat(";")
                continue
            if self.at("=") and e[0] == "path" and len(e[1]) == 1:
                self.i += 1
                rhs = self.expr()
                self.eat(";")
                stmts.append(("assign", e[1][0], rhs))
                continue
            if self.at(";"):
                self.i += 1
                stmts.append(("expr", e))
                continue
            if e[0] in ("if", "iflet", "match") and not self.at("}"):
                stmts.append(("expr", e))
                continue
            if not self.at("}"):
                die("%s: `;` or `}` expected after expression, found %r" % (self.what, self.peek()[1]))
            tail = e
        self.eat("}")
        return ("block", stmts, tail)

    # ---- expressions
    def expr(self, minprec=1, nostruct=False):
        lhs = self.unary()
        while True:
            k, v = self.peek()
            if k == "id" and v == "as":
                self.i += 1
                ty = self.ident()
                lhs = ("cast", lhs, ty)
                continue
            if k == "op" and v in BINPREC and BINPREC[v] >= minprec:
                self.i += 1
                rhs = self.expr(BINPREC[v] + 1)
                lhs = ("bin", v, lhs, rhs)
                continue
            break
        return lhs

    def unary(self):
        if self.at("!"):
            self.i += 1
            return ("not", self.unary_cast())
        if self.at("-"):
            self.i += 1
            return ("neg", self.unary_cast())
        if self.at("&"):
            self.i += 1
            if self.at("mut"):
                self.i += 1
            return ("ref", self.unary_cast())
        return self.postfix()

    def unary_cast(self):
        # operand of a unary operator: binds tighter than `as` and every binary operator
        return self.unary()

    def postfix(self):
        e = self.primary()
        while True:
            if self.at("?"):
                self.i += 1
                e = ("try", e)
            elif self.at(".") and self.peek(1)[0] == "id":
                self.i += 1
                name = self.ident()
                if self.at("("):
                    e = ("mcall", e, name, self.args())
                else:
                    e = ("field", e, name)
            elif self.at("["):
                self.i += 1
                lo = None if self.at("..") else self.expr()
                self.eat("..")
                hi = None if self.at("]") else self.expr()
                self.eat("]")
                e = ("slice", e, lo, hi)
            else:
                return e

    def args(self):
        self.eat("(")
        a = []
        while not self.at(")"):
            a.append(self.expr())
            if self.at(","):
                self.i += 1
        self.eat(")")
        return a

    def primary(self):
        k, v = self.peek()
        if k == "num":
            self.i += 1
            m = re.match(r"([0-9_]+)(i32|u32|i64|u64)?$", v)
            return ("int", int(m.group(1).replace("_", "")), m.group(2))
        if k == "str":
            self.i += 1
            if "\\" in v:
                die("%s: escape in string literal %s" % (self.what, v))
            return ("str", v[1:-1])
        if k == "chr":
            self.i += 1
            if "\\" in v or len(v) != 3:
                die("%s: unsupported char literal %s" % (self.what, v))
            return ("chr", v[1])
        if k == "op" and v == "(":
            self.i += 1
            if self.at(")"):
                self.i += 1
                return ("unit",)
            e = self.expr()
            self.eat(")")
            return ("paren", e)
        if k == "op" and v == "[":
            self.i += 1
            a = []
            while not self.at("]"):
                a.append(self.expr())
                if self.at(","):
                    self.i += 1
            self.eat("]")
            return ("array", a)
        if k == "op" and v == "{":
            return self.block()
        if k == "id" and v == "if":
            self.i += 1
            if self.at("let"):
                self.i += 1
                pat = self.pattern()
                self.eat("=")
                e = self.expr(nostruct=True)
                th = self.block()
                el = None
                if self.at("else"):
                    self.i += 1
                    el = self.primary() if self.at("if") else self.block()
                return ("iflet", pat, e, th, el)
            c = self.expr(nostruct=True)
            th = self.block()
            el = None
            if self.at("else"):
                self.i += 1
                el = self.primary() if self.at("if") else self.block()
            return ("if", c, th, el)
        if k == "id" and v == "match":
            self.i += 1
            scrut = self.expr(nostruct=True)
            self.eat("{")
            arms = []
            while not self.at("}"):
                kk, vv = self.peek()
                if kk == "str":
                    self.i += 1
                    pat = ("str", vv[1:-1])
                elif kk == "id" and vv == "_":
                    self.i += 1
                    pat = ("wild",)
                else:
                    die("%s: unsupported match pattern starting at %r" % (self.what, vv))
                self.eat("=>")
                body = self.block()
                if self.at(","):
                    self.i += 1
                arms.append((pat, body))
            self.eat("}")
            return ("match", scrut, arms)
        if k == "id":
            path = [self.ident()]
            while self.at("::"):
                self.i += 1
                path.append(self.ident())
            if self.at("!"):
                if self.peek(1)[1] != "(":
                    die("%s: macro %s! without (...)" % (self.what, path[0]))
                self.i += 1
                depth = 0
                while True:          # skip the balanced argument list
                    if self.at("("):
                        depth += 1
                    if self.at(")"):
                        depth -= 1
                    if self.peek()[0] == "eof":
                        die("%s: runaway macro call" % self.what)
                    self.i += 1
                    if depth == 0:
                        break
                return ("macro", path[0])
            if self.at("("):
                return ("call", path, self.args())
            return ("path", path)
        die("%s: unexpected token %r" % (self.what, v))

    def pattern(self):
        """patterns of `if let`: Path | Path(ident) | Path(&ident)"""
        path = [self.ident()]
        while self.at("::"):
            self.i += 1
            path.append(self.ident())
        bind = None
        if self.at("("):
            self.i += 1
            if self.at("&"):
                self.i += 1
            if self.at("ref"):
                self.i += 1
            bind = self.ident()
            self.eat(")")
        return ("pat", path, bind)


def parse_block(text, what):
    p = Parser(lex("{" + text + "}"), what)
    b = p.block()
    if p.peek()[0] != "eof":
        die("%s: trailing text after the body" % what)
    return b


# =============================================================================== code generation
def blit(s):
    return "[" + "; ".join(str(b) for b in s.encode()) + "]"


INFO_FIELDS = {"local_size": ("w_locals", "u32"), "saved_register_size": ("w_saved", "u32"), "parameter_size": ("w_params", "u32")}
INT_TYPES = ("u32", "u64", "i32", "i64", "int")


def contains_try(e):
    if isinstance(e, tuple):
        if e and e[0] == "try":
            return True
        return any(contains_try(x) for x in e)
    if isinstance(e, list):
        return any(contains_try(x) for x in e)
    return False


class Gen:
    """CPS code generator.  mode: 'opt' (Option<T> function without walker writes: failure = None),
    'out' (a token arm: failure = Fail, result Ret (vars, stack)), 'st' (walker writes: failure = (s, false))."""

    def __init__(self, mode, what):
        self.mode, self.what, self.n = mode, what, 0

    def fresh(self, base):
        self.n += 1
        return "%s_%d" % (base, self.n)

    def fail(self, env):
        if self.mode == "opt":
            return "None"
        if self.mode == "out":
            return "Fail"
        return "(%s, false)" % env["__s"][0]

    # env: rust name -> (gallina term, type)
    def expr(self, e, env, k):
        """k(term, type, env) -> gallina text"""
        kind = e[0]
        if kind == "paren":
            return self.expr(e[1], env, k)
        if kind == "int":
            return k(str(e[1]), e[2] or "int", env)
        if kind == "str":
            return k(blit(e[1]), "str", env)
        if kind == "unit":
            return k("tt", "unit", env)
        if kind == "path":
            p = e[1]
            if len(p) == 1:
                if p[0] == "None":
                    return k("None", ("opt", "?"), env)
                if p[0] not in env:
                    die("%s: unknown variable %s" % (self.what, p[0]))
                return k(env[p[0]][0], env[p[0]][1], env)
            if p == ["WinVal", "Undef"]:
                return k("WUndef", "winval", env)
            die("%s: unknown path %s" % (self.what, "::".join(p)))
        if kind == "ref":
            return self.expr(e[1], env, k)
        if kind == "neg":
            return self.expr(e[1], env, lambda t, ty, env: k("(- %s)" % t, ty if ty in ("i32", "i64", "int") else
                                                             die("%s: unary minus on %s" % (self.what, ty)), env))
        if kind == "not":
            return self.expr(e[1], env, lambda t, ty, env: k("(negb %s)" % t, "bool", env) if ty == "bool" else
                             die("%s: `!` on a non-bool (%s)" % (self.what, ty)))
        if kind == "cast":
            def kc(t, ty, env):
                to = e[2]
                if ty not in INT_TYPES:
                    die("%s: cast of a non-integer (%s)" % (self.what, ty))
                if to == "u32":
                    return k(t if ty == "u32" else "(wrap32 %s)" % t, "u32", env)
                if to == "u64":
                    if ty in ("u32", "u64"):
                        return k(t, "u64", env)
                    return k("(wrap64 %s)" % t, "u64", env)
                die("%s: cast to %s" % (self.what, to))
            return self.expr(e[1], env, kc)
        if kind == "field":
            if e[1] == ("path", ["info"]) and e[2] in INFO_FIELDS:
                g, ty = INFO_FIELDS[e[2]]
                return k("(%s i)" % g, ty, env)
            die("%s: unknown field access .%s" % (self.what, e[2]))
        if kind == "try":
            def kt(t, ty, env):
                if not (isinstance(ty, tuple) and ty[0] == "opt"):
                    die("%s: `?` on a non-Option (%s)" % (self.what, ty))
                if ty[1] == "unit":
                    return "match %s with None => %s | Some _ => %s end" % (t, self.fail(env), k("tt", "unit", env))
                x = self.fresh("x")
                return "match %s with None => %s | Some %s =>\n  %s end" % (t, self.fail(env), x, k(x, ty[1], env))
            inner = e[1]
            # stack.pop()? : the only supported use of pop
            if inner[0] == "mcall" and inner[1] == ("path", ["stack"]) and inner[2] == "pop" and not inner[3]:
                st = env["stack"][0]
                x, st2 = self.fresh("v"), self.fresh("stack")
                env2 = dict(env)
                env2["stack"] = (st2, "stack")
                return "match %s with [] => %s | %s :: %s =>\n  %s end" % (st, self.fail(env), x, st2, k(x, "winval", env2))
            # walker.set_caller_register(name, v)? : a write
            if inner[0] == "mcall" and inner[1] == ("path", ["walker"]) and inner[2] == "set_caller_register":
                if self.mode != "st":
                    die("%s: set_caller_register outside a walker-writing function" % self.what)
                a = inner[3]
                if len(a) != 2 or a[0][0] != "str":
                    die("%s: set_caller_register with a computed name" % self.what)

                def kv(t, ty, env):
                    if ty != "u64":
                        die("%s: set_caller_register value is %s, not u64" % (self.what, ty))
                    s, s2 = env["__s"][0], self.fresh("s")
                    env2 = dict(env)
                    env2["__s"] = (s2, "state")
                    return "match o_set ops %s %s %s with None => %s | Some %s =>\n  %s end" % (
                        s, blit(a[0][1]), t, self.fail(env), s2, k("tt", "unit", env2))
                return self.expr(a[1], env, kv)
            return self.expr(inner, env, kt)
        if kind == "mcall":
            return self.mcall(e, env, k)
        if kind == "call":
            return self.call(e, env, k)
        if kind == "bin":
            return self.binop(e, env, k)
        if kind in ("if", "iflet", "block"):
            # expression-valued: the continuation is duplicated into the branches
            return self.branchy(e, env, k)
        if kind == "macro":
            if e[1] == "unreachable":
                return "UNREACHABLE"
            die("%s: macro %s! in expression position" % (self.what, e[1]))
        die("%s: unsupported expression %r" % (self.what, kind))

    def exprs(self, es, env, k, acc=None):
        acc = acc or []
        if not es:
            return k(acc, env)
        return self.expr(es[0], env, lambda t, ty, env: self.exprs(es[1:], env, k, acc + [(t, ty)]))

    def call(self, e, env, k):
        p, a = e[1], e[2]
        if p == ["WinVal", "Int"] and len(a) == 1:
            return self.expr(a[0], env, lambda t, ty, env: k("(WInt %s)" % t, "winval", env) if ty == "u32" else
                             die("%s: WinVal::Int of %s" % (self.what, ty)))
        if p == ["WinVal", "Var"] and len(a) == 1:
            return self.expr(a[0], env, lambda t, ty, env: k("(WVar %s)" % t, "winval", env) if ty == "str" else
                             die("%s: WinVal::Var of %s" % (self.what, ty)))
        if p == ["Some"] and len(a) == 1:
            return self.expr(a[0], env, lambda t, ty, env: k("(Some %s)" % t, ("opt", ty), env))
        if p == ["win_frame_size"] and a == [("path", ["info"]), ("path", ["grand_callee_param_size"])]:
            return k("(g_win_frame_size i %s)" % env["grand_callee_param_size"][0], ("opt", "u32"), env)
        if p == ["clear_stack_win_caller_registers"] and a == [("path", ["walker"])]:
            if self.mode != "st":
                die("%s: clear_stack_win_caller_registers outside a walker-writing function" % self.what)
            s, s2 = env["__s"][0], self.fresh("s")
            env2 = dict(env)
            env2["__s"] = (s2, "state")
            return "let %s := clear_all ops g_clear_names %s in\n  %s" % (s2, s, k("tt", "unit", env2))
        if p == ["i64", "from_str"] and len(a) == 1:
            return self.expr(a[0], env, lambda t, ty, env: k("(parse_int 64 %s)" % t, ("res", "i64"), env) if ty == "str" else
                             die("%s: i64::from_str of %s" % (self.what, ty)))
        die("%s: unknown function %s/%d" % (self.what, "::".join(p), len(a)))

    def mcall(self, e, env, k):
        recv, name, a = e[1], e[2], e[3]
        if recv == ("path", ["walker"]):
            if name == "get_callee_register" and len(a) == 1 and a[0][0] == "str":
                return k("(e_callee E %s)" % blit(a[0][1]), ("opt", "u64"), env)
            if name == "get_grand_callee_parameter_size" and not a:
                return k("(e_gcps E)", "u32", env)
            if name == "has_grand_callee" and not a:
                return k("(e_has_gc E)", "bool", env)
            if name == "get_register_at_address" and len(a) == 1:
                return self.expr(a[0], env, lambda t, ty, env: k("(e_mem E %s)" % t, ("opt", "u64"), env) if ty == "u64" else
                                 die("%s: get_register_at_address of %s (u64 expected)" % (self.what, ty)))
            die("%s: unknown FrameWalker call %s/%d (writes must be followed by `?`)" % (self.what, name, len(a)))
        if recv == ("path", ["stack"]) and name == "push" and len(a) == 1:
            def kp(t, ty, env):
                if ty != "winval":
                    die("%s: stack.push of %s" % (self.what, ty))
                st2 = self.fresh("stack")
                env2 = dict(env)
                env2["stack"] = (st2, "stack")
                return "let %s := %s :: %s in\n  %s" % (st2, t, env["stack"][0], k("tt", "unit", env2))
            return self.expr(a[0], env, kp)
        if recv == ("path", ["vars"]) and name == "insert" and len(a) == 2:
            def ki(ts, env):
                (kt, kty), (vt, vty) = ts
                if kty != "str" or vty not in ("u32", "int"):
                    die("%s: vars.insert(%s, %s)" % (self.what, kty, vty))
                m2 = self.fresh("vars")
                env2 = dict(env)
                env2["vars"] = (m2, "vars")
                return "let %s := vset %s %s %s in\n  %s" % (m2, kt, vt, env["vars"][0], k("tt", "unit", env2))
            return self.exprs(a, env, ki)
        if recv == ("path", ["vars"]) and name == "remove" and len(a) == 1:
            def kr(t, ty, env):
                if ty != "str":
                    die("%s: vars.remove(%s)" % (self.what, ty))
                m2 = self.fresh("vars")
                env2 = dict(env)
                env2["vars"] = (m2, "vars")
                return "let %s := vdel %s %s in\n  %s" % (m2, t, env["vars"][0], k("tt", "unit", env2))
            return self.expr(a[0], env, kr)
        if recv == ("path", ["expr"]) and name == "contains" and len(a) == 1 and a[0][0] == "chr":
            return k("(existsb (fun c => c =? %d) expr)" % ord(a[0][1]), "bool", env)

        def kr(t, ty, env):
            if name == "starts_with" and ty == "str" and len(a) == 1 and a[0][0] == "chr":
                return k("(g_starts_with %s %d)" % (t, ord(a[0][1])), "bool", env)
            if name == "into_int" and ty == "winval" and a == [("ref", ("path", ["vars"]))]:
                return k("(into_int %s %s)" % (env["vars"][0], t), ("opt", "u32"), env)
            if name == "into_var" and ty == "winval" and not a:
                return k("(into_var %s)" % t, ("opt", "str"), env)
            if name == "is_power_of_two" and ty in ("u32", "u64") and not a:
                return k("(is_pow2 %s)" % t, "bool", env)
            if name in ("wrapping_add", "wrapping_sub", "wrapping_mul", "wrapping_div", "wrapping_rem", "checked_add", "checked_sub") \
                    and len(a) == 1 and ty in ("u32", "u64"):
                def k2(t2, ty2, env):
                    if ty2 == "int":
                        ty2 = ty
                    if ty2 != ty:
                        die("%s: %s between %s and %s" % (self.what, name, ty, ty2))
                    w = "32" if ty == "u32" else "64"
                    if name == "checked_add":
                        return k("(checked_add %s %s %s)" % (w, t, t2), ("opt", ty), env)
                    if name == "checked_sub":
                        return k("(checked_sub %s %s)" % (t, t2), ("opt", ty), env)
                    if name in ("wrapping_div", "wrapping_rem"):
                        if self.mode != "out":
                            die("%s: %s where a panic cannot be expressed" % (self.what, name))
                        q = self.fresh("q")
                        return "do %s <- %s %s %s;\n  %s" % (q, "g_div" if name == "wrapping_div" else "g_rem", t, t2, k(q, ty, env))
                    op = {"wrapping_add": "+", "wrapping_sub": "-", "wrapping_mul": "*"}[name]
                    return k("(wrap%s (%s %s %s))" % (w, t, op, t2), ty, env)
                return self.expr(a[0], env, k2)
            die("%s: unknown method .%s/%d on %s" % (self.what, name, len(a), ty))
        return self.expr(recv, env, kr)

    def binop(self, e, env, k):
        op, l, r = e[1], e[2], e[3]
        if op in ("&&", "||") and contains_try(r):
            # short circuit with an effect on the right: the continuation is duplicated
            def kl(t, ty, env):
                if ty != "bool":
                    die("%s: %s on %s" % (self.what, op, ty))
                right = self.expr(r, env, lambda t2, ty2, env: k(t2, "bool", env))
                if op == "&&":
                    return "if %s then\n  %s\n  else\n  %s" % (t, right, k("false", "bool", env))
                return "if %s then\n  %s\n  else\n  %s" % (t, k("true", "bool", env), right)
            return self.expr(l, env, kl)

        def k2(ts, env):
            (a, ta), (b, tb) = ts
            if op in ("&&", "||"):
                if ta != "bool" or tb != "bool":
                    die("%s: %s on %s, %s" % (self.what, op, ta, tb))
                return k("(%s %s %s)" % (a, op, b), "bool", env)
            if op == "==" and ta == "str" and tb == "str":
                return k("(beq %s %s)" % (a, b), "bool", env)
            if ta == "int":
                ta = tb
            if tb == "int":
                tb = ta
            if ta != tb or ta not in ("u32", "u64"):
                die("%s: operator %s on %s and %s" % (self.what, op, ta, tb))
            if op == "==":
                return k("(%s =? %s)" % (a, b), "bool", env)
            if op == "!=":
                return k("(negb (%s =? %s))" % (a, b), "bool", env)
            if op == "&":
                return k("(Z.land %s %s)" % (a, b), ta, env)
            if op == "^":
                return k("(Z.lxor %s %s)" % (a, b), ta, env)
            if op == "-":
                if self.mode != "out":
                    die("%s: trapping subtraction where a panic cannot be expressed" % self.what)
                d = self.fresh("d")
                return "do %s <- chk_usub p PANIC_WIN_SUB %s %s;\n  %s" % (d, a, b, k(d, ta, env))
            die("%s: unsupported binary operator %s (trapping + and * are not used by the code the model was written for)" % (self.what, op))
        return self.exprs([l, r], env, k2)

    def branchy(self, e, env, k):
        """if / if let / block in expression position: k receives the value of each branch"""
        if e[0] == "block":
            return self.stmts(e[1], e[2], env, k)
        if e[0] == "if":
            def kc(t, ty, env):
                if ty != "bool":
                    die("%s: if on %s" % (self.what, ty))
                th = self.branchy(e[2], env, k)
                el = self.branchy(e[3], env, k) if e[3] is not None else k("tt", "unit", env)
                if t == "false":         # the short-circuited side of `a && b?`
                    return el
                if t == "true":
                    return th
                return "if %s then\n  %s\n  else\n  %s" % (t, th, el)
            return self.expr(e[1], env, kc)
        if e[0] == "iflet":
            pat, scrut, th, el = e[1], e[2], e[3], e[4]

            def ks(t, ty, env):
                pp, bind = pat[1], pat[2]
                elk = (lambda env: self.branchy(el, env, k)) if el is not None else (lambda env: k("tt", "unit", env))
                if pp == ["WinVal", "Undef"] and ty == "winval" and bind is None:
                    return "match %s with WUndef =>\n  %s\n  | _ =>\n  %s end" % (t, self.branchy(th, env, k), elk(env))
                if pp == ["Some"] and isinstance(ty, tuple) and ty[0] == "opt" and bind:
                    x = self.fresh(bind)
                    env2 = dict(env)
                    env2[bind] = (x, ty[1])
                    return "match %s with Some %s =>\n  %s\n  | None =>\n  %s end" % (t, x, self.branchy(th, env2, k), elk(env))
                if pp == ["Ok"] and isinstance(ty, tuple) and ty[0] == "res" and bind:
                    x = self.fresh(bind)
                    env2 = dict(env)
                    env2[bind] = (x, ty[1])
                    return "match %s with Some %s =>\n  %s\n  | None =>\n  %s end" % (t, x, self.branchy(th, env2, k), elk(env))
                die("%s: unsupported `if let %s` on %s" % (self.what, "::".join(pp), ty))
            return self.expr(scrut, env, ks)
        die("%s: internal: branchy on %s" % (self.what, e[0]))

    def stmts(self, ss, tail, env, k):
        """k(term, type, env) receives the block's value (tail expression, or unit)"""
        if not ss:
            if tail is None:
                return k("tt", "unit", env)
            return self.expr(tail, env, k)
        s, rest = ss[0], ss[1:]
        if s[0] == "let":
            def kl(t, ty, env):
                env2 = dict(env)
                if re.match(r"^[A-Za-z_0-9']+$", t):
                    env2[s[1]] = (t, ty)
                    return self.stmts(rest, tail, env2, k)
                x = self.fresh(s[1])
                env2[s[1]] = (x, ty)
                return "let %s := %s in\n  %s" % (x, t, self.stmts(rest, tail, env2, k))
            return self.expr(s[3], env, kl)
        if s[0] == "assign":
            if s[1] not in env:
                die("%s: assignment to unknown variable %s" % (self.what, s[1]))

            def ka(t, ty, env):
                if ty != env[s[1]][1]:
                    die("%s: assignment changes the type of %s (%s -> %s)" % (self.what, s[1], env[s[1]][1], ty))
                env2 = dict(env)
                if re.match(r"^[A-Za-z_0-9']+$", t):
                    env2[s[1]] = (t, ty)
                    return self.stmts(rest, tail, env2, k)
                x = self.fresh(s[1])
                env2[s[1]] = (x, ty)
                return "let %s := %s in\n  %s" % (x, t, self.stmts(rest, tail, env2, k))
            return self.expr(s[2], env, ka)
        if s[0] == "return":
            if s[1] != ("path", ["None"]):
                die("%s: only `return None;` is understood" % self.what)
            return self.fail(env)
        if s[0] == "expr":
            return self.expr(s[1], env, lambda t, ty, env: self.stmts(rest, tail, env, k))
        die("%s: unsupported statement %s" % (self.what, s[0]))


# =============================================================================== the source
walker_rs = open(os.path.join(repo, "breakpad-symbols/src/sym_file/walker.rs")).read()
mod_rs = open(os.path.join(repo, "breakpad-symbols/src/sym_file/mod.rs")).read()
# only the non-test part of the file
cut = walker_rs.find("#[cfg(test)]\nmod ")
main_rs = walker_rs if cut < 0 else walker_rs[:cut]

# ---- win_frame_size
sig, body = fn_body(main_rs, r"\nfn win_frame_size\(", "win_frame_size")
if norm(sig) != norm("fn win_frame_size(info: &StackInfoWin, grand_callee_param_size: u32) -> Option<u32>"):
    die("win_frame_size: signature changed: " + norm(sig))
b = parse_block(body, "win_frame_size")
g = Gen("opt", "win_frame_size")
frame_size_def = g.stmts(b[1], b[2], {"grand_callee_param_size": ("gcps", "u32")},
                         lambda t, ty, env: t if ty == ("opt", "u32") else die("win_frame_size: result type %s" % (ty,)))

# ---- clear_stack_win_caller_registers
sig, body = fn_body(main_rs, r"\nfn clear_stack_win_caller_registers\(", "clear_stack_win_caller_registers")
if norm(sig) != norm("fn clear_stack_win_caller_registers(walker: &mut dyn FrameWalker)"):
    die("clear_stack_win_caller_registers: signature changed")
m = re.match(r"^letoutput_regs=\[((?:\"[^\"\\]*\",?)*)\];forreginoutput_regs\{walker\.clear_caller_register\(reg\);\}$", norm(body))
if not m:
    die("clear_stack_win_caller_registers: body changed: " + norm(body))
clear_names = re.findall(r"\"([^\"]*)\"", m.group(1))

# ---- walk_with_stack_win_framedata (pinned)
sig, body = fn_body(main_rs, r"\npub fn walk_with_stack_win_framedata\(", "walk_with_stack_win_framedata")
if norm(sig) != norm("pub fn walk_with_stack_win_framedata(info: &StackInfoWin, walker: &mut dyn FrameWalker,) -> Option<()>"):
    die("walk_with_stack_win_framedata: signature changed")
body_nt = re.sub(r"\b(trace|debug)!\([^;]*\);", "", re.sub(r"//[^\n]*", "", body))
if norm(body_nt) != norm("""if let WinStackThing::ProgramString(ref expr) = info.program_string_or_base_pointer {
        clear_stack_win_caller_registers(walker); eval_win_expr(expr, info, walker) } else { unreachable!() }"""):
    die("walk_with_stack_win_framedata: body changed: " + norm(body_nt))

# ---- eval_win_expr
sig, body = fn_body(main_rs, r"\nfn eval_win_expr\(", "eval_win_expr")
if norm(sig) != norm("fn eval_win_expr(expr: &str, info: &StackInfoWin, walker: &mut dyn FrameWalker) -> Option<()>"):
    die("eval_win_expr: signature changed: " + norm(sig))
body = re.sub(r"//[^\n]*", "", body)
# the tokenizer closure (shared with the documented semantics: win_tokens) is pinned
mt = re.search(r"let tokens = expr\b.*?\.flatten\(\);", body, re.S)
if not mt or norm(mt.group(0)) != norm("""let tokens = expr.split_ascii_whitespace().flat_map(|x| { if x.starts_with('=') && x.len() > 1 {
        [Some(&x[0..1]), Some(&x[1..])] } else { [Some(x), None] } }).flatten();"""):
    die("eval_win_expr: the tokenizer (`let tokens = ...flatten();`) changed")
body = body[:mt.start()] + "let tokens = PINNED_TOKENS;" + body[mt.end():]
# the output loop is pinned (the list itself is translated)
mo0 = body.find("for reg in &output_regs")
if mo0 < 0:
    die("eval_win_expr: `for reg in &output_regs` not found")
mo1 = balanced(body, body.index("{", mo0), "{", "}")
if norm(body[mo0:mo1]) != norm("""for reg in &output_regs { if let Some(&val) = vars.get(reg) {
        walker.set_caller_register(&reg[1..], val as u64)?; } }"""):
    die("eval_win_expr: the output loop changed")
body = body[:mo0] + "PINNED_OUTPUT_LOOP;" + body[mo1:]
b = parse_block(body, "eval_win_expr")
stm, tail = b[1], b[2]
if tail != ("call", ["Some"], [("unit",)]):
    die("eval_win_expr: does not end in Some(())")
# shape: let mut vars = HashMap::new(); <prologue> let mut stack = Vec::new(); let tokens; for token in tokens {match}; let output_regs = [..]; loop
if not stm or stm[0] != ("let", "vars", True, ("call", ["HashMap", "new"], [])):
    die("eval_win_expr: does not start with `let mut vars = HashMap::new();`")
idx = [j for j, s in enumerate(stm) if s[0] == "let" and s[1] == "stack"]
if len(idx) != 1 or stm[idx[0]] != ("let", "stack", True, ("call", ["Vec", "new"], [])):
    die("eval_win_expr: `let mut stack: Vec<WinVal> = Vec::new();` not found")
j = idx[0]
prologue, rest = stm[1:j], stm[j + 1:]
if len(rest) != 4 or rest[0] != ("let", "tokens", False, ("path", ["PINNED_TOKENS"])) or rest[1][0] != "for" \
        or rest[2][0] != "let" or rest[2][1] != "output_regs" or rest[3] != ("expr", ("path", ["PINNED_OUTPUT_LOOP"])):
    die("eval_win_expr: statements after the prologue are not [tokens, token loop, output_regs, output loop]")
floop = rest[1]
if floop[1] != "token" or floop[2] != ("path", ["tokens"]):
    die("eval_win_expr: the token loop is not `for token in tokens`")
fb = floop[3]
if fb[1] or fb[2] is None or fb[2][0] != "match" or fb[2][1] != ("path", ["token"]):
    die("eval_win_expr: the token loop body is not a single `match token`")
arms = fb[2][2]
if rest[2][3][0] != "array" or any(x[0] != "str" for x in rest[2][3][1]):
    die("eval_win_expr: output_regs is not an array of string literals")
output_regs = [x[1] for x in rest[2][3][1]]
if any(len(x) < 2 for x in output_regs):
    die("eval_win_expr: output register name too short for &reg[1..]")

g = Gen("opt", "eval_win_expr prologue")
initial_def = g.stmts(prologue, None, {"vars": ("[]", "vars")},
                      lambda t, ty, env: "Some %s" % env["vars"][0])
# the arms
seen, arm_defs, wild = set(), [], None
for pat, blk in arms:
    g = Gen("out", "eval_win_expr arm %s" % (pat[1] if pat[0] == "str" else "_"))
    code = g.stmts(blk[1], blk[2], {"vars": ("vars", "vars"), "stack": ("stack", "stack"), "token": ("token", "str")},
                   lambda t, ty, env: "Ret (%s, %s)" % (env["vars"][0], env["stack"][0]))
    if pat[0] == "wild":
        if wild is not None:
            die("eval_win_expr: two `_` arms")
        wild = code
    else:
        if wild is not None:
            die("eval_win_expr: arm after `_`")
        if pat[1] in seen:
            die("eval_win_expr: duplicate arm %r" % pat[1])
        seen.add(pat[1])
        arm_defs.append((pat[1], code))
if wild is None:
    die("eval_win_expr: no `_` arm")

# ---- walk_with_stack_win_fpo
sig, body = fn_body(main_rs, r"\npub fn walk_with_stack_win_fpo\(", "walk_with_stack_win_fpo")
if norm(sig) != norm("pub fn walk_with_stack_win_fpo(info: &StackInfoWin, walker: &mut dyn FrameWalker) -> Option<()>"):
    die("walk_with_stack_win_fpo: signature changed")
b = parse_block(body, "walk_with_stack_win_fpo")
if b[1] or b[2] is None or b[2][0] != "iflet" or b[2][1] != ("pat", ["WinStackThing", "AllocatesBasePointer"], "allocates_base_pointer") \
        or b[2][2] != ("field", ("path", ["info"]), "program_string_or_base_pointer") \
        or b[2][4] != ("block", [], ("macro", "unreachable")):
    die("walk_with_stack_win_fpo: outer `if let WinStackThing::AllocatesBasePointer(..) = info.program_string_or_base_pointer {..} else { unreachable!() }` changed")
inner = b[2][3]
if inner[2] != ("call", ["Some"], [("unit",)]):
    die("walk_with_stack_win_fpo: does not end in Some(())")
g = Gen("st", "walk_with_stack_win_fpo")
fpo_def = g.stmts(inner[1], None, {"__s": ("s", "state"), "allocates_base_pointer": ("abp", "bool")},
                  lambda t, ty, env: "(%s, true)" % env["__s"][0])

# ---- SymbolFile::walk_frame: framedata, then fpo, then STACK CFI (pinned)
sig, body = fn_body(mod_rs, r"\n    pub fn walk_frame\(", "SymbolFile::walk_frame")
body_n = norm(re.sub(r"\b(trace|debug)!\([^;]*\);", "", re.sub(r"//[^\n]*", "", body)))
PIN_WF = norm("""if walker.get_instruction() < module.base_address() { return None; }
        let addr = walker.get_instruction() - module.base_address();
        let win_stack_result = if let Some(info) = self.win_stack_framedata_info.get(addr) {
            walker::walk_with_stack_win_framedata(info, walker)
        } else if let Some(info) = self.win_stack_fpo_info.get(addr) {
            walker::walk_with_stack_win_fpo(info, walker)
        } else { None };""")
if not body_n.startswith(PIN_WF):
    die("SymbolFile::walk_frame: the STACK WIN part (framedata preferred over fpo) changed: " + body_n[:400])
rest_wf = body_n[len(PIN_WF):]
if not rest_wf.startswith("win_stack_result.or_else(||{") or "walk_with_stack_cfi" not in rest_wf:
    die("SymbolFile::walk_frame: STACK CFI is no longer tried exactly when STACK WIN failed: " + rest_wf[:300])
# second pass of round 5: the fallback closure itself — nothing but the STACK CFI lookup at the same address decides
# whether STACK CFI is tried (the add_rules selection inside belongs to C06 and is not pinned here)
PIN_CFI_HEAD = norm("win_stack_result.or_else(|| { if let Some(info) = self.cfi_stack_info.get(addr) {")
PIN_CFI_TAIL = norm("walker::walk_with_stack_cfi(&info.init, &info.add_rules[0..count], walker) } else { None } })")
if not rest_wf.startswith(PIN_CFI_HEAD) or not rest_wf.endswith(PIN_CFI_TAIL) or rest_wf.count("return") != 0 \
        or rest_wf.count("walk_with_stack_") != 1:
    die("SymbolFile::walk_frame: the STACK CFI fallback is no longer `cfi_stack_info.get(addr)` -> walk_with_stack_cfi / None: " + rest_wf[:400])


def indent(code, n):
    return "\n".join(" " * n + ln for ln in code.split("\n"))


step = ""
for name, code in arm_defs:
    step += "  if beq token %s (* %s *) then\n%s\n  else\n" % (blit(name), name, indent(code, 4))
step += indent(wild, 4)

out = """(* GENERATED by translate/c07_win_eval.py from breakpad-symbols/src/sym_file/walker.rs — do not edit *)
From RM Require Import Base.Word C06.Model C07.Model.
Open Scope Z_scope.

Definition PANIC_WIN_DIV : Z := 704.     (* u32::wrapping_div / wrapping_rem with a zero divisor *)
Definition g_div (l r : Z) : outcome Z := if r =? 0 then Panic PANIC_WIN_DIV else Ret (l / r).
Definition g_rem (l r : Z) : outcome Z := if r =? 0 then Panic PANIC_WIN_DIV else Ret (l mod r).
Definition g_starts_with (t : bytes) (c : Z) : bool := match t with x :: _ => x =? c | [] => false end.

(* fn win_frame_size *)
Definition g_win_frame_size (i : win_info) (gcps : Z) : option Z :=
%s.

(* fn clear_stack_win_caller_registers: the names passed to clear_caller_register *)
Definition g_clear_names : list bytes := [%s].
(* %s *)

(* fn eval_win_expr: `output_regs`; each is set under the name `&reg[1..]` *)
Definition g_win_outputs : list (bytes * bytes) := [%s].
(* %s *)

(* fn eval_win_expr, up to the token loop: the variables before the program runs (None = a `?` gave up) *)
Definition g_win_initial_vars (E : env) (i : win_info) (expr : bytes) : option vars :=
%s.

(* fn eval_win_expr, one iteration of `for token in tokens { match token {..} }` *)
Definition g_win_step (p : profile) (E : env) (token : bytes) (ms : vars * list winval) : outcome (vars * list winval) :=
  let '(vars, stack) := ms in
%s.

(* fn walk_with_stack_win_fpo (inside `if let AllocatesBasePointer(abp)`): (walker state reached, Some(()) / None) *)
Definition g_walk_win_fpo {S : Type} (ops : wops S) (E : env) (i : win_info) (abp : bool) (s : S) : S * bool :=
%s.
""" % (indent(frame_size_def, 2),
       "; ".join(blit(n) for n in clear_names), " ".join(clear_names),
       "; ".join("(%s, %s)" % (blit(n), blit(n[1:])) for n in output_regs), " ".join(output_regs),
       indent(initial_def, 2), step, indent(fpo_def, 2))
if "UNREACHABLE" in out:
    die("unreachable!() in a translated position")
path = os.path.join(outdir, "C07WinEval.v")
os.makedirs(outdir, exist_ok=True)
try:
    if open(path).read() == out:
        sys.exit(0)
except OSError:
    pass
open(path, "w").write(out)
