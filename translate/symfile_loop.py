#!/usr/bin/env python3
"""Translator: the loop of SymbolFile::parse / parse_async (breakpad-symbols/src/sym_file/mod.rs) and the index
arithmetic of circular::Buffer (the version Cargo.lock pins) -> coq/Gen/SymFileLoop.v
argv: <repo> <outdir>.

What is extracted (and then proved equal to the hand-written model in coq/C09/Pins.v):
  * the two capacity constants;
  * the statement skeleton of both loops (matched against a template: any change of the order of
    callback / consume / total_consumed / flag assignments, of the slices given to the callback, of the error
    messages, of `continue` / `return` makes this translator abort);
  * every *condition* and every flag right-hand side of the loops, translated from the Rust expression into Gallina
    over the observation record [obs] (sync and async separately);
  * circular::Buffer: min / shift conditions of consume, fill, grow, shift; the slices of data() / space().
Aborts loudly on anything it does not recognise."""
import glob
import os
import re
import sys

repo, outdir = sys.argv[1], sys.argv[2]


def die(msg):
    sys.stderr.write("symfile_loop.py: " + msg + "\n")
    sys.exit(1)


# --------------------------------------------------------------------------- Rust expression -> Gallina
TOK = re.compile(r"\s*(&&|\|\||==|!=|<=|>=|[!<>+\-*/(),]|\d[\d_]*|cmp::min|[A-Za-z_][A-Za-z0-9_]*(?:\(\))?(?:\.[A-Za-z_][A-Za-z0-9_]*(?:\(\))?)*)")


class Expr:
    """recursive descent; every node is (coq text, type) with type 'b' or 'z'"""

    def __init__(self, text, atoms, where):
        self.toks, self.i, self.atoms, self.where, self.text = [], 0, atoms, where, text
        pos = 0
        text = text.strip()
        while pos < len(text):
            m = TOK.match(text, pos)
            if not m:
                die("%s: cannot tokenise `%s` at `%s`" % (where, text, text[pos:pos + 20]))
            self.toks.append(m.group(1))
            pos = m.end()

    def peek(self):
        return self.toks[self.i] if self.i < len(self.toks) else None

    def eat(self, t=None):
        x = self.peek()
        if x is None or (t is not None and x != t):
            die("%s: expected %s in `%s`" % (self.where, t or "a token", self.text))
        self.i += 1
        return x

    def want(self, node, ty):
        if node[1] != ty:
            die("%s: `%s` has the wrong type in `%s`" % (self.where, node[0], self.text))
        return node[0]

    def parse(self, ty):
        n = self.p_or()
        if self.peek() is not None:
            die("%s: trailing `%s` in `%s`" % (self.where, self.peek(), self.text))
        return self.want(n, ty)

    def p_or(self):
        n = self.p_and()
        while self.peek() == "||":
            self.eat()
            r = self.p_and()
            n = ("(%s || %s)" % (self.want(n, "b"), self.want(r, "b")), "b")
        return n

    def p_and(self):
        n = self.p_not()
        while self.peek() == "&&":
            self.eat()
            r = self.p_not()
            n = ("(%s && %s)" % (self.want(n, "b"), self.want(r, "b")), "b")
        return n

    def p_not(self):
        if self.peek() == "!":
            self.eat()
            return ("negb (%s)" % self.want(self.p_not(), "b"), "b")
        return self.p_cmp()

    def p_cmp(self):
        a = self.p_sum()
        op = self.peek()
        if op in ("==", "!=", "<", ">", "<=", ">="):
            self.eat()
            b = self.p_sum()
            x, y = self.want(a, "z"), self.want(b, "z")
            return ({"==": "(%s =? %s)" % (x, y), "!=": "negb (%s =? %s)" % (x, y), "<": "(%s <? %s)" % (x, y),
                     ">": "(%s <? %s)" % (y, x), "<=": "(%s <=? %s)" % (x, y), ">=": "(%s <=? %s)" % (y, x)}[op], "b")
        return a

    def p_sum(self):
        n = self.p_term()
        while self.peek() in ("+", "-"):
            op = self.eat()
            if op == "-":
                die("%s: subtraction (a trap site) is not expected in `%s`" % (self.where, self.text))
            r = self.p_term()
            n = ("(%s + %s)" % (self.want(n, "z"), self.want(r, "z")), "z")
        return n

    def p_term(self):
        n = self.p_atom()
        while self.peek() in ("*", "/"):
            op = self.eat()
            r = self.p_atom()
            n = ("(%s %s %s)" % (self.want(n, "z"), op, self.want(r, "z")), "z")
        return n

    def p_atom(self):
        t = self.eat()
        if t == "(":
            n = self.p_or()
            self.eat(")")
            return n
        if t == "cmp::min":
            self.eat("(")
            a = self.p_sum()
            self.eat(",")
            b = self.p_sum()
            self.eat(")")
            return ("(Z.min %s %s)" % (self.want(a, "z"), self.want(b, "z")), "z")
        if re.fullmatch(r"\d[\d_]*", t):
            return (t.replace("_", ""), "z")
        if t in ("true", "false"):
            return (t, "b")
        if t in self.atoms:
            return self.atoms[t]
        die("%s: unknown operand `%s` in `%s`" % (self.where, t, self.text))


def tr(text, atoms, ty, where):
    return Expr(text, atoms, where).parse(ty)


def strip(src):
    src = re.sub(r"//[^\n]*", "", src)
    src = re.sub(r"trace!\((?:[^()]|\((?:[^()]|\([^()]*\))*\))*\);", "", src)
    return re.sub(r"\s+", "", src)


def block_after(src, marker, opener):
    """text between the braces of the first `opener` after `marker`"""
    try:
        i = src.index(marker)
        j = src.index(opener, i) + len(opener)
    except ValueError:
        die("cannot find `%s` ... `%s`" % (marker, opener))
    depth, k = 1, j
    while depth:
        if k >= len(src):
            die("unbalanced braces after " + marker)
        depth += {"{": 1, "}": -1}.get(src[k], 0)
        k += 1
    return src[j:k - 1]


def template_regex(tpl):
    """template with <name> holes -> compiled regex over whitespace-free text"""
    parts = re.split(r"<([a-z_0-9]+)>", re.sub(r"\s+", "", tpl))
    rx = ""
    for n, p in enumerate(parts):
        rx += ("(?P<%s>[^{};]+?)" % p) if n % 2 else re.escape(p)
    return re.compile(rx)


# --------------------------------------------------------------------------- mod.rs
mod = open(os.path.join(repo, "breakpad-symbols/src/sym_file/mod.rs")).read()
consts = {}
for name in ("MAX_BUFFER_CAPACITY", "INITIAL_BUFFER_CAPACITY"):
    m = re.search(r"static\s+%s\s*:\s*usize\s*=\s*([0-9_* ]+);" % name, mod)
    if not m:
        die("constant %s: not a product of integer literals" % name)
    v = 1
    for f in m.group(1).split("*"):
        v *= int(f.strip().replace("_", ""))
    consts[name] = v

LOOP_TPL = """
if in_panic_recovery {
  let input = buf.data();
  if let Some(new_line_idx) = input.iter().position(|&byte| byte == b'\\n') {
    let amount = new_line_idx + 1;
    callback(&input[..amount]); buf.consume(amount); total_consumed += amount as u64;
    in_panic_recovery = false; fully_consumed = <fc_rec>; just_finished_recovering = true; parser.lines += 1;
  } else {
    let amount = input.len();
    callback(&input[..amount]); buf.consume(amount); total_consumed += amount as u64;
    fully_consumed = <fc_disc>;
  }
}
@REFILL@
let buffer_full = <bfull>;
let size = input_reader.read(buf.space())?;
buf.fill(size);
if size == 0 {
  if <c_resume> { }
  else if <c_ok> { return Ok(parser.finish()); }
  else if <c_grow> {
    let new_cap = buf.capacity().saturating_mul(<factor>);
    if <c_recover> { in_panic_recovery = true; continue; }
    buf.grow(new_cap); tried_to_grow = true; continue;
  } else if <c_empty> {
    return Err(SymbolError::ParseError("empty SymbolFile (probably something wrong with your debuginfo tooling?)", 0,));
  } else {
    return Err(SymbolError::ParseError("unexpected EOF during parsing of SymbolFile (or a line was too long?)", parser.lines,));
  }
} else { tried_to_grow = <tg_read>; }
if in_panic_recovery { continue; }
just_finished_recovering = <jf_parse>;
let input = buf.data();
let consumed = parser.parse_more(input)?;
total_consumed += consumed as u64;
callback(&input[..consumed]);
fully_consumed = <fc_parse>;
buf.consume(consumed);
"""
# parse_async's refill block: the form since the F-C10c fix (empty chunks are skipped), or the form before it (so that a
# scratch checkout of an older commit still translates).  What the block DOES is modelled in coq/C10/Stream.v and pinned to
# this text by translate/c10_stream.py; here it only has to be recognised and cut out.
REFILL = ["if input_reader.is_empty() { chunk = loop { match response.chunk().await.map_err(std::io::Error::other)? { "
          "Some(bytes) if bytes.is_empty() => continue, next => break next.unwrap_or_default(), } }; "
          "slice = &chunk[..]; input_reader = &mut slice; }",
          "if input_reader.is_empty() { chunk = response.chunk().await.map_err(std::io::Error::other)?.unwrap_or_default(); "
          "slice = &chunk[..]; input_reader = &mut slice; }"]
PROLOGUE = ("let mut buf = circular::Buffer::with_capacity(INITIAL_BUFFER_CAPACITY); let mut parser = SymbolParser::new(); "
            "let mut fully_consumed = false; let mut tried_to_grow = false; let mut in_panic_recovery = false; "
            "let mut just_finished_recovering = false; let mut total_consumed = 0u64; loop {")
ASYNC_PROLOGUE = "let mut chunk; let mut slice = &[][..]; let mut input_reader = &mut slice; "

MOD_ATOMS = {
    "just_finished_recovering": ("ob_jf o", "b"), "fully_consumed": ("ob_fc o", "b"), "tried_to_grow": ("ob_tg o", "b"),
    "in_panic_recovery": ("ob_pr o", "b"), "buffer_full": ("ob_bfull o", "b"),
    "buf.data().is_empty()": ("(ob_avail o =? 0)", "b"),
    "buf.available_data()": ("ob_avail o", "z"), "buf.available_space()": ("ob_space o", "z"), "buf.capacity()": ("ob_cap o", "z"),
    "total_consumed": ("ob_total o", "z"), "new_cap": ("ob_newcap o", "z"), "MAX_BUFFER_CAPACITY": ("MAX_BUFFER_CAPACITY", "z"),
    "INITIAL_BUFFER_CAPACITY": ("INITIAL_BUFFER_CAPACITY", "z"), "input.len()": ("ob_len o", "z"), "consumed": ("ob_consumed o", "z"),
}
HOLES = [("fc_rec", "b"), ("fc_disc", "b"), ("bfull", "b"), ("c_resume", "b"), ("c_ok", "b"), ("c_grow", "b"), ("factor", "z"),
         ("c_recover", "b"), ("c_empty", "b"), ("tg_read", "b"), ("jf_parse", "b"), ("fc_parse", "b")]


def loop_of(fn_marker, refill, prologue, what):
    body = block_after(mod, fn_marker, ") -> Result<SymbolFile, SymbolError> {")
    flat = strip(body)
    pro = re.sub(r"\s+", "", prologue)
    if not flat.startswith(pro):
        k = next((i for i, (x, y) in enumerate(zip(flat, pro)) if x != y), min(len(flat), len(pro)))
        die("%s: the declarations before `loop` changed near `%s` (expected `%s`)" % (what, flat[max(0, k - 30):k + 40], pro[max(0, k - 30):k + 40]))
    loop = strip(block_after(body, "let mut total_consumed", "loop {"))
    m = None
    for alt in ([refill] if isinstance(refill, str) else refill):
        m = template_regex(LOOP_TPL.replace("@REFILL@", alt)).fullmatch(loop)
        if m:
            refill = alt
            break
    if not m:
        refill = refill if isinstance(refill, str) else refill[0]
        # find how far the template matches, for the message
        tpl_flat = re.sub(r"<[a-z_0-9]+>", "\x00", re.sub(r"\s+", "", LOOP_TPL.replace("@REFILL@", refill)))
        lo = 0
        for piece in tpl_flat.split("\x00"):
            p = loop.find(piece, lo)
            if p < 0:
                die("%s: loop body no longer has the recognised statement skeleton; first unmatched piece: `%s`" % (what, piece[:160]))
            lo = p + len(piece)
        die("%s: loop body no longer has the recognised statement skeleton" % what)
    return {h: tr(m.group(h), MOD_ATOMS, ty, "%s/%s" % (what, h)) for h, ty in HOLES}


sync = loop_of("pub fn parse<R: Read>(", "", PROLOGUE, "parse")
asyn = loop_of("pub async fn parse_async(", REFILL, ASYNC_PROLOGUE + PROLOGUE, "parse_async")

# --------------------------------------------------------------------------- circular::Buffer
lock = open(os.path.join(repo, "Cargo.lock")).read()
m = re.search(r'name = "circular"\nversion = "([^"]+)"\nsource = "[^"]+"\nchecksum = "([0-9a-f]+)"', lock)
if not m:
    die("Cargo.lock: no registry entry for the circular crate")
cver, csum = m.group(1), m.group(2)
cands = sorted(glob.glob(os.path.expanduser("~/.cargo/registry/src/*/circular-%s/src/lib.rs" % cver)))
if not cands:
    die("source of circular %s not found in the cargo registry" % cver)
circ = open(cands[0]).read()
CIRC_ATOMS = {"self.position": ("pos", "z"), "self.capacity": ("cap", "z"), "self.end": ("end_", "z"), "count": ("count", "z"),
              "cnt": ("cnt", "z"), "new_size": ("new_size", "z"), "self.available_data()": ("avail", "z"),
              "self.available_space()": ("space", "z")}
CIRC_TPL = {
    "consume": ("pub fn consume(&mut self, count: usize) -> usize {",
                "let cnt = <cnt>; self.position += cnt; if <shift> { self.shift(); } cnt"),
    "fill": ("pub fn fill(&mut self, count: usize) -> usize {",
             "let cnt = <cnt>; self.end += cnt; if <shift> { self.shift(); } cnt"),
    "grow": ("pub fn grow(&mut self, new_size: usize) -> bool {",
             "if <noop> { return false; } self.memory.resize(new_size, 0); self.capacity = new_size; true"),
    "shift": ("pub fn shift(&mut self) {",
              "if <cond> { unsafe { let length = self.end - self.position; ptr::copy( (&self.memory[self.position..self.end]).as_ptr(), "
              "(&mut self.memory[..length]).as_mut_ptr(), length); self.position = 0; self.end = length; } }"),
    "available_data": ("pub fn available_data(&self) -> usize {", "self.end - self.position"),
    "available_space": ("pub fn available_space(&self) -> usize {", "self.capacity - self.end"),
    "capacity": ("pub fn capacity(&self) -> usize {", "self.capacity"),
    "data": ("pub fn data(&self) -> &[u8] {", "&self.memory[self.position..self.end]"),
    "space": ("pub fn space(&mut self) -> &mut[u8] {", "&mut self.memory[self.end..self.capacity]"),
    "with_capacity": ("pub fn with_capacity(capacity: usize) -> Buffer {",
                      "let mut v = Vec::with_capacity(capacity); v.extend(repeat(0).take(capacity)); "
                      "Buffer { memory: v, capacity: capacity, position: 0, end: 0 }"),
}
cm = {}
for fn, (sig, tpl) in CIRC_TPL.items():
    body = strip(block_after(circ, sig, sig))
    mm = template_regex(tpl).fullmatch(body)
    if not mm:
        die("circular %s: body of %s() is not the recognised one: `%s`" % (cver, fn, body[:300]))
    cm[fn] = mm.groupdict()

out = """(* GENERATED by translate/symfile_loop.py from breakpad-symbols/src/sym_file/mod.rs and circular %(cver)s
   (Cargo.lock checksum %(csum)s) — do not edit *)
From Coq Require Import ZArith Bool. Open Scope Z_scope. Open Scope bool_scope.
Definition INITIAL_BUFFER_CAPACITY : Z := %(init)d.
Definition MAX_BUFFER_CAPACITY : Z := %(max)d.
(* what the conditions of the loop look at *)
Record obs := mk_obs {
  ob_jf : bool; ob_fc : bool; ob_tg : bool; ob_pr : bool; ob_bfull : bool;
  ob_avail : Z; ob_space : Z; ob_cap : Z; ob_total : Z; ob_newcap : Z; ob_len : Z; ob_consumed : Z }.
""" % {"cver": cver, "csum": csum, "init": consts["INITIAL_BUFFER_CAPACITY"], "max": consts["MAX_BUFFER_CAPACITY"]}
for pre, d in (("sync", sync), ("async", asyn)):
    for h, ty in HOLES:
        out += "Definition %s_%s (o : obs) : %s := %s.\n" % (pre, h, "bool" if ty == "b" else "Z", d[h])
out += "(* circular::Buffer *)\n"
out += "Definition circ_consume_cnt (count avail : Z) : Z := %s.\n" % tr(cm["consume"]["cnt"], CIRC_ATOMS, "z", "circular/consume")
out += "Definition circ_consume_shift (pos cap : Z) : bool := %s.\n" % tr(cm["consume"]["shift"], CIRC_ATOMS, "b", "circular/consume")
out += "Definition circ_fill_cnt (count space : Z) : Z := %s.\n" % tr(cm["fill"]["cnt"], CIRC_ATOMS, "z", "circular/fill")
out += "Definition circ_fill_shift (space avail cnt : Z) : bool := %s.\n" % tr(cm["fill"]["shift"], CIRC_ATOMS, "b", "circular/fill")
out += "Definition circ_grow_noop (cap new_size : Z) : bool := %s.\n" % tr(cm["grow"]["noop"], CIRC_ATOMS, "b", "circular/grow")
out += "Definition circ_shift_cond (pos : Z) : bool := %s.\n" % tr(cm["shift"]["cond"], CIRC_ATOMS, "b", "circular/shift")

os.makedirs(outdir, exist_ok=True)
p = os.path.join(outdir, "SymFileLoop.v")
try:
    same = open(p).read() == out
except OSError:
    same = False
if not same:
    open(p, "w").write(out)
