#!/usr/bin/env python3
"""c20_wiring.py <repo> <outdir>  ->  <outdir>/C20Wiring.v

Textual tie for the parts of minidump-stackwalk/src/main.rs::main_result that the C20 model takes as given:
  * how the three file sinks are opened (--log-file, --cyborg, --output-file): each by std::fs::File::create, and
    nothing else in the file opens, creates or writes a file;
  * how cli.symbols_path / cli.symbols_path_legacy / cli.symbols_url / --symbols-cache / --symbols-tmp / the download
    timeout reach http_symbol_supplier / simple_symbol_supplier: the two path vectors concatenated in that order and
    passed on untouched (every occurrence of `symbols_paths` must be one of the five recognised ones);
  * which ProcessorOptions preset each --features value selects and which fields are then overridden from the
    command line, and the call that receives them.
The shapes are written to Gen/C20Wiring.v, where C20/Wiring.v pins them (c20_wiring_pinned) and the model's
constants are defined from them.  Anything unrecognised (an OpenOptions, a sort of the path list, a new override)
aborts with exit status 2: the check then records a broken obligation and the search for a failing input goes on."""
import os
import re
import sys


def die(msg):
    sys.stderr.write("c20_wiring.py: %s\n" % msg)
    sys.exit(2)


def strip_comments(src):
    out = []
    for line in src.split("\n"):
        i = line.find("//")
        out.append(line if i < 0 else line[:i])
    return "\n".join(out)


def norm(s):
    return re.sub(r"\s+", "", s)


def count(word, body):
    return len(re.findall(r"(?<![\w.])%s\b" % re.escape(word), body))


def main():
    repo, outdir = sys.argv[1], sys.argv[2]
    full = open(os.path.join(repo, "minidump-stackwalk", "src", "main.rs")).read()
    m = re.search(r"^async fn main_result\(\) -> std::io::Result<\(\)> \{\n", full, re.M)
    if not m:
        die("async fn main_result() not found")
    end = full.find("\n}\n", m.end())
    if end < 0:
        die("end of main_result not found")
    body = re.sub(r"\s+\.(?=\w)", ".", strip_comments(full[m.end():end]))      # method chains on one line
    code = strip_comments(full)
    nb = norm(body)

    # ---------------------------------------------------------------- file sinks
    if re.search(r"\bOpenOptions\b", code):
        die("OpenOptions used in main.rs: the model knows the sinks as File::create (create + truncate) only")
    uses = re.findall(r"^use std::fs[^;]*;", code, re.M)
    if uses != ["use std::fs::File;"]:
        die("unrecognised imports from std::fs: %r (expected exactly `use std::fs::File;`)" % uses)
    if re.search(r"\b(std::)?fs::(?!File;)", code):
        die("a std::fs function is used in main.rs: %r" % re.findall(r".*\bfs::(?!File;).*", code)[:2])
    opens = [(mm.start(), mm.group(0)) for mm in re.finditer(r"\bFile::\w+", code)]
    if [o for _p, o in opens] != ["File::create"] * 3:
        die("expected exactly three File::create and no other File:: call, found %r" % [o for _p, o in opens])
    if len(re.findall(r"\bFile::\w+", body)) != 3:
        die("a File:: call outside main_result")
    shapes = [
        ("log_file", r"if let Some\(log_path\) = &cli\.log_file \{\s*let log_file = File::create\(log_path\)\?;"),
        ("cyborg", r"let cyborg_output_f = cli\.cyborg\.map\(File::create\)\.transpose\(\)\?;"),
        ("output_file", r"if let Some\(output_path\) = cli\.output_file \{\s*output_f = File::create\(output_path\)\?;\s*&mut output_f\s*\}"),
    ]
    found = []
    for name, rx in shapes:
        ms = list(re.finditer(rx, body))
        if len(ms) != 1:
            die("the open of the %s sink has an unrecognised shape (expected one match of /%s/)" % (name, rx))
        found.append((ms[0].start(), name))
    sink_opens = [(name, "File::create") for _p, name in sorted(found)]
    # every sink is opened before the first printer call (a File::create behind a report would leave that report on its
    # sink when the create fails: c20_sinks_opened_before_first_report_byte is proved for the model's order)
    printers = [mm.start() for mm in re.finditer(r"\bprint_minidump_dump\(|\bstate\.print(?:_brief|_json)?\(", body)]
    if len(printers) != 5:
        die("expected five printer calls in main_result (print_minidump_dump, print_brief, print, print_json twice), found %d" % len(printers))
    if max(pos for pos, _n in found) > min(printers):
        die("a sink is opened after a printer call: the model opens the log file, the cyborg file and the output file before any report byte")
    if count("log_file", body) != 2 or ".with_writer(log_file)" not in nb:
        die("log_file is used in an unrecognised way")
    if "ifletSome(mutcyborg_output_f)=cyborg_output_f{state.print_json(&mutcyborg_output_f,cli.pretty)?;}else{state.print_json(&mutoutput,cli.pretty)?;}" not in nb:
        die("the cyborg / primary dispatch of print_json has an unrecognised shape")
    if count("cyborg_output_f", body) != 4:
        die("cyborg_output_f is used in an unrecognised way (%d occurrences)" % count("cyborg_output_f", body))
    if count("output_f", body) != 3:
        die("output_f is used in an unrecognised way (%d occurrences)" % count("output_f", body))

    # ---------------------------------------------------------------- symbol sources
    want = [
        "letmutsymbols_paths=cli.symbols_path;",
        "symbols_paths.extend(cli.symbols_path_legacy);",
    ]
    if want[0] + want[1] not in nb:
        die("symbols_paths is not built as `cli.symbols_path` extended by `cli.symbols_path_legacy` in adjacent statements")
    http = re.search(r"if!cli\.symbols_url\.is_empty\(\)\{provider\.add\(Box::new\(Symbolizer::new\(http_symbol_supplier\(([^()]*)\)\)\)\);\}"
                     r"elseif!symbols_paths\.is_empty\(\)\{provider\.add\(Box::new\(Symbolizer::new\(simple_symbol_supplier\(([^()]*)\)\)\)\);\}", nb)
    if not http:
        die("the construction of the symbol suppliers has an unrecognised shape")
    http_args = [x for x in http.group(1).split(",") if x]
    simple_args = [x for x in http.group(2).split(",") if x]
    for word, n in (("symbols_paths", 5), ("cli.symbols_path", 1), ("cli.symbols_path_legacy", 1), ("cli.symbols_url", 2),
                    ("symbols_cache", 2), ("cli.symbols_cache", 1), ("symbols_tmp", 2), ("cli.symbols_tmp", 1), ("timeout", 2),
                    ("temp_dir", 4), ("http_symbol_supplier", 1), ("simple_symbol_supplier", 1)):
        k = len(re.findall(r"(?<![\w.])%s\b(?!_)" % re.escape(word), body))
        if k != n:
            lines = [l.strip() for l in body.split("\n") if re.search(r"(?<![\w.])%s\b(?!_)" % re.escape(word), l)]
            die("%s occurs %d times in main_result, %d recognised: %r" % (word, k, n, lines))
    for stmt in ("lettemp_dir=std::env::temp_dir();",
                 'letsymbols_cache=cli.symbols_cache.unwrap_or_else(||temp_dir.join("rust-minidump-cache"));',
                 "letsymbols_tmp=cli.symbols_tmp.unwrap_or(temp_dir);",
                 "lettimeout=Duration::from_secs(cli.symbols_download_timeout_secs);"):
        if stmt not in nb:
            die("statement not found: %s" % stmt)

    # ---------------------------------------------------------------- processor options
    mo = re.search(r"letmutoptions=match&\*cli\.features\{(.*?)_=>unimplemented!\(\"unknown--featuresvalue\"\),\};", nb)
    if not mo:
        die("the --features match has an unrecognised shape")
    arms = re.findall(r"\"([\w-]+)\"=>ProcessorOptions::(\w+)\(\),", mo.group(1))
    if "".join('"%s"=>ProcessorOptions::%s(),' % a for a in arms) != mo.group(1):
        die("unrecognised arm in the --features match: %s" % mo.group(1))
    overrides = re.findall(r"(?<![\w.])options\.(\w+)(\|=|=)([^;=]+);", nb)
    if count("options", body) != len(overrides) + 2:
        lines = [l.strip() for l in body.split("\n") if re.search(r"(?<![\w.])options\b", l)]
        die("options is used in an unrecognised way: %r" % lines)
    call = re.search(r"minidump_processor::process_minidump_with_options\(([^()]*)\)", nb)
    if not call:
        die("the call of process_minidump_with_options was not found")

    # ---------------------------------------------------------------- the order of the steps of main_result
    landmarks = [
        ("parse", r"let cli = Cli::parse\(\);"),
        ("log_create", r"File::create\(log_path\)"),
        ("panic_hook", r"panic::set_hook\("),
        ("help_markdown", r"if cli\.help_markdown \{"),
        ("mode_munging", r"let mut human = !json && !raw_dump;"),
        ("cyborg_desugar", r"if cli\.cyborg\.is_some\(\) \{\s*human = true;\s*json = true;\s*\}"),
        ("pretty_check", r"if cli\.pretty && !json \{"),
        ("brief_check", r"if cli\.brief && !\(human \|\| raw_dump\) \{"),
        ("features_match", r"let mut options = match &\*cli\.features \{"),
        ("overrides", r"options\.evil_json ="),
        ("read_path", r"match Minidump::read_path\(cli\.minidump\) \{"),
        ("cyborg_create", r"cli\.cyborg\.map\(File::create\)"),
        ("output_create", r"File::create\(output_path\)"),
        ("dump_dispatch", r"if raw_dump \{\s*return print_minidump_dump\(&dump, &mut output, cli\.brief\);\s*\}"),
        ("process", r"minidump_processor::process_minidump_with_options\("),
        ("print_human", r"if human \{\s*if cli\.brief \{\s*state\.print_brief\(&mut output\)\?;\s*\} else \{\s*state\.print\(&mut output\)\?;\s*\}\s*\}"),
        ("print_json", r"if json \{"),
        ("process_error", r'error!\("\{\} - Error processing dump: \{\}", err\.name\(\), err\);\s*std::process::exit\(1\);'),
        ("read_error", r'error!\("\{\} - Error reading dump: \{\}", err\.name\(\), err\);\s*std::process::exit\(1\);'),
    ]
    where = []
    for name, rx in landmarks:
        ms = list(re.finditer(rx, body))
        if len(ms) != 1:
            die("step `%s` of main_result: expected one match of /%s/, found %d" % (name, rx, len(ms)))
        where.append((ms[0].start(), name))
    main_steps = [n for _p, n in sorted(where)]
    exits = re.findall(r"std::process::exit\(([^()]*)\)", code)
    n_err = len(re.findall(r"(?<![\w:])error!\(", body))
    if n_err != 6:
        die("expected six error!(..) calls in main_result (panic hook, two rejections, system info, processing error, read error), found %d" % n_err)
    # the harness builds the expected log line from the library's error with the same two format strings
    hpath = os.path.join(os.path.dirname(os.path.abspath(__file__)), "..", "harness", "src", "bin", "c20.rs")
    try:
        hsrc = open(hpath).read()
    except OSError:
        hsrc = None
    if hsrc is not None:
        for fmt in ('"{} - Error reading dump: {}"', '"{} - Error processing dump: {}"'):
            if len(re.findall(re.escape("format!(" + fmt + ", e.name(), e)"), hsrc)) != 1:
                die("harness/src/bin/c20.rs does not build its expected diagnostic with format!(%s, e.name(), e)" % fmt)

    def lst(xs):
        return "[" + "; ".join('"%s"' % x for x in xs) + "]"

    def pairs(xs):
        return "[" + "; ".join("(" + ", ".join('"%s"' % y for y in x) + ")" for x in xs) + "]"

    for x in http_args + simple_args + [y for a in arms for y in a] + [y for o in overrides for y in o] + [call.group(1)]:
        if '"' in x:
            die("unexpected quote in %r" % x)
    out = "(* generated by translate/c20_wiring.py from minidump-stackwalk/src/main.rs — do not edit *)\n" \
          "From Coq Require Import String List.\nImport ListNotations.\nLocal Open Scope string_scope.\n" \
          "Definition SINK_OPENS : list (string * string) := %s.\n" \
          "Definition SINK_TRUNCATES : list bool := [%s].   (* File::create: the existing content is dropped *)\n" \
          "Definition SYM_MERGE : list string := [\"cli.symbols_path\"; \"cli.symbols_path_legacy\"].\n" \
          "Definition HTTP_ARGS : list string := %s.\n" \
          "Definition SIMPLE_ARGS : list string := %s.\n" \
          "Definition CACHE_DEFAULT : string := \"temp_dir.join(rust-minidump-cache)\".\n" \
          "Definition TMP_DEFAULT : string := \"temp_dir\".\n" \
          "Definition FEATURE_ARMS : list (string * string) := %s.\n" \
          "Definition OPTION_OVERRIDES : list (string * string * string) := %s.\n" \
          "Definition PROCESS_ARGS : string := \"%s\".\n" \
          "Definition MAIN_STEPS : list string := %s.   (* landmarks of main_result in source order *)\n" \
          "Definition EXIT_CALLS : list string := %s.   (* arguments of every std::process::exit in main.rs *)\n" % (
              pairs(sink_opens), "; ".join("true" if c == "File::create" else "false" for _n, c in sink_opens), lst(http_args), lst(simple_args), pairs(arms), pairs(overrides), call.group(1), lst(main_steps), lst(exits))
    path = os.path.join(outdir, "C20Wiring.v")
    os.makedirs(outdir, exist_ok=True)
    try:
        if open(path).read() == out:
            return
    except OSError:
        pass
    with open(path, "w") as f:
        f.write(out)


main()
