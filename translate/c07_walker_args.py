#!/usr/bin/env python3
"""Translator (C07): how STACK WIN evaluation learns about the grand-callee.

Reads minidump-unwind/src/lib.rs and regenerates coq/Gen/C07WalkerArgs.v:
  * `CfiStackWalker::from_ctx_and_args`: the two struct fields `has_grand_callee` and
    `grand_callee_parameter_size` are TRANSLATED (a small language of Option chains over
    `args.grand_callee_frame`, with `let` bindings) into Gallina functions of `option sframe`;
    every other statement / field of the constructor is PINNED to the text the model was written for;
  * `walk_stack`: the statement that picks the grand-callee out of `CallStack::frames` is pinned, and
    emitted as `grand_callee_index` (checked_sub(2) on the length);
  * `FrameWalker for CfiStackWalker`: `has_grand_callee` / `get_grand_callee_parameter_size` must return
    the two fields; x86::get_caller_by_cfi must build the walker with `from_ctx_and_args(ctx, args, ..)`.
argv: <repo> <outdir>.  Aborts (exit 1) on anything it does not recognise."""
import os
import re
import sys

repo, outdir = sys.argv[1], sys.argv[2]


def die(msg):
    sys.stderr.write("c07_walker_args.py: " + msg + "\n")
    sys.exit(1)


def norm(s):
    s = re.sub(r"//[^\n]*", "", s)
    return re.sub(r"\s+", "", s)


def balanced(src, start, open_c, close_c):
    """src[start] == open_c; returns index one past the matching close"""
    if src[start] != open_c:
        die("internal: expected %r at %d" % (open_c, start))
    depth = 0
    for i in range(start, len(src)):
        if src[i] == open_c:
            depth += 1
        elif src[i] == close_c:
            depth -= 1
            if depth == 0:
                return i + 1
    die("unbalanced %r" % open_c)


lib = open(os.path.join(repo, "minidump-unwind/src/lib.rs")).read()
x86 = open(os.path.join(repo, "minidump-unwind/src/x86.rs")).read()

# ------------------------------------------------------------------ from_ctx_and_args
m = re.search(r"fn from_ctx_and_args<P, R>\(", lib)
if not m:
    die("fn from_ctx_and_args<P, R>( not found in minidump-unwind/src/lib.rs")
sig_end = balanced(lib, m.end() - 1, "(", ")")
b0 = lib.index("{", lib.index("HashSet<&'static str>,", sig_end))
b1 = balanced(lib, b0, "{", "}")
if norm(lib[m.start():b0]) != norm("""fn from_ctx_and_args<P, R>(ctx: &'a C, args: &'a GetCallerFrameArgs<'a, P>, callee_forwarded_regs: R,)
        -> Option<Self> where R: Fn(&MinidumpContextValidity) -> HashSet<&'static str>,"""):
    die("from_ctx_and_args: signature changed: " + norm(lib[m.start():b0]))
body = re.sub(r"//[^\n]*", "", lib[b0 + 1:b1 - 1])
k = body.find("Some(Self {")
if k < 0:
    die("from_ctx_and_args: `Some(Self {` not found")
stmts_txt, lit_txt = body[:k], body[k + len("Some(Self"):]
lit_end = balanced(lit_txt, lit_txt.index("{"), "{", "}")
if norm(lit_txt[lit_end:]) != ")":
    die("from_ctx_and_args: text after the struct literal: " + norm(lit_txt[lit_end:]))
lit_txt = lit_txt[lit_txt.index("{") + 1:lit_end - 1]

# ---- the expression language
IDENT = r"[A-Za-z_][A-Za-z0-9_]*"


def parse_expr(s, env):
    """s: whitespace-free Rust expression -> Gallina term of type option sframe / option Z / bool / Z (typed)"""
    # head
    if s.startswith("args.grand_callee_frame"):
        term, ty, rest = "gc", "oframe", s[len("args.grand_callee_frame"):]
    else:
        mm = re.match(IDENT, s)
        if not mm or mm.group(0) not in env:
            die("from_ctx_and_args: unrecognised expression head in %r" % s)
        term, ty = env[mm.group(0)]
        rest = s[mm.end():]
    while rest:
        mm = re.match(r"\.is_some\(\)", rest)
        if mm:
            if ty not in ("oframe", "oz"):
                die("is_some() on a non-Option in %r" % s)
            term, ty, rest = "(opt_is_some %s)" % term, "bool", rest[mm.end():]
            continue
        mm = re.match(r"\.is_none\(\)", rest)
        if mm:
            if ty not in ("oframe", "oz"):
                die("is_none() on a non-Option in %r" % s)
            term, ty, rest = "(negb (opt_is_some %s))" % term, "bool", rest[mm.end():]
            continue
        mm = re.match(r"\.and_then\(\|(%s)\|\1\.parameter_size\)" % IDENT, rest)
        if mm:
            if ty != "oframe":
                die("and_then(|f| f.parameter_size) on something that is not Option<&StackFrame> in %r" % s)
            term, ty, rest = "(opt_and_then %s parameter_size)" % term, "oz", rest[mm.end():]
            continue
        mm = re.match(r"\.unwrap_or\(([0-9]+)\)", rest)
        if mm:
            if ty != "oz":
                die("unwrap_or on something that is not Option<u32> in %r" % s)
            term, ty, rest = "(opt_unwrap_or %s %s)" % (term, mm.group(1)), "z", rest[mm.end():]
            continue
        die("from_ctx_and_args: unrecognised method chain %r in %r" % (rest[:60], s))
    return term, ty


PIN_MODULE = norm("let module = args.modules.module_at_address(args.callee_frame.instruction)?")
env = {}
for st in [x for x in (norm(t) for t in stmts_txt.split(";")) if x]:
    if st == PIN_MODULE:
        continue
    mm = re.match(r"let(%s)=(.*)$" % IDENT, st)
    if not mm:
        die("from_ctx_and_args: unrecognised statement %r" % st)
    env[mm.group(1)] = parse_expr(mm.group(2), env)

# ---- the struct literal: split at top-level commas
fields, depth, cur = [], 0, ""
for ch in lit_txt:
    if ch in "([{":
        depth += 1
    elif ch in ")]}":
        depth -= 1
    if ch == "," and depth == 0:
        fields.append(cur)
        cur = ""
    else:
        cur += ch
fields.append(cur)
fields = [norm(f) for f in fields if norm(f)]
PINNED = {"instruction": "args.callee_frame.instruction", "callee_ctx": "ctx", "callee_validity": "args.valid()",
          "caller_ctx": "ctx.clone()", "caller_validity": "callee_forwarded_regs(args.valid())", "module": None,
          "stack_memory": "args.stack_memory"}
got = {}
for f in fields:
    if ":" in f:
        name, val = f.split(":", 1)
    else:
        name, val = f, None
    got[name] = val
for name, val in PINNED.items():
    if name not in got:
        die("from_ctx_and_args: field %s missing" % name)
    if got[name] != val:
        die("from_ctx_and_args: field %s is now `%s` (model written for `%s`)" % (name, got[name], val))
extra = set(got) - set(PINNED) - {"has_grand_callee", "grand_callee_parameter_size"}
if extra:
    die("from_ctx_and_args: unknown fields %s" % sorted(extra))
for need in ("has_grand_callee", "grand_callee_parameter_size"):
    if got.get(need) is None:
        die("from_ctx_and_args: field %s missing or shorthand" % need)
has_t, has_ty = parse_expr(got["has_grand_callee"], env)
gcps_t, gcps_ty = parse_expr(got["grand_callee_parameter_size"], env)
if has_ty != "bool":
    die("has_grand_callee is not a bool expression: " + got["has_grand_callee"])
if gcps_ty != "z":
    die("grand_callee_parameter_size is not a u32 expression: " + got["grand_callee_parameter_size"])

# ------------------------------------------------------------------ the FrameWalker getters
for fn, fld in (("has_grand_callee(&self) -> bool", "has_grand_callee"),
                ("get_grand_callee_parameter_size(&self) -> u32", "grand_callee_parameter_size")):
    i = lib.find("fn " + fn)
    if i < 0:
        die("FrameWalker for CfiStackWalker: fn %s not found" % fn)
    j = lib.index("{", i)
    if norm(lib[j:balanced(lib, j, "{", "}")]) != "{self.%s}" % fld:
        die("FrameWalker for CfiStackWalker: fn %s no longer returns self.%s" % (fn, fld))

# ------------------------------------------------------------------ walk_stack: the grand-callee of the frame being unwound
PIN_GC = norm("""let grand_callee_frame = stack.frames.len().checked_sub(2).and_then(|idx| stack.frames.get(idx));""")
PIN_CALLEE = norm("let callee_frame = &stack.frames.last().unwrap();")
nl = norm(lib)
if PIN_GC not in nl:
    die("walk_stack: the statement computing grand_callee_frame changed")
if PIN_CALLEE not in nl:
    die("walk_stack: the statement computing callee_frame changed")
if norm("&GetCallerFrameArgs { callee_frame, grand_callee_frame, stack_memory, modules, system_info, symbol_provider, }") not in nl:
    die("walk_stack: GetCallerFrameArgs literal changed")
want_mentions = 3 + norm(body).count("grand_callee_frame")     # struct field, walk_stack's let, the args literal
if nl.count("grand_callee_frame") != want_mentions:
    die("lib.rs mentions grand_callee_frame at an unexpected place (%d mentions, expected %d)" % (nl.count("grand_callee_frame"), want_mentions))
if norm("let mut stack_walker = CfiStackWalker::from_ctx_and_args(ctx, args, callee_forwarded_regs)?;") not in norm(x86):
    die("x86::get_caller_by_cfi no longer builds its walker with from_ctx_and_args(ctx, args, callee_forwarded_regs)?")

out = """(* GENERATED by translate/c07_walker_args.py from minidump-unwind/src/lib.rs — do not edit *)
From Coq Require Import ZArith List Bool.
Import ListNotations.
Open Scope Z_scope.

(* what CfiStackWalker::from_ctx_and_args reads of the grand-callee StackFrame *)
Record sframe := mkSF { parameter_size : option Z }.

Definition opt_is_some {A} (o : option A) : bool := match o with Some _ => true | None => false end.
Definition opt_and_then {A B} (o : option A) (f : A -> option B) : option B := match o with Some x => f x | None => None end.
Definition opt_unwrap_or {A} (o : option A) (d : A) : A := match o with Some x => x | None => d end.

(* walk_stack: stack.frames.len().checked_sub(2).and_then(|idx| stack.frames.get(idx)) *)
Definition grand_callee_index (len : nat) : option nat := if Nat.leb 2 len then Some (len - 2)%%nat else None.
Definition grand_callee_frame (frames : list sframe) : option sframe :=
  opt_and_then (grand_callee_index (length frames)) (fun idx => nth_error frames idx).

(* has_grand_callee: %s *)
Definition has_grand_callee (gc : option sframe) : bool := %s.
(* grand_callee_parameter_size: %s *)
Definition grand_callee_parameter_size (gc : option sframe) : Z := %s.
""" % (got["has_grand_callee"], has_t, got["grand_callee_parameter_size"], gcps_t)
path = os.path.join(outdir, "C07WalkerArgs.v")
os.makedirs(outdir, exist_ok=True)
try:
    if open(path).read() == out:
        sys.exit(0)
except OSError:
    pass
open(path, "w").write(out)
