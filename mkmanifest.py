#!/usr/bin/env python3
"""Regenerates MANIFEST.json from props/*.py metadata (MANIFEST_META in each plugin) —
keeps the manifest valid while properties are added one by one."""
import importlib, json, os, sys
ROOT = os.path.dirname(os.path.abspath(__file__))
sys.path.insert(0, os.path.join(ROOT, "lib")); sys.path.insert(0, ROOT)
ALL = ["C%02d" % i for i in range(1, 21)]
checks, na, served = [], [], []
hooks = json.load(open(os.path.join(ROOT, "hooks.json"))) if os.path.exists(os.path.join(ROOT, "hooks.json")) else {"source_commits": []}
import subprocess
tracked = set(subprocess.run(["git", "-C", ROOT, "ls-files", "props"], stdout=subprocess.PIPE, text=True).stdout.split())
for pid in ALL:
    f = os.path.join(ROOT, "props", pid.lower() + ".py")
    # a check is claimed only once its plugin is committed (several people build checks side by side)
    if not os.path.exists(f) or ("props/%s.py" % pid.lower()) not in tracked:
        na.append({"property_id": pid, "reason": "check not built yet (the design in DESIGN.md §3 applies; no technique switch)"})
        continue
    P = importlib.import_module("props." + pid.lower()).PROP
    meta = P.manifest
    served.append(pid)
    checks.append({
        "property_id": pid,
        "quick_cmd": "./check %s --tier quick" % pid,
        "thorough_cmd": "./check %s --tier thorough" % pid,
        "evidence_file": "/verif/evidence/%s.json" % pid,
        "replay_cmd_template": "./check %s --replay {path}" % pid,
        "engine": "coq-model+correspondence",
        "level_claimed": {"category": "proof", "text": meta["text"], "design_ref": meta.get("design_ref", "DESIGN.md §3 " + pid)},
        "level_note": meta["note"],
        "technique": meta.get("technique", "machine-checked proof in Coq 8.16 about an executable Gallina model; the tie to /repo is checked on every run by translators that regenerate parts of the model from the Rust source (tables, constants and compiled function bodies, with generated = model tie theorems) and by a differential correspondence run (extracted OCaml model vs Rust harness, debug and release) with an independent property oracle searching for failing inputs"),
    })
m = {
    "version": 1,
    "setup_cmd": "./check --setup",
    "hooks": {
        "guard": "rust_minidump_verif",
        "enable": "RUSTFLAGS=\"--cfg rust_minidump_verif\" (set by lib/vlib.py for every cargo build of /verif/harness, which depends on /repo/* by path)",
        "baseline_off_cmd": "cd /repo && cargo nextest run --workspace --no-fail-fast --tool-config-file pb:/w/lib/nextest.toml --profile pb --test-threads 8 --offline || cargo test --workspace --no-fail-fast --offline",
        "source_commits": hooks.get("source_commits", []),
        "add_only": True,
    },
    "engines": [{"name": "coq-model+correspondence", "path": "/verif/check", "serves_properties": served,
                 "kind_free_text": "Coq 8.16 theorems over Gallina models (coq/<ID>/{Model,Proofs,Properties}.v), models extracted to OCaml and compared with the Rust implementation by harness/src/bin/<id>.rs on generated cases; independent property oracles search for failing inputs"}],
    "checks": checks,
    "not_applicable": na,
    "notes": "See DESIGN.md. known_findings.json lists recorded and fixed defects; seeded/ holds confirmed property-breaking patches used to test the checks.",
}
json.dump(m, open(os.path.join(ROOT, "MANIFEST.json"), "w"), indent=1)
print("MANIFEST.json: %d checks, %d not yet claimed" % (len(checks), len(na)))
