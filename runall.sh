#!/bin/bash
# ./runall.sh [quick|thorough] — run every claimed check once, summarise (developer convenience; not registered)
tier=${1:-quick}
cd "$(dirname "$0")"
for id in $(python3 -c "import json; print(' '.join(c['property_id'] for c in json.load(open('MANIFEST.json'))['checks']))"); do
  s=$(date +%s)
  out=$(./check $id --tier $tier 2>/tmp/runall_$id.err); rc=$?
  e=$(date +%s)
  echo "$id rc=$rc $((e-s))s $(echo "$out" | grep -c '^VIOLATION') violations $(echo "$out" | grep -c '^KNOWN-FINDING') known"
done
