"""C01 — reading a minidump is total: no panic, hang or runaway allocation on any bytes (partial)."""
import os
import re
import struct
import subprocess

from runner import PropBase
import vlib
from vlib import Rng

BOUNDARY = ["0", "1", "len-1", "len", "len+1", "2^31", "2^32-1"]
SAMPLES = ["test.dmp", "linux-mini.dmp", "simple-crashpad.dmp", "invalid-parameter.dmp", "pipeline-inlines-macos-segv.dmp"]
MODEL_FIELDS = ["R", "SI", "TL", "ML", "UM", "MEM", "M64", "MI", "TI", "TN", "HD", "EX", "EXP", "EXC",
                "TLP", "MS", "LC", "LS", "LR", "LE", "LL", "MA", "CP", "SIS", "AS", "BP", "MB", "SE", "MC", "RM", "RI", "CA", "TE", "AM", "AL", "AI", "A6", "TG", "TS", "TIG", "TSW"]
# tighter than the brief's max(1 MiB, 64*len^2): the largest single request is LINEAR in the input
PK_FLOOR = 64 * 1024
PK_PER_BYTE = 16
LIVE_FLOOR = 4 << 20
SLOW_MS = 10000

ST = dict(thread_list=3, module_list=4, memory_list=5, exception=6, system_info=7, memory64=9, handle=12, unloaded=14,
          misc=15, memory_info=16, thread_info=17, thread_names=24, breakpad=0x47670001, assertion=0x47670002,
          linux_cpu=0x47670003, linux_status=0x47670004, linux_lsb=0x47670005, linux_cmd=0x47670006, linux_environ=0x47670007,
          linux_auxv=0x47670008, linux_maps=0x47670009, linux_dso=0x4767000a, crashpad=0x43500001,
          mac_crash=0x4d7a0001, mac_boot=0x4d7a0002, moz_limits=0x4d7a0003, moz_soft=0x4d7a0004)

# cpu -> (processor_architecture, context size in bytes, offset of context_flags, width, flag)
CPUS = {
    "x86": (0, 716, 0, 4, 0x00010000), "amd64": (9, 1232, 48, 4, 0x00100000), "ppc": (3, 1004, 0, 4, 0x20000000),
    "ppc64": (0x8002, 1160, 0, 8, 0x01000000), "sparc": (0x8001, 584, 0, 4, 0x10000000), "arm": (5, 368, 0, 4, 0x40000000),
    "arm64": (12, 912, 0, 4, 0x00400000), "arm64old": (0x8003, 796, 0, 8, 0x80000000), "mips": (1, 600, 0, 4, 0x00040000),
    "ia32w64": (10, 716, 0, 4, 0x00010000), "unknown": (0xffff, 64, 0, 4, 0),
}


class Dump:
    """Minimal minidump writer: header, directory (reserved up front), then blobs/streams."""

    def __init__(self, be=False, ndir=8):
        self.be = be
        self.e = ">" if be else "<"
        self.ndir = ndir
        self.buf = bytearray(32 + 12 * ndir)
        self.dir = []

    def p(self, fmt, *v):
        return struct.pack(self.e + fmt, *[x & ((1 << (8 * struct.calcsize(c))) - 1) for x, c in zip(v, fmt)])

    def u32(self, *v):
        return b"".join(self.p("I", x) for x in v)

    def u64(self, *v):
        return b"".join(self.p("Q", x) for x in v)

    def add(self, data, align=4):
        while len(self.buf) % align:
            self.buf.append(0)
        rva = len(self.buf)
        self.buf += data
        return rva

    def stream(self, ty, data, size=None, rva=None):
        r = self.add(data)
        self.dir.append((ty, len(data) if size is None else size, r if rva is None else rva))
        return r

    def utf16(self, s, length=None, raw=None):
        enc = raw if raw is not None else s.encode("utf-16-be" if self.be else "utf-16-le")
        return self.add(self.u32(len(enc) if length is None else length) + enc + b"\0\0")

    def finish(self, count=None, dir_rva=32, sig=0x504d444d, version=0xa793, extra_dir=b""):
        d = b"".join(self.u32(t, s, r) for (t, s, r) in self.dir[: self.ndir]) + extra_dir
        self.buf[32:32 + len(d)] = d[: 12 * self.ndir]
        hdr = self.u32(sig, version, len(self.dir) if count is None else count, dir_rva, 0, 0x5000_0000) + self.u64(0)
        self.buf[0:32] = hdr
        return bytes(self.buf)

    # ---- records
    def sysinfo(self, arch, platform=2, csd=0):
        return self.p("HHHBB", arch, 6, 0x0f02, 4, 1) + self.u32(10, 0, 19041, platform, csd) + self.p("HH", 0, 0) + b"GenuineIntel" + self.u32(0x306c3, 0xbfebfbff, 0)

    def thread(self, tid, stack=(0, 0, 0), ctx=(0, 0), teb=0):
        return self.u32(tid, 0, 0, 0) + self.u64(teb) + self.u64(stack[0]) + self.u32(stack[1], stack[2]) + self.u32(ctx[0], ctx[1])

    def module(self, base, size, name_rva, cv=(0, 0), misc=(0, 0)):
        return (self.u64(base) + self.u32(size, 0, 0x5000_0001, name_rva) + self.u32(0xfeef04bd, 0x10000, 1, 2, 3, 4, 0x3f, 0, 4, 1, 0, 0, 0)
                + self.u32(cv[0], cv[1], misc[0], misc[1]) + self.u64(0, 0))

    def list(self, entries, count=None, pad=b""):
        return self.u32(len(entries) if count is None else count) + pad + b"".join(entries)

    def exlist(self, entries, esz, hdr=12, count=None, wide=False):
        n = len(entries) if count is None else count
        h = self.u32(hdr, esz) + (self.u64(n) if wide else self.u32(n))
        h = h + b"\0" * (hdr - len(h) if 0 < hdr - len(h) <= 64 else 0)
        return h + b"".join(entries)

    def context(self, cpu, flags=None, size=None):
        arch, sz, off, width, flag = CPUS[cpu]
        b = bytearray((0x11 * (i % 13 + 1)) & 0xff for i in range(sz if size is None else size))
        fv = flag | 0x3f if flags is None else flags
        enc = self.u32(fv) if width == 4 else self.u64(fv)
        if off + width <= len(b):
            b[off:off + width] = enc
        return bytes(b)

    def exception(self, tid=1, code=0xC0000005, nparams=2, ctx=(0, 0), addr=0x401000, info=None):
        info = info or [1, 0x10] + [0] * 13
        return (self.u32(tid, 0, code, 0) + self.u64(0, addr) + self.u32(nparams, 0) + b"".join(self.u64(x) for x in info[:15])
                + self.u32(ctx[0], ctx[1]))

    def objinfo(self, nxt, ty, size=0, payload=b""):
        return self.u32(nxt, ty, size) + payload

    def handle(self, h, type_rva=0, name_rva=0, info_rva=None):
        d = self.u64(h) + self.u32(type_rva, name_rva, 1, 2, 3, 4)
        if info_rva is not None:
            d += self.u32(info_rva, 0)
        return d


def hexcase(b):
    return "H " + (b.hex() if b else "-")


def small_dump(be, variant=0):
    """~10-stream dump touching every modelled reader; small enough for exhaustive mutation."""
    d = Dump(be, ndir=10)
    cx = d.add(d.context("amd64"))
    stack = d.add(bytes(range(32)))
    nm = d.utf16("a.exe")
    cv = d.add(d.u32(0x53445352) + bytes(range(16)) + d.u32(1) + b"a.pdb\0")
    d.stream(ST["system_info"], d.sysinfo(9))
    d.stream(ST["thread_list"], d.list([d.thread(7, (0x7000, 32, stack), (1232, cx))]))
    d.stream(ST["module_list"], d.list([d.module(0x400000, 0x1000, nm, (len(b"a.pdb\0") + 24, cv))]))
    d.stream(ST["memory_list"], d.list([d.u64(0x7000) + d.u32(32, stack)]))
    d.stream(ST["exception"], d.exception(7, ctx=(1232, cx)))
    i2 = d.add(d.objinfo(0, 2, 0))
    i1 = d.add(d.objinfo(i2, 1, 0))
    d.stream(ST["handle"], d.u32(16, 40, 1, 0) + d.handle(4, nm, 0, i1))
    d.stream(ST["thread_names"], d.list([d.u32(7) + d.u64(nm)]))
    d.stream(ST["memory_info"], d.exlist([d.u64(0x400000, 0x400000) + d.u32(0x20, 0) + d.u64(0x1000) + d.u32(0x1000, 0x20, 0x1000000, 0)], 48, hdr=16, wide=True))
    d.stream(ST["unloaded"], d.exlist([d.u64(0x500000) + d.u32(0x1000, 0, 0, nm)], 24))
    if variant == 1:
        base = len(d.buf) + 16 + 16
        d.stream(ST["memory64"], d.u64(1, base) + d.u64(0x9000, 8) + b"ABCDEFGH")
    else:
        d.stream(ST["thread_info"], d.exlist([d.u32(7, 0, 0, 0) + d.u64(1, 2, 3, 4, 5, 6)], 64))
    return d.finish()


def boundary_values(n):
    return [0, 1, max(0, n - 1), n, n + 1, 1 << 31, (1 << 32) - 1]


def patch32(b, off, v, be):
    return b[:off] + struct.pack(">I" if be else "<I", v & 0xffffffff) + b[off + 4:]


class Gen:
    def __init__(self, rng, tier):
        self.rng = rng
        self.tier = tier
        self.cases = []
        self.late = []      # cases that kill the child when a count check is broken: run last, so that a
        self.dist = {}      # dead child costs one shard and the milder neighbours are all judged

    def add(self, kind, line, late=False):
        (self.late if late else self.cases).append(line)
        self.dist[kind] = self.dist.get(kind, 0) + 1

    def dump(self, kind, b, late=False):
        self.add(kind, hexcase(b), late)

    # ------------------------------------------------------------- exhaustive blocks
    def exhaustive(self):
        for be in (False, True):
            for variant in (0, 1):
                b = small_dump(be, variant)
                self.dump("valid_small", b)
                if variant == 0:
                    for cut in range(len(b)):
                        self.dump("truncation_every_offset", b[:cut])
                for off in range(0, len(b) - 3, 4):
                    cur = struct.unpack_from(">I" if be else "<I", b, off)[0]
                    for v in boundary_values(len(b)):
                        if v != cur and (variant == 0 or off >= len(b) - 64 or off < 32 + 120):
                            self.dump("field_boundary_exhaustive", patch32(b, off, v, be))
            # wrong-endian / version / signature headers
            b = small_dump(be)
            for sig in (0, 0x4d444d50, 0x504d444d, 0x504d444e):
                for ver in (0xa793, 0x1a793, 0xa794, 0):
                    self.dump("header", patch32(patch32(b, 0, sig, be), 4, ver, be))

    # ------------------------------------------------------------- directory shapes
    def directory(self):
        rng = self.rng
        for be in (False, True):
            d = Dump(be, ndir=4)
            s1 = d.list([d.thread(1)])
            s2 = d.list([d.thread(1), d.thread(2)])
            d.stream(ST["thread_list"], s1)
            d.stream(ST["thread_list"], s2)       # duplicate type: last wins
            d.stream(0, b"")
            d.stream(0, b"")
            self.dump("directory_duplicates", d.finish())
            n = len(d.buf)
            for cnt in [0, 1, 3, 4, 5, 6, n // 12, n // 12 + 1, 1 << 16, 1 << 31, (1 << 32) - 1]:
                for rva in [0, 8, 20, 32, 33, n - 12, n - 11, n, n + 1, (1 << 32) - 12, (1 << 32) - 1]:
                    self.dump("directory_count_rva", d.finish(count=cnt, dir_rva=rva))
            # a directory that points at itself / at the header / streams overlapping the directory
            for loc in [(n, 0), (32, 0), (48, 32), (n, 32), (0xffffffff, 0xffffffff), (1, 0xffffffff), (0xffffffff, 1), (n + 1, 0), (1, n)]:
                for ty in (3, 4, 5, 6, 7, 9, 12, 14, 16, 17, 24, ST["crashpad"], ST["mac_crash"], ST["linux_maps"]):
                    d2 = Dump(be, ndir=2)
                    d2.stream(ST["system_info"], d2.sysinfo(rng.choice([0, 9, 5, 12, 3])))
                    d2.dir.append((ty, loc[0], loc[1]))
                    self.dump("directory_selfref", d2.finish())

    # ------------------------------------------------------------- list streams
    def lists(self, nrand):
        rng = self.rng
        specs = [("thread_list", 48), ("module_list", 108), ("memory_list", 16), ("thread_names", 12)]
        for be in (False, True):
            for name, esz in specs:
                for n in (0, 1, 2, 3):
                    ents = [bytes(rng.below(256) for _ in range(esz)) for _ in range(n)]
                    for pad in (b"", b"\0\0\0\0", b"\0", b"\0" * 8, b"\0" * 5):
                        for cnt in sorted({0, 1, n, n + 1, max(0, n - 1), 1 << 16, 1 << 24, (1 << 32) // esz, (1 << 32) // esz + 1, 1 << 31, (1 << 32) - 1, (1 << 64) // esz & 0xffffffff}):
                            d = Dump(be, ndir=2)
                            d.stream(ST["system_info"], d.sysinfo(9))
                            d.stream(ST[name], d.list(ents, count=cnt, pad=pad))
                            self.dump("list_count_padding", d.finish(), late=cnt >= 1 << 28)
            # every list header with an explicit entry size: header size x entry size x count, each from
            # {0, 1, struct-1, struct, struct+1, huge} (+ the honest / off-by-one / "large but allocatable" counts),
            # so that two or three header fields are wrong at once
            exspecs = [("memory_info", 48, 16, True), ("thread_info", 64, 12, False), ("unloaded", 24, 12, False),
                       ("handle", 40, 16, False), ("handle", 32, 16, False)]
            for name, esz, hdr, wide in exspecs:
                for n in (0, 2):
                    for h in sorted({0, 1, hdr - 1, hdr, hdr + 1, hdr + esz, (1 << 32) - 1}):
                        for es in sorted({0, 1, esz - 1, esz, esz + 1, (1 << 32) - 1}):
                            for cnt in sorted({0, 1, n, n + 1, 1 << 16, 1 << 24, (1 << 32) - 1}):
                                d = Dump(be, ndir=1)
                                nm = d.utf16("u.dll")
                                if name == "unloaded":
                                    ents = [d.u64(0x1000 * (i + 1)) + d.u32(0x100, 0, 0, nm) for i in range(n)]
                                elif name == "handle":
                                    ents = [d.handle(4 * i, nm, 0, 0 if esz == 40 else None) for i in range(n)]
                                else:
                                    ents = [bytes(rng.below(256) for _ in range(esz)) for i in range(n)]
                                d.stream(ST[name], d.exlist(ents, es, hdr=h, count=cnt, wide=wide))
                                self.dump("list_header_product", d.finish(), late=cnt >= 1 << 31)
            # Memory64: u64 count x base rva x trailing bytes (the size must match exactly)
            for n in (0, 2):
                for cnt in sorted({0, 1, n, n + 1, 1 << 16, 1 << 28, (1 << 60), (1 << 64) // 16, (1 << 64) - 1}):
                    for tail in (0, 1, 15, 16):
                        d = Dump(be, ndir=1)
                        pay = d.add(bytes(32))
                        d.stream(ST["memory64"], d.u64(cnt, pay) + b"".join(d.u64(0x1000 * i, 16) for i in range(n)) + bytes(tail))
                        self.dump("list_header_product", d.finish(), late=cnt >= 1 << 28)
        for _ in range(nrand):
            be = rng.chance(1, 3)
            d = Dump(be, ndir=6)
            d.stream(ST["system_info"], d.sysinfo(rng.choice([0, 9, 5, 12])))
            n = len(d.buf)
            pool = [0, 1, 4, n, n + 200, 0x7fffffff, 0x80000000, 0xfffffffc, 0xffffffff]
            # threads with hostile stack / context locations
            ctx = d.add(d.context(rng.choice(["x86", "amd64", "arm", "arm64"])))
            stack = d.add(bytes(64))
            threads = []
            for i in range(rng.range(0, 4)):
                st = (rng.choice([0, 0x7000, (1 << 64) - 8, (1 << 64) - 1]), rng.choice(pool + [64]), rng.choice(pool + [stack]))
                cx = (rng.choice(pool + [716, 1232]), rng.choice(pool + [ctx]))
                threads.append(d.thread(rng.below(3), st, cx, teb=rng.choice([0, 0x7000 - 52, (1 << 64) - 1, (1 << 64) - 104])))
            d.stream(ST["thread_list"], d.list(threads, pad=rng.choice([b"", b"\0\0\0\0"])))
            mems = [d.u64(rng.choice([0, 0x7000, (1 << 64) - 32, (1 << 64) - 1])) + d.u32(rng.choice(pool + [64]), rng.choice(pool + [stack])) for _ in range(rng.range(0, 4))]
            d.stream(ST["memory_list"], d.list(mems))
            self.dump("threads_memory_hostile", d.finish())

    # ------------------------------------------------------------- strings / modules
    def modules(self, nrand):
        rng = self.rng
        for _ in range(nrand):
            be = rng.chance(1, 3)
            d = Dump(be, ndir=5)
            d.stream(ST["system_info"], d.sysinfo(rng.choice([0, 9, 5])), )
            names = []
            good = d.utf16("mod.dll")
            names.append(good)
            names.append(d.utf16("x", length=rng.choice([0, 1, 2, 3, 5, 0x7ffffffe, 0xfffffffe, 0xffffffff])))   # odd / past the end
            sur = struct.pack(">H" if be else "<H", rng.choice([0xD800, 0xDBFF, 0xDC00, 0xDFFF]))
            names.append(d.utf16("", raw=rng.choice([sur, sur + sur, b"a\0" + sur, sur + (b"\xdc\x00" if be else b"\x00\xdc")])))
            cvs = []
            for sig in (0x53445352, 0x3031424e, 0x4270454c, 0x3930424e, 0x12345678):
                body = d.u32(sig) + bytes(rng.below(256) for _ in range(rng.choice([0, 1, 12, 13, 20, 21, 40])))
                cvs.append((len(body), d.add(body)))
            n = len(d.buf)
            tail = d.add(d.u32(4) + b"z\0")      # length runs 2 bytes past the end of the file when last
            pool = [0, 1, n - 4, n - 2, n, n + 1, 0x80000000, 0xffffffff, tail]
            mods = []
            for i in range(rng.range(0, 4)):
                base = rng.choice([0, 0x400000, (1 << 64) - 0x1000, (1 << 64) - 1])
                size = rng.choice([0, 1, 0x1000, 0xffffffff])
                cv = rng.choice(cvs + [(0, 0), (rng.choice(pool), rng.choice(pool)), (4, cvs[0][1]), (24, cvs[0][1]), (25, cvs[0][1]), (16, cvs[1][1]), (17, cvs[1][1]), (5, cvs[2][1])])
                mods.append(d.module(base, size, rng.choice(names + names + pool), cv, (rng.choice(pool), rng.choice(pool))))
            d.stream(ST["module_list"], d.list(mods))
            tn = [d.u32(rng.below(3)) + d.u64(rng.choice(names + pool + [1 << 32, (1 << 64) - 1, (1 << 64) - 4])) for _ in range(rng.range(0, 4))]
            d.stream(ST["thread_names"], d.list(tn))
            um = [d.u64(rng.choice([0, 0x500000, (1 << 64) - 1])) + d.u32(rng.choice([0, 1, 0x1000, 0xffffffff]), 0, 0, rng.choice(names + pool)) for _ in range(rng.range(0, 3))]
            d.stream(ST["unloaded"], d.exlist(um, 24))
            b = d.finish()
            if rng.chance(1, 4):
                b = b[: tail + 6]           # string whose length points just past the end
            self.dump("modules_strings", b)

    # ------------------------------------------------------------- handle data: cross product of hostile features
    CHAIN_SHAPES = ["open1", "open2", "open4", "self", "cycle2", "cycle5", "rho", "off_end", "into_header", "into_stream", "straddle_eof"]
    TYPE_PATTERNS = ["known", "unknown", "unknown_first", "unknown_last", "alternate"]

    @staticmethod
    def chain(d, shape, pattern, unknown=0x7777):
        """Lay out one object-info chain; returns the head rva. Record i gets a known or unknown type by `pattern`."""
        n = {"open1": 1, "open2": 2, "open4": 4, "self": 1, "cycle2": 2, "cycle5": 5, "rho": 5, "off_end": 2,
             "into_header": 2, "into_stream": 2, "straddle_eof": 2}[shape]

        def ty(i):
            unk = {"known": False, "unknown": True, "unknown_first": i == 0, "unknown_last": i == n - 1, "alternate": i % 2 == 0}[pattern]
            return unknown if unk else 1 + i % 9
        a = len(d.buf) + (-len(d.buf)) % 4
        for i in range(n):
            nxt = a + 12 * (i + 1)
            if i == n - 1:
                nxt = {"open1": 0, "open2": 0, "open4": 0, "self": a, "cycle2": a, "cycle5": a, "rho": a + 24, "off_end": 0x7ffffff0,
                       "into_header": 4, "into_stream": 32, "straddle_eof": -1}[shape]
            if nxt == -1:
                nxt = a + 12 * n          # the next record starts where the file ends (caller appends a partial record)
            d.add(d.objinfo(nxt, ty(i)))
        return a

    def handle_product(self):
        for be in (False, True):
            for shape in self.CHAIN_SHAPES:
                for pattern in self.TYPE_PATTERNS:
                    for unknown in (10, 0x7777, 0xffffffff):
                        if pattern == "known" and unknown != 10:
                            continue
                        for dsz, ndesc in ((40, 1), (40, 2), (32, 1)):
                            d = Dump(be, ndir=2)
                            ty = d.utf16("Event")
                            d.stream(ST["system_info"], d.sysinfo(9))
                            body = b""
                            heads = []
                            # reserve the stream first so that a straddling record can be the last thing in the file
                            stream_len = 16 + dsz * ndesc
                            srva = d.add(bytes(stream_len))
                            d.dir.append((ST["handle"], stream_len, srva))
                            for i in range(ndesc):
                                heads.append(self.chain(d, shape, pattern, unknown))
                            if shape == "straddle_eof":
                                d.add(d.objinfo(0, 1)[:7])
                            for i in range(ndesc):
                                body += d.handle(4 * i, ty, 0, heads[i] if dsz == 40 else None)
                            d.buf[srva:srva + stream_len] = d.u32(16, dsz, ndesc, 0) + body
                            self.dump("handle_product", d.finish())

    # ------------------------------------------------------------- handle data (random combinations)
    def handles(self, nrand):
        rng = self.rng
        for _ in range(nrand):
            be = rng.chance(1, 3)
            d = Dump(be, ndir=2)
            ty = d.utf16("Event")
            n0 = len(d.buf)
            shape = rng.below(8)
            descs = []
            ndesc = rng.range(0, 3)
            for i in range(ndesc):
                here = len(d.buf)
                if shape == 0:       # valid chain of k records
                    k = rng.range(0, 4)
                    rv = 0
                    for j in range(k):
                        rv = d.add(d.objinfo(rv, rng.below(10), 4, b"\1\2\3\4"))
                    info = rv
                elif shape == 1:     # self-reference
                    info = d.add(d.objinfo(here, rng.below(10)))
                elif shape == 2:     # 2- or 3-cycle
                    a = len(d.buf)
                    d.add(d.objinfo(a + 12, 1))
                    d.add(d.objinfo(a + 24 if rng.chance(1, 2) else a, 2))
                    d.add(d.objinfo(a, 3))
                    info = a
                elif shape == 3:     # unknown info_type
                    info = d.add(d.objinfo(0, rng.choice([10, 11, 0x7777, 0x80000000, 0xffffffff])))
                elif shape == 4:     # chain running off the end / into the header
                    info = rng.choice([1, 4, 20, 0x7fffffff, 0xffffffff, 0xfffffff4])
                elif shape == 5:     # record straddling the end of the file (fixed after finish)
                    info = -1
                elif shape == 6:     # long valid chain then a cycle back into its middle
                    a = len(d.buf)
                    k = rng.range(2, 6)
                    for j in range(k):
                        d.add(d.objinfo(a + 12 * (j + 1) if j + 1 < k else a + 12 * rng.below(k), 1 + j % 8))
                    info = a
                else:
                    info = 0
                descs.append((i, info))
            dsz = rng.choice([40, 40, 40, 32, 0, 1, 31, 33, 39, 41, 48, 0xffffffff])
            hdr = rng.choice([16, 16, 16, 12, 0, 8, 20, 0x7fffffff, 0xffffffff])
            cnt = rng.choice([ndesc, ndesc, ndesc, ndesc + 1, 0, 1 << 16, 1 << 31, (1 << 32) - 1, 0x10000000])
            body = b""
            tailrec = None
            for i, info in descs:
                if info == -1:
                    info = 0xfffffff0   # patched below once the final length is known
                    tailrec = len(body)
                body += d.handle(4 * i, rng.choice([0, ty, 3, 0xffffffff]), rng.choice([0, ty, n0 + 1]), info)
            stream = d.u32(hdr, dsz, cnt, 0) + body
            d.stream(ST["handle"], stream)
            if tailrec is not None:
                keep = rng.choice([0, 1, 4, 8, 11])
                rv = d.add(d.objinfo(0, 1)[:keep] if keep else b"")
                s_rva = d.dir[-1][2]
                d.buf[s_rva + 16 + tailrec + 32: s_rva + 16 + tailrec + 36] = d.u32(rv if keep else len(d.buf))
            d.stream(ST["system_info"], d.sysinfo(9))
            self.dump("handle_data", d.finish())

    # ------------------------------------------------------------- exception + contexts
    def exceptions(self, nrand):
        rng = self.rng
        cpus = list(CPUS)
        for be in (False, True):
            for cpu in cpus:
                for nparams in (0, 2, 15, 16, 17, 255, 1 << 31, (1 << 32) - 1):
                    for flagmode in (0, 1):
                        d = Dump(be, ndir=4)
                        arch = CPUS[cpu][0]
                        cbytes = d.context(cpu, flags=None if flagmode == 0 else rng.choice([0, 0xffffffff, 0x10000, 0x100000, CPUS[cpu][4] | 0x40]))
                        cx = d.add(cbytes)
                        st = d.add(bytes(32))
                        d.stream(ST["system_info"], d.sysinfo(arch, platform=rng.choice([2, 0x8201, 0x8101, 0x8203, 0x8102, 0x8204, 0x8205, 1])))
                        d.stream(ST["exception"], d.exception(1, code=rng.choice([0xC0000005, 0xC0000006, 11, 1, 6, 0xC0000409, 0x80000003, 13, 11 | 0x10000]), nparams=nparams, ctx=(len(cbytes), cx),
                                                              info=[rng.choice([0, 1, 8, 0xc0000034, (1 << 64) - 1]) for _ in range(15)]))
                        d.stream(ST["thread_list"], d.list([d.thread(1, (0x7000, 32, st), (len(cbytes), cx))]))
                        d.stream(ST["memory_list"], d.list([d.u64(0x7000) + d.u32(32, st)]))
                        self.dump("exception_contexts", d.finish())
        for _ in range(nrand):
            be = rng.chance(1, 3)
            d = Dump(be, ndir=3)
            cpu = rng.choice(cpus)
            arch, sz = CPUS[cpu][0], CPUS[cpu][1]
            cbytes = d.context(cpu, size=rng.choice([sz, sz, sz - 1, sz + 1, 4, 0, sz // 2]))
            cx = d.add(cbytes) if cbytes else len(d.buf)
            n = len(d.buf)
            d.stream(ST["system_info"], d.sysinfo(rng.choice([arch, arch, arch, 0, 9, 6, 0xffff, 0x8004])))
            ex = d.exception(rng.below(3), code=rng.below(1 << 32) if rng.chance(1, 2) else rng.choice([0xC0000005, 11, 1, 10, 5, 0xC0000409]),
                             nparams=rng.choice([0, 1, 2, 3, 14, 15, 16, 100]), ctx=(rng.choice([len(cbytes), 0, n, 0xffffffff]), rng.choice([cx, 0, n, 0xffffffff])),
                             info=[rng.below(1 << 64) if rng.chance(1, 3) else rng.below(16) for _ in range(15)])
            d.stream(ST["exception"], ex[: rng.choice([168, 168, 168, 167, 160, 36, 0])] + bytes(rng.choice([0, 0, 8])))
            self.dump("exception_random", d.finish())

    # ------------------------------------------------------------- memory64
    def memory64(self, nrand):
        rng = self.rng
        for _ in range(nrand):
            be = rng.chance(1, 3)
            d = Dump(be, ndir=2)
            payload = d.add(bytes(range(48)))
            n = rng.range(0, 4)
            style = rng.below(5)
            sizes = []
            for i in range(n):
                if style == 0:
                    sizes.append(rng.choice([0, 8, 16]))
                elif style == 1:   # sums past 2^64
                    sizes.append(rng.choice([(1 << 63), (1 << 64) - 1, (1 << 64) - 8, 8]))
                else:
                    sizes.append(rng.choice([0, 1, 8, 48, 49, 1 << 31, 1 << 32, (1 << 64) - 1]))
            cnt = rng.choice([n, n, n, n + 1, max(0, n - 1), 1 << 32, (1 << 60), (1 << 64) - 1, (1 << 64) // 16, (1 << 64) // 16 + 1])
            base = rng.choice([payload, payload, 0, len(d.buf), len(d.buf) + 100, (1 << 32), (1 << 64) - 8, (1 << 64) - 1])
            body = d.u64(cnt, base) + b"".join(d.u64(rng.choice([0, 0x10000 * (i + 1), (1 << 64) - 4]), s) for i, s in enumerate(sizes)) + bytes(rng.choice([0, 0, 0, 4, 16]))
            d.stream(ST["memory64"], body)
            d.stream(ST["memory_list"], d.list([d.u64(0x7000) + d.u32(16, payload)]))
            self.dump("memory64", d.finish())

    # ------------------------------------------------------------- the streams that are only exercised
    def exercised(self, nrand):
        rng = self.rng
        texts = [b"", b"\n", b"a", b"A=B\n", b"k : v\nnovalue\n: \n\"q\"=\"\"\n", b"\xff\xfe=\x80\n", b"Limit Soft Limit Hard Limit Units\nMax cpu time\n",
                 b"00400000-00410000 r-xp 00000000 08:01 42 /bin/x\n", b"zz-yy r-xp\n", b"ffffffffffffffff-0 rwxp 0 0:0 0\n", b"0-ffffffffffffffff ---p 0 0:0 0 [heap]\n",
                 b"1-2-3 r\n4000-3000 r--p 00000000 00:00 0\n", b"A=B\0C=D\0\0", b"\0\0\0", b"[{\"a\":1}]", b"=" * 64, b"\n" * 64]
        for _ in range(nrand):
            be = rng.chance(1, 3)
            d = Dump(be, ndir=12)
            n0 = len(d.buf)
            pool = [0, 1, 4, 8, 32, n0, n0 + 64, 0x7fffffff, 0x80000000, 0xfffffff0, 0xffffffff]
            d.stream(ST["system_info"], d.sysinfo(rng.choice([0, 9, 5, 12, 3, 0x8001]), platform=rng.choice([2, 0x8101, 0x8201, 0x8203]), csd=rng.choice(pool)))
            # misc info: every documented size and some that are not
            size = rng.choice([24, 44, 232, 832, 1364, 0, 4, 23, 25, 100, 2000])
            misc = d.u32(rng.choice([size, size, size, 0, 1364, 0xffffffff]), rng.choice([0, 0xffffffff, 0x3ff, rng.below(1 << 12)])) + bytes(rng.below(256) for _ in range(max(0, size - 8)))
            d.stream(ST["misc"], misc)
            d.stream(ST["breakpad"], d.u32(rng.below(4), 1, 2)[: rng.choice([12, 12, 11, 0, 4])])
            d.stream(ST["assertion"], bytes(rng.choice([0, 65, 0xd8, 0xff]) for _ in range(rng.choice([776, 776, 775, 0, 100]))))
            for key in ("linux_cpu", "linux_status", "linux_lsb", "linux_environ", "linux_maps", "moz_limits", "moz_soft", "linux_cmd"):
                if rng.chance(2, 3):
                    t = rng.choice(texts)
                    if rng.chance(1, 4):
                        t = bytes(rng.choice(b"\n=: \t\"\0az09-") for _ in range(rng.below(200)))
                    d.stream(ST[key], t)
            self.dump("text_misc_streams", d.finish())
        for _ in range(nrand):
            be = rng.chance(1, 3)
            d = Dump(be, ndir=3)

            def s8(s, length=None, term=b"\0"):
                return d.add(d.u32(len(s) if length is None else length) + s + term)
            k, v = s8(b"key"), s8(b"value")
            bad = [s8(b"x", length=rng.choice([0xffffffff, 0x7fffffff, 2, 100])), s8(b"nt", term=b"x"), s8(b"\xff\xfe"), 0, 1, len(d.buf), 0xffffffff]
            pool = [0, 1, 4, len(d.buf), 0x80000000, 0xffffffff]

            def loc(data, huge=False):
                if rng.chance(1, 6):
                    return (rng.choice(pool), rng.choice(pool))
                r = d.add(data)
                return (len(data), r)
            def cnt(n):
                return rng.choice([n, n, n, n + 1, 0, 1 << 16, 1 << 30, (1 << 32) - 1])
            strs = [k, v] + bad
            lst = d.u32(cnt(2)) + d.u32(rng.choice(strs), rng.choice(strs))
            sd = d.u32(cnt(1)) + d.u32(rng.choice(strs), rng.choice(strs))
            ao = d.u32(cnt(2)) + d.u32(rng.choice(strs)) + d.p("HH", rng.choice([0, 1, 2, 0x8000, 0xffff]), 0) + d.u32(rng.choice(strs)) + d.u32(k) + d.p("HH", 1, 0) + d.u32(v)
            l_lst, l_sd, l_ao = loc(lst), loc(sd), loc(ao)
            modinfo = d.add(d.u32(rng.choice([1, 0, 2])) + d.u32(*l_lst) + d.u32(*l_sd) + d.u32(*l_ao))
            links = d.u32(cnt(2)) + d.u32(0, rng.choice([20, 0, 0xffffffff]), rng.choice([modinfo, modinfo, 0, len(d.buf), 0xffffffff])) + d.u32(1, 20, modinfo)
            l_links = loc(links)
            l_sd2 = loc(sd)
            cp = d.u32(rng.choice([1, 1, 0, 2])) + bytes(32) + d.u32(*l_sd2) + d.u32(*l_links) + bytes(rng.choice([0, 8, 16]))
            d.stream(ST["crashpad"], cp[: rng.choice([len(cp), len(cp), 52, 51, 4, 0])])
            # mac crash info: header + up to 20 record locations, records with cstrings
            recs = []
            for i in range(rng.range(0, 3)):
                ver = rng.choice([1, 4, 5, 0, 6, 1 << 63])
                fixed = d.u64(ST["mac_crash"], ver) + d.u64(*[rng.below(1 << 16) for _ in range(rng.choice([0, 1, 3, 5, 8]))])
                strings = b"".join(rng.choice([b"abc\0", b"\0", b"\xff\0", b"unterminated"]) for _ in range(rng.range(0, 7)))
                rec = fixed + strings
                recs.append((len(rec), d.add(rec), len(fixed)))
            start = rng.choice([recs[0][2] if recs else 16, 0, 16, 24, 1000, 0xffffffff])
            hdr = d.u32(ST["mac_crash"], rng.choice([len(recs), len(recs), 20, 21, 0xffffffff]), start) + b"".join(d.u32(s, r) for (s, r, _) in recs)
            hdr += b"".join(d.u32(rng.choice(pool), rng.choice(pool)) for _ in range(20 - len(recs)))
            d.stream(ST["mac_crash"], hdr[: rng.choice([172, 172, 171, 12, 0])])
            d.stream(ST["mac_boot"], d.u32(ST["mac_boot"]) + d.u64(rng.choice([k, d.utf16("-v"), 0, len(d.buf), (1 << 64) - 1, 1 << 32])))
            self.dump("crashpad_mac", d.finish())

    # ------------------------------------------------------------- round 2: products for the newly modelled readers
    def round2(self, nrand):
        rng = self.rng
        masks = [0, 1, 2, 3, 1 << 39, 1 << 62, 1 << 63, (1 << 63) | 1, (1 << 64) - 1, (1 << 64) - 2, 0x8000000080000001, 0x5555555555555555]
        for be in (False, True):
            # misc info: every struct size boundary x xstate mask
            for size in (0, 23, 24, 43, 44, 231, 232, 831, 832, 1363, 1364, 1365, 2000):
                for mask in (masks if size >= 1364 else masks[:2]):
                    d = Dump(be, ndir=2)
                    body = bytearray((7 * i + 3) & 0xff for i in range(size))
                    if size >= 8:
                        body[0:8] = d.u32(size, 0xffffffff)
                    if size >= 848:
                        body[832:848] = d.u32(528, 0x340) + d.u64(mask)
                    d.stream(ST["system_info"], d.sysinfo(9))
                    d.stream(ST["misc"], bytes(body))
                    self.dump("misc_xstate_product", d.finish())
            # thread contexts: cpu kind x flag validity x context size x number of threads
            for cpu in CPUS:
                arch, sz = CPUS[cpu][0], CPUS[cpu][1]
                for flags in (None, 0, 0xffffffff, CPUS[cpu][4] | 0x10000000 if cpu != "sparc" else 0x10010000):
                    for csize in (sz, sz - 1, sz + 8):
                        d = Dump(be, ndir=3)
                        cb = d.context(cpu, flags=flags, size=max(csize, 0))
                        cx = d.add(cb)
                        good = d.add(d.context(cpu))
                        st = d.add(bytes(16))
                        d.stream(ST["system_info"], d.sysinfo(arch))
                        ths = [d.thread(1, (0x7000, 16, st), (len(cb), cx)), d.thread(2, (0, 0, 0), (sz, good)),
                               d.thread(3, (0x8000, 16, 0), (0, 0)), d.thread(4, (0x9000, 0xffffffff, st), (sz, 0xfffffff0))]
                        d.stream(ST["thread_list"], d.list(ths))
                        d.stream(ST["memory_list"], d.list([d.u64(0x7000) + d.u32(16, st)]))
                        self.dump("thread_context_product", d.finish())
            # memory regions at the edges of the address space / shorter than the value read
            for base in (0, 1, 7, 0x7000, (1 << 64) - 16, (1 << 64) - 8, (1 << 64) - 1):
                for size in (1, 2, 7, 8, 9, 16):
                    d = Dump(be, ndir=1)
                    data = d.add(bytes(range(16)))
                    d.stream(ST["memory_list"], d.list([d.u64(base) + d.u32(size, data), d.u64(base + 1) + d.u32(size, data + 1)]))
                    self.dump("memory_read_product", d.finish())
        # crashpad: string kind x where it is referenced x count honesty x duplicate keys
        kinds = ["good", "dup", "bad_utf8", "overlong_utf8", "surrogate_utf8", "no_nul", "len_past_end", "rva_past_end", "empty_at_eof"]
        for be in (False, True):
            for kind in kinds:
                for where in ("simple", "mod_list", "mod_dict_key", "mod_dict_val", "obj_name", "obj_val_str", "obj_val_other"):
                    for cnt_mode in ("exact", "plus1", "large", "huge"):
                        d = Dump(be, ndir=2)

                        def s8(b, length=None, term=b"\0"):
                            return d.add(d.u32(len(b) if length is None else length) + b + term)
                        good, good2 = s8(b"key"), s8(b"caf\xc3\xa9")
                        x = {"good": good2, "dup": good, "bad_utf8": s8(b"\xff\xfe"), "overlong_utf8": s8(b"\xc0\x80"),
                             "surrogate_utf8": s8(b"\xed\xa0\x80"), "no_nul": s8(b"nt", term=b"x"), "len_past_end": s8(b"x", length=0x7fffffff),
                             "rva_past_end": 0xfffffff0, "empty_at_eof": 0xffffffff}[kind]

                        def cnt(n):
                            return {"exact": n, "plus1": n + 1, "large": 1 << 16, "huge": 0xffffffff}[cnt_mode]
                        xs = x
                        simple = d.u32(cnt(2)) + d.u32(good, good2) + d.u32(xs if where == "simple" else good, good2)
                        lst = d.u32(cnt(2)) + d.u32(good, xs if where == "mod_list" else good2)
                        mdict = d.u32(cnt(1)) + d.u32(xs if where == "mod_dict_key" else good, xs if where == "mod_dict_val" else good2)
                        oty = {"obj_val_str": 1, "obj_val_other": rng.choice([0, 2, 0x8000, 0xffff])}.get(where, 1)
                        objs = d.u32(cnt(2)) + d.u32(xs if where == "obj_name" else good) + d.p("HH", oty, 0) + d.u32(xs if where in ("obj_val_str", "obj_val_other") else good2) \
                            + d.u32(good2) + d.p("HH", 1, 0) + d.u32(good)
                        locs = []
                        for blob in (lst, mdict, objs):
                            locs.append((len(blob), d.add(blob)))
                        mi = d.add(d.u32(1) + b"".join(d.u32(a, b) for a, b in locs))
                        links = d.u32(cnt(2)) + d.u32(0, 28, mi) + d.u32(1, 28, mi)
                        l_links = (len(links), d.add(links))
                        l_simple = (len(simple), d.add(simple))
                        cp = d.u32(1) + bytes(32) + d.u32(*l_simple) + d.u32(*l_links)
                        d.stream(ST["crashpad"], cp)
                        b = bytearray(d.finish())
                        if kind == "empty_at_eof":        # a zero-length string whose length word is the last thing in the file
                            at = len(b)
                            b += struct.pack(">I" if be else "<I", 0)
                            raw = bytes(b)
                            marker = struct.pack(">I" if be else "<I", 0xffffffff)
                            raw = raw.replace(marker, struct.pack(">I" if be else "<I", at)) if cnt_mode != "huge" else raw
                            b = bytearray(raw)
                        self.dump("crashpad_product", bytes(b))
        # text streams: separators, quotes and every ASCII whitespace in every position
        atoms = [b"", b"k", b" k ", b"\tk\x0c", b"\"k\"", b"\"", b"\"\"", b" \"k\" ", b"\"k", b"k\"", b"\x0bk", b"k\rv", b"\xc3\xa9", b"  "]
        seps = {"linux_cpu": b":", "linux_status": b":", "linux_lsb": b"=", "linux_environ": b"=", "moz_limits": b":"}
        for _ in range(nrand):
            d = Dump(rng.chance(1, 3), ndir=5)
            for key, sep in seps.items():
                lines = []
                for _ in range(rng.range(0, 5)):
                    parts = [rng.choice(atoms) for _ in range(rng.range(1, 3))]
                    lines.append(rng.choice([sep, b":", b"=", b"", sep + sep]).join(parts))
                text = rng.choice([b"\n", b"\n", b"\r\n", b"\n\n", b"\0"]).join(lines) + rng.choice([b"", b"\n", b"\0"])
                d.stream(ST[key], text)
            self.dump("text_kv_product", d.finish())

    # ------------------------------------------------------------- round 3: products for the fixed-layout streams and mac crash info
    def round3(self):
        rng = self.rng
        for be in (False, True):
            sur = struct.pack(">H" if be else "<H", 0xD800)
            low = struct.pack(">H" if be else "<H", 0xDC00)

            def u16s(t):
                return t.encode("utf-16-be" if be else "utf-16-le")
            bufs = [u16s("a == b") + bytes(244), bytes(256), sur + bytes(254), sur + low + bytes(252), low + sur + bytes(252),
                    u16s("x") * 128, u16s("x") * 127 + sur, bytes(2) + sur * 127]
            for size in (775, 776, 777):
                for i, b0 in enumerate(bufs):
                    body = b0 + bufs[(i + 3) % len(bufs)] + bufs[(i + 5) % len(bufs)] + bytes(8)
                    d = Dump(be, ndir=1)
                    d.stream(ST["assertion"], (body + bytes(4))[:size])
                    self.dump("fixed_stream_product", d.finish())
            for size in (11, 12, 13):
                for validity in (0, 1, 2, 3, 4, 0xffffffff):
                    d = Dump(be, ndir=1)
                    d.stream(ST["breakpad"], (d.u32(validity, 7, 9) + b"\0")[:size])
                    self.dump("fixed_stream_product", d.finish())
            # strings referenced by RVA from the system info (u32) and the mac bootargs (u64)
            for skind in ("good", "empty", "odd", "past_end", "surrogate", "rva_end", "rva_huge", "zero"):
                for arch in (0, 9, 5, 12, 3, 10, 0xffff):
                    for size in (55, 56):
                        d = Dump(be, ndir=2)
                        good = d.utf16("Service Pack 1")
                        rva = {"good": good, "empty": d.utf16(""), "odd": d.utf16("x", length=3), "past_end": d.utf16("x", length=0x7ffffffe),
                               "surrogate": d.utf16("", raw=sur), "rva_end": -1, "rva_huge": 0xfffffffc, "zero": 0}[skind]
                        si = d.sysinfo(arch, csd=0 if rva == -1 else rva)
                        d.stream(ST["system_info"], si[:size])
                        if size == 56 and arch == 9:
                            big = {"rva_huge": (1 << 64) - 4, "rva_end": 1 << 32}.get(skind, rva)
                            for bsz in (11, 12):
                                d2 = Dump(be, ndir=1)
                                g2 = d2.utf16("-v debug=0x144")
                                r2 = {"good": g2, "zero": 0}.get(skind, big if isinstance(big, int) and big >= 0 else 0)
                                d2.stream(ST["mac_boot"], (d2.u32(ST["mac_boot"]) + d2.u64(r2))[:bsz])
                                self.dump("fixed_stream_product", d2.finish())
                        b = bytearray(d.finish())
                        if rva == -1:
                            at = len(b) - 2   # length word straddles the end of the file
                            srva = d.dir[0][2]
                            if size == 56:
                                b[srva + 24:srva + 28] = struct.pack(">I" if be else "<I", at)
                        self.dump("fixed_stream_product", bytes(b))
            for text in (b"", b"[]", b"caf\xc3\xa9", b"\xff", b"\xc0\x80", b"\xed\xa0\x80", b"\xf4\x90\x80\x80", b"\xf0\x9f\x98\x80", b"ab\xe2\x82", b"\0\0"):
                d = Dump(be, ndir=1)
                d.stream(ST["moz_soft"], text)
                self.dump("fixed_stream_product", d.finish())
            # mac crash info: version x record count x record_start_size x string table x second record's version
            for ver in (0, 1, 3, 4, 5, 6, 1 << 63):
                for rcount in (1, 2, 21, (1 << 32) - 1):
                    for start in (0, 16, 31, 32, 33, 40, 41, 47, 4096):
                        for strs in ("five", "four", "unterminated", "bad_utf8", "none"):
                            d = Dump(be, ndir=1)
                            table = {"five": b"/bin/x\0msg\0sig\0bt\0m2\0", "four": b"a\0b\0c\0d\0", "unterminated": b"a\0b\0c\0d\0eeee",
                                     "bad_utf8": b"a\0\xff\0c\0d\0e\0", "none": b""}[strs]
                            ver2 = ver if (start + len(strs)) % 3 else ver + 1
                            recs = []
                            for v in (ver, ver2):
                                fixed = d.u64(ST["mac_crash"], v, 1, 2, 3)      # 40 bytes: enough for every layout
                                body = fixed + bytes(max(0, min(start, 64) - 40)) + table
                                recs.append((len(body), d.add(body)))
                            hdr = d.u32(ST["mac_crash"], rcount, start) + b"".join(d.u32(a, b) for a, b in recs) + bytes(8 * 18)
                            d.stream(ST["mac_crash"], hdr)
                            self.dump("mac_crash_product", d.finish())

    # ------------------------------------------------------------- round 4: queries (ranges, crash address/reason, last_error) as products
    @staticmethod
    def error_enums():
        """discriminants of the exception-code enums of minidump-common/src/errors/*.rs, per file"""
        out = {}
        for name in ("linux", "macos", "windows"):
            src = open(os.path.join(vlib.REPO, "minidump-common", "src", "errors", name + ".rs"), encoding="utf-8").read()
            vals = set()
            for m in re.finditer(r"^\s+[A-Za-z_][A-Za-z_0-9]* = (0x[0-9a-fA-F_]+|[0-9_]+)(?:u32|i32|u64)?,", src, re.M):
                vals.add(int(m.group(1).replace("_", ""), 0) & 0xffffffffffffffff)
            out[name] = sorted(vals)
        return out

    def round4(self, ncodes):
        rng = self.rng
        T64 = 1 << 64
        enums = self.error_enums()
        # (a) exception code x flags x information: every enum discriminant of the three OS families is used as a code AND as a
        #     subcode; the harness asks get_crash_reason / Display / get_crash_address for 9 OS x 10 CPU on each
        mac_codes = [c for c in enums["macos"] if c <= 13] + [0x43507378, 11, 12, 14]
        lin_codes = list(range(0, 34)) + [0xffffffff, 0x80000000]
        win_codes = [c for c in enums["windows"] if c >= 0x40000000][:] + [0xC0000005, 0xC0000006, 0xC0000409, 0xC000001D, 0xE06D7363, 0x8007000E, 0xC007000E, 0x80070000, 0x0007FFFF]
        subcodes = sorted(set(enums["macos"] + enums["linux"] + [k << 29 for k in range(8)] + [(k << 29) | 0x1fffffff for k in range(8)]
                              + [0xfffffffa, 0xffffffc4, 0x80, 0x7fffffff, 0xffffffff]))
        infos = [0, 1, 2, 8, 0xff, 0xc0000034, 0xC0000005, 1 << 31, 1 << 32, (1 << 63), T64 - 1] + [c for c in enums["windows"] if c < 0x100][:80]
        shapes = [(t << 61) | (f << 58) | x for t in range(8) for f in (0, 1, 2, 3, 7) for x in (0, 0x7f, (1 << 58) - 1)]
        pools = [("mac", mac_codes, subcodes), ("linux", lin_codes, subcodes), ("win", win_codes, [0, 1, 0xffffffff])]
        for i in range(ncodes):
            fam, codes, subs = pools[i % 3]
            be = (i // 3) % 4 == 3
            d = Dump(be, ndir=2)
            code = codes[(i // 3) % len(codes)] if i < 3 * len(codes) and fam != "win" else rng.choice(codes)
            flags = rng.choice(subs)
            info = [rng.choice(infos + shapes[:: 7]) for _ in range(15)]
            if fam == "mac" and rng.chance(1, 2):
                info[0] = rng.choice(shapes)
                info[1] = rng.choice(shapes + infos)
            if fam == "win" and rng.chance(1, 3):
                info[2] = rng.choice(enums["windows"])
            d.stream(ST["system_info"], d.sysinfo(rng.choice([0, 9, 12, 5, 0x8003, 3, 0x8001, 0x8002, 1, 0xffff]),
                                                  platform=rng.choice([2, 0x8201, 0x8101, 0x8102, 0x8203, 0x8202, 0x8204, 0x8205, 0])))
            ex = bytearray(d.exception(1, code=code & 0xffffffff, nparams=rng.choice([0, 1, 2, 3, 4, 15, 16, 0xffffffff]), addr=rng.choice([0, 0x401000, 1 << 32, T64 - 1, 0xffffffff80000000]), info=info))
            ex[12:16] = d.u32(flags & 0xffffffff)
            d.stream(ST["exception"], bytes(ex))
            self.dump("exception_code_product", d.finish())
        # (a2) EXC_RESOURCE / EXC_GUARD: type (flags bits 29..31) x 64-bit code layout (resource: flavor bits 58..60, guard: flavor bits 32..60)
        guard_shapes = [(f << 32) | x for f in (0, 1, 2, 3, 4, 8, 16, 32, 64, 128, 256, 512, 1 << 12, 1 << 20, 1 << 28, 0x1fffffff) for x in (0, 1, 0xfffffff)]
        k = 0
        for code in (11, 12):
            for ty in range(8):
                for shape in shapes + guard_shapes:
                    k += 1
                    if self.tier == "quick" and k % 4:
                        continue
                    d = Dump(k % 8 == 0, ndir=2)
                    d.stream(ST["system_info"], d.sysinfo([9, 12, 0, 5][k % 4], platform=[0x8101, 0x8102][k % 2]))
                    ex = bytearray(d.exception(1, code=code, nparams=[3, 2, 0, 15][k % 4], info=[code, shape, [0, 7, T64 - 1][k % 3]] + [0] * 12))
                    ex[12:16] = d.u32((ty << 29) | [0, 1, 0x1fffffff][k % 3])
                    d.stream(ST["exception"], bytes(ex))
                    self.dump("mac_resource_guard_product", d.finish())
        # (b) memory_range / last_error / crash address at both ends of the address space
        edges = [0, 1, 0xffffffff, 1 << 32, T64 - 105, T64 - 104, T64 - 53, T64 - 52, T64 - 17, T64 - 16, T64 - 2, T64 - 1]
        sizes = [0, 1, 2, 15, 16, 17, 104, 0xffffffff, 1 << 32, T64 - 1]
        for be in (False, True):
            for i, base in enumerate(edges):
                d = Dump(be, ndir=6)
                data = d.add(bytes(range(64)))
                # thread teb at the edge, its stack at the edge; memory regions and memory-info entries around the edge
                d.stream(ST["system_info"], d.sysinfo([0, 9, 12, 5][i % 4], platform=2))
                threads = [d.thread(k + 1, ((base + k) % T64, 32, data), (0, 0), teb=(base + k) % T64) for k in range(4)]
                d.stream(ST["thread_list"], d.list(threads))
                d.stream(ST["memory_list"], d.list([d.u64((base + k) % T64) + d.u32(sz, data) for k, sz in enumerate([1, 4, 16, 17, 52, 53, 64, 0])]))
                ents = [d.u64((base + (k % 3)) % T64, 0) + d.u32(4, 0) + d.u64(sizes[(i + k) % len(sizes)]) + d.u32(0x1000, 4, 0x20000, 0) for k in range(8)]
                d.stream(ST["memory_info"], d.exlist(ents, 48, hdr=16, wide=True))
                mods = [d.module((base + k) % T64, [1, 16, 17, 0xffffffff][k], 0) for k in range(4)]
                d.stream(ST["module_list"], d.list(mods))
                d.stream(ST["unloaded"], d.exlist([d.u64((base + k) % T64) + d.u32([1, 16, 17, 0xffffffff][k], 0, 0, 0) for k in range(4)], 24))
                info = [1, base] + [0] * 13
                d.stream(ST["exception"], d.exception(1, code=[0xC0000005, 0xC0000006, 0xC0000409, 11][i % 4], nparams=[2, 1, 2, 0xffffffff, 0][i % 5], addr=edges[-1 - i], info=info))
                self.dump("query_edge_product", d.finish())
            # Memory64 lists that PARSE: 1..4 regions, sizes incl. 0, bases at both ends of the address space, data exactly to the end of the file or not
            for n in (1, 2, 3, 4):
                for bi, base in enumerate((0, 0x10000, 1 << 32, T64 - 256, T64 - 65, T64 - 64)):
                    for szs in ((16,) * n, (0,) + (16,) * (n - 1), (16,) * (n - 1) + (0,), (1, 7, 8, 9)[:n]):
                        d = Dump(be, ndir=2)
                        d.stream(ST["system_info"], d.sysinfo([9, 0, 12][bi % 3]))
                        hdr_at = len(d.buf)
                        data_at = hdr_at + 16 + 16 * n
                        descs, a = b"", base
                        for z in szs:
                            descs += d.u64(a % T64, z)
                            a += z if bi % 2 else max(z, 1)      # adjacent, or overlapping by nothing / touching
                        d.stream(ST["memory64"], d.u64(n, data_at) + descs)
                        d.add(bytes(range(sum(szs))) + (b"" if n % 2 else b"tail"), align=1)
                        self.dump("memory64_valid_product", d.finish())
            # Linux maps: address order, width, permissions, missing fields, names
            lines = [b"00400000-00410000 r-xp 00000000 08:01 42 /bin/x", b"00410000-00400000 r-xp 00000000 08:01 42 /bin/reversed",
                     b"00400000-00400000 rw-p 00000000 00:00 0", b"ffffffffffffffff-ffffffffffffffff r--p 00000000 00:00 0 [top]",
                     b"0-ffffffffffffffff rwxp 0 0:0 0", b"ffffffffffffff00-0 ---p 00000000 00:00 0", b"7f00-7f01 rwxs ffffffffffffffff ff:ff 18446744073709551615 /x (deleted)",
                     b"00400000-00410000 r-xp 00000000 08:01 42 " + b"A" * 300, b"00400000-00410000 r-xp", b"zz-yy r-xp 0 0:0 0", b"10000000000000000-10000000000000001 r-xp 0 0:0 0",
                     b"00400000-00410000 r-xp 00000000 08:01 42 /a b c", b"00405000-0040f000 rw-p 00001000 08:01 42 /overlap", b"", b"\xff\xfe-\x00 bad"]
            for i in range(len(lines)):
                for j in range(len(lines)):
                    if (i + 2 * j) % 3 and i != j:
                        continue
                    for nl in (b"\n", b"\r\n"):
                        d = Dump(be, ndir=3)
                        d.stream(ST["system_info"], d.sysinfo(9, platform=0x8201))
                        d.stream(ST["linux_maps"], lines[i] + nl + lines[j] + (nl if j % 2 else b""))
                        d.stream(ST["memory_info"], d.exlist([d.u64(0x400000, 0x400000) + d.u32(4, 0) + d.u64(0x8000) + d.u32(0x1000, 4, 0x20000, 0)], 48, hdr=16, wide=True))
                        self.dump("linux_maps_product", d.finish())
            # Memory64 regions whose base + size reaches / passes the top of the address space
            for base in (0, T64 - 64, T64 - 33, T64 - 32, T64 - 1):
                d = Dump(be, ndir=2)
                data = d.add(bytes(range(64)))
                d.stream(ST["system_info"], d.sysinfo(9))
                d.stream(ST["memory64"], d.u64(3, data) + d.u64(base, 32) + d.u64((base + 32) % T64, 0) + d.u64((base + 31) % T64, 32))
                self.dump("query_edge_product", d.finish())

    # ------------------------------------------------------------- round 4: every location descriptor -> in-bounds blob with boundary-valued words
    def location_content_product(self):
        """Each record kind that carries a MINIDUMP_LOCATION_DESCRIPTOR (thread stack, thread context, module CodeView record,
        module misc record, exception context, memory descriptor, unloaded/handle names are RVAs) points at the SAME in-bounds blob;
        blob size x which of its first words is hostile x boundary value (relative to the blob size and the file)."""
        for be in (False, True):
            for size in (1, 4, 12, 13, 16, 28, 64, 256):
                words = min(4, size // 4)
                for w in range(max(1, words)):
                    for v in (0, 1, 4, 11, 12, 13, size - 1, size, size + 1, 0xffff, 0x7fffffff, 0x80000000, 0xfffffffe, 0xffffffff):
                        d = Dump(be, ndir=5)
                        blob = bytearray((0x21 + 3 * i) & 0x7f for i in range(size))
                        if words:
                            blob[4 * w:4 * w + 4] = d.u32(v)
                        if size >= 16 and w != 0 and v % 3 == 0:
                            blob[0:4] = d.u32([0x53445352, 0x3031424e, 0x4270454c, 1, 4][v % 5])   # CodeView signatures / misc data types
                        at = d.add(bytes(blob))
                        name = d.utf16("m.dll")
                        loc = (size, at)
                        d.stream(ST["system_info"], d.sysinfo([0, 9, 12, 5][(w + v) % 4]))
                        d.stream(ST["thread_list"], d.list([d.thread(1, (0x7000, size, at), loc, teb=0x7000 - 52)]))
                        d.stream(ST["module_list"], d.list([d.module(0x400000, 0x1000, name, loc, loc), d.module(0x500000, 0x1000, name, (0, 0), loc)]))
                        d.stream(ST["memory_list"], d.list([d.u64(0x7000) + d.u32(size, at)]))
                        d.stream(ST["exception"], d.exception(1, ctx=loc))
                        self.dump("location_content_product", d.finish())

    # ------------------------------------------------------------- round 5: address tables (C01/LModel.v) — interval patterns x list kind
    def stack_words_product(self):
        """The stack words MinidumpThread::print writes (field TSW, C01/PModel.v): processor_architecture (every value the reader knows, an
        unknown one, no system info at all) x stack length around the 4- and 8-byte word sizes x where the stack comes from (read at parse
        time, found in the memory list, found in the Memory64 list, nowhere) x thread context (absent, or a valid record of that CPU: MIPS and
        SPARC contexts carry 64-bit registers on CPUs with 32-bit pointers) x byte order."""
        archs = [(name, v[0]) for name, v in CPUS.items() if name != "unknown"] + [("mips64", 0x8004), ("unknown", 0x1234), ("alpha", 2), ("none", None)]
        lens = [1, 3, 4, 5, 7, 8, 9, 12, 15, 16, 17, 23, 24, 33]
        q = self.tier == "quick"
        k = 0
        for name, arch in archs:
            for ln in lens:
                for source in ("own", "memlist", "mem64", "none"):
                    for withctx in (False, True):
                        k += 1
                        if withctx and name not in CPUS:
                            continue
                        for be in (False, True):
                            if q and (k + be) % 2:
                                continue
                            d = Dump(be, ndir=5)
                            blob = d.add(bytes((7 * i + 1) & 0xff for i in range(ln)))
                            cx = (0, 0)
                            if withctx:
                                cbytes = d.context(name)
                                cx = (len(cbytes), d.add(cbytes))
                            if arch is not None:
                                d.stream(ST["system_info"], d.sysinfo(arch))
                            base = 0x7000 if k % 3 else (1 << 64) - 64
                            if source == "own":
                                th = d.thread(7, (base, ln, blob), cx)
                            else:   # no readable stack of its own: start_of_memory_range points into (the middle of) the region, if there is one
                                th = d.thread(7, (base + ln // 2, 0, 0), cx)
                            d.stream(ST["thread_list"], d.list([th, d.thread(8, (base + ln, 0, 0), cx)]))   # thread 8: one past the region
                            if source == "memlist":
                                d.stream(ST["memory_list"], d.list([d.u64(base) + d.u32(ln, blob)]))
                            elif source == "mem64":
                                at = len(d.buf) + 16 + 16
                                d.stream(ST["memory64"], d.u64(1, at) + d.u64(base, ln) + bytes((3 * i) & 0xff for i in range(ln)))
                            self.dump("stack_words_product", d.finish())

    def lookup_product(self):
        """The same list of (base, size) intervals is written as a memory list, a module list, a memory-info list and a Memory64 list of one dump
        (plus a thread list whose ids repeat): disjoint in both orders, identical, nested, partially overlapping, adjacent, empty in between,
        ending at 2^64-1, passing 2^64, and 12-20 pseudo-random intervals (more than the eight probed elements: binary search over a longer table);
        bases at the bottom, around 2^32 and at the top of the address space; both byte orders."""
        T64 = 1 << 64
        pats = [
            [(0, 16), (32, 16), (64, 16)], [(64, 16), (32, 16), (0, 16)], [(0, 16), (0, 16)], [(0, 16), (0, 16), (0, 16), (8, 8)],
            [(0, 64), (16, 16)], [(16, 16), (0, 64)], [(0, 24), (16, 24)], [(16, 24), (0, 24)], [(0, 16), (16, 16), (32, 16)],
            [(0, 16), (16, 0), (16, 16)], [(0, 0)], [(0, 8), (0, 0), (8, 8), (4, 8), (100, 1), (99, 1), (101, 1)],
            [(0, 1), (1, 1), (2, 1), (3, 1), (4, 1), (5, 1), (6, 1), (7, 1), (8, 1), (9, 1)], [(9, 1), (8, 1), (7, 1), (6, 1), (5, 1), (4, 1), (3, 1), (2, 1), (1, 1), (0, 1)],
            [(0, 40), (8, 8), (24, 8), (48, 8)], [(48, 8), (0, 8), (0, 56)],
            [(0, 9), (8, 8)], [(0, 16), (15, 1)], [(15, 1), (0, 16), (16, 1)], [(0, 1), (0, 1), (1, 1)],     # the second starts exactly ON / just after the first one's last byte
        ]
        for k in range(6 if self.tier == "quick" else 60):
            n = self.rng.range(12, 20)
            pats.append([(self.rng.range(0, 40) * 4, self.rng.choice([0, 1, 4, 8, 8, 16, 40])) for _ in range(n)])
        tops = [[(T64 - 32, 16), (T64 - 16, 15)], [(T64 - 32, 16), (T64 - 16, 16)], [(T64 - 16, 16), (T64 - 32, 32), (T64 - 1, 1)], [(T64 - 8, 7), (T64 - 8, 8), (T64 - 64, 56)],
                [(T64 - 1, 1), (0, 1), (T64 - 2, 1)]]
        for be in (False, True):
            for bi, origin in enumerate((0, 0x1000, (1 << 32) - 24, T64 - 0x400)):
                for pi, pat in enumerate(pats + tops):
                    ivs = [((origin + b) % T64, z) for b, z in pat] if pi < len(pats) else (pat if bi == 0 else None)
                    if ivs is None:
                        continue
                    d = Dump(be, ndir=6)
                    blob = d.add(bytes((7 * i + 1) & 0xff for i in range(64)))
                    name = d.utf16("m%d" % pi)
                    d.stream(ST["system_info"], d.sysinfo([9, 0][pi % 2]))
                    d.stream(ST["memory_list"], d.list([d.u64(b) + d.u32(min(z, 64), blob) for b, z in ivs]))
                    d.stream(ST["module_list"], d.list([d.module(b, z, name) for b, z in ivs]))
                    d.stream(ST["memory_info"], d.exlist([d.u64(b, b) + d.u32(4, 0) + d.u64(z) + d.u32(0x1000, 4, 0x20000, 0) for b, z in ivs], 48, hdr=16, wide=True))
                    # stacks: none readable at parse time except every fourth; start_of_memory_range inside / at the end of / just past the interval (the stack_memory fallback)
                    d.stream(ST["thread_list"], d.list([d.thread([1, 2, 1, 3, 2, 1, 0xffffffff, 0][(i + pi) % 8],
                                                                 stack=((b + [0, z // 2, max(z, 1) - 1, z][(i + pi) % 4]) % T64, 8 if i % 4 == 3 else [0, 8][i % 2], blob if i % 4 == 3 else 0), teb=b)
                                                        for i, (b, z) in enumerate(ivs)]))
                    hdr_at = len(d.buf) + (-len(d.buf)) % 4
                    data_at = hdr_at + 16 + 16 * len(ivs)
                    # get_memory prefers a Memory64 list that parses: present / absent / present but rejected (one byte short), so that both lists serve as the unified list
                    if (pi + bi) % 3 != 1:
                        m64 = d.u64(len(ivs), data_at) + b"".join(d.u64(b, z) for b, z in ivs)
                        d.stream(ST["memory64"], m64, size=len(m64) - (1 if (pi + bi) % 3 == 2 and pi % 2 else 0))
                    d.add(bytes((3 * i) & 0xff for i in range(sum(z for _, z in ivs))), align=1)
                    self.dump("lookup_product", d.finish())

    # ------------------------------------------------------------- round 4: UTF-16 strings ending at / just past the end of the file, per reference site
    def utf16_edge_product(self):
        """The string blob is the last thing in the file: A payload bytes follow the u32 size word, and the size word says A + delta.
        Reference site (who holds the RVA) x A x delta x byte order; the streams come first so that only the string is cut."""
        for be in (False, True):
            for site in ("module", "unloaded", "thread_name", "handle_type", "handle_object", "csd", "bootargs"):
                for avail in (0, 1, 2, 3, 8, 9):
                    for delta in (-2, -1, 0, 1, 2, 3, 4):
                        if avail + delta < 0:
                            continue
                        d = Dump(be, ndir=3)
                        # every stream is written with a placeholder RVA first; the string is appended last and the RVA patched in
                        fix = []

                        def hole(width=4):
                            fix.append((len(stream), width))
                            return b"\0" * width
                        stream = bytearray()
                        if site == "module":
                            ty = ST["module_list"]
                            stream += d.u32(1) + d.u64(0x400000) + d.u32(0x1000, 0, 0x5000_0001)
                            stream += hole() + d.u32(0xfeef04bd, 0x10000, 1, 2, 3, 4, 0x3f, 0, 4, 1, 0, 0, 0) + d.u32(0, 0, 0, 0) + d.u64(0, 0)
                        elif site == "unloaded":
                            ty = ST["unloaded"]
                            stream += d.u32(12, 24, 1) + d.u64(0x500000) + d.u32(0x1000, 0, 0)
                            stream += hole()
                        elif site == "thread_name":
                            ty = ST["thread_names"]
                            stream += d.u32(1) + d.u32(7)
                            stream += hole(8)
                        elif site in ("handle_type", "handle_object"):
                            ty = ST["handle"]
                            stream += d.u32(16, 32, 1, 0) + d.u64(4)
                            stream += hole() if site == "handle_type" else d.u32(0)
                            stream += hole() if site == "handle_object" else d.u32(0)
                            stream += d.u32(1, 2, 3, 4)
                        elif site == "csd":
                            ty = ST["system_info"]
                            si = d.sysinfo(9)
                            stream += si[:24]
                            stream += hole()
                            stream += si[28:]
                        else:
                            ty = ST["mac_boot"]
                            stream += d.u32(ST["mac_boot"])
                            stream += hole(8)
                        if site != "csd":
                            d.stream(ST["system_info"], d.sysinfo(9))
                        srva = d.stream(ty, bytes(stream))
                        units = (b"a\0" if not be else b"\0a") * 8
                        rva = d.add(d.u32(avail + delta) + units[:avail], align=2)
                        for off, width in fix:
                            d.buf[srva + off:srva + off + width] = d.u32(rva) if width == 4 else d.u64(rva)
                        self.dump("utf16_edge_product", d.finish())

    # ------------------------------------------------------------- base dumps from minidump-synth and /repo/testdata
    def synth_and_samples(self, per_synth, per_sample):
        rng = self.rng
        exe = os.path.join(vlib.CACHE, "cargo-target", "debug", "c01")
        out = subprocess.run([exe, "--gen"], stdout=subprocess.PIPE, text=True, timeout=60, check=True).stdout
        for line in out.splitlines():
            name, hx = line.split()
            b = bytes.fromhex(hx)
            be = name == "be"
            self.dump("valid_synth", b)
            offs = list(range(0, len(b) - 3, 4))
            for _ in range(per_synth):
                o = rng.choice(offs)
                self.dump("synth_field_boundary", patch32(b, o, rng.choice(boundary_values(len(b))), be))
            for _ in range(per_synth // 8):
                self.dump("synth_truncation", b[: rng.below(len(b))])
        for name in SAMPLES + ["invalid-range.dmp", "invalid-record-count.dmp", "full-dump.dmp"]:
            self.add("sample", "F %s -" % name)
        for name in SAMPLES:
            n = os.path.getsize(os.path.join(vlib.REPO, "testdata", name))
            # field offsets that matter sit in the first KBs (header, directory, stream headers) and at stream starts
            for _ in range(per_sample):
                k = rng.range(1, 3)
                ps = []
                for _ in range(k):
                    o = 4 * rng.below(min(n, 4096) // 4) if rng.chance(1, 2) else 4 * rng.below(n // 4)
                    ps.append("%d:%d" % (o, rng.choice(boundary_values(n) + [n - 4, 15, 16, 17, 0x7777])))
                self.add("sample_field_boundary", "F %s %s" % (name, ",".join(ps)))

    def random_bytes(self, n):
        rng = self.rng
        for _ in range(n):
            ln = rng.choice([0, 1, 31, 32, 33, 44, 64, 200])
            b = bytearray(rng.below(256) for _ in range(ln))
            if ln >= 32 and rng.chance(3, 4):
                be = rng.chance(1, 2)
                b[0:8] = struct.pack(">II" if be else "<II", 0x504d444d, 0xa793)
                b[8:16] = struct.pack(">II" if be else "<II", rng.choice([0, 1, 2, 0xffffffff]), rng.choice([0, 16, 32, ln - 12, ln]))
            self.dump("random_bytes", bytes(b))


class C01(PropBase):
    pid = "C01"
    coq_dirs = ["Base", "C08", "C01"]       # C08: the range-map model the lookups are built on; C02/Layout + Gen/Layouts are imported (their own gates scan them)
    translators = ["c01_sites.py", "format_layouts.py", "c01_cpu.py"]
    bins = ["c01"]
    # Time limits are CPU-time limits: the harness's own watchdog ends a case after 20 s of CPU time, the `ms` field of an answer is CPU time,
    # and a model shard runs under `ulimit -t` (model_cmd). The two wall-clock numbers below are safety nets for a process that sleeps forever,
    # far above anything a loaded machine produces (round 5: a thorough model shard needed > 1 800 s wall at load 200, 110 s of CPU).
    impl_timeout = 7200
    model_timeout = 7200
    MODEL_CPU_S = 1500      # CPU seconds per model shard (quick: 25 s, thorough: 110-250 s measured)
    impl_mem_gb = 4
    rule = ("case = a byte string offered as a minidump (hex, or a /repo/testdata file with u32 patches). Exhaustive blocks: truncation of a "
            "10-stream dump at every offset; every 4-byte-aligned u32 of that dump replaced by each of {0,1,len-1,len,len+1,2^31,2^32-1}; both endians. "
            "Structured hostile streams built as cross products of hostile features (handle data: type pattern x chain shape x descriptor layout; misc size x xstate mask; cpu x flags x context size; crashpad string kind x reference site x count honesty; text separators/quotes/whitespace; directory count/rva/self-reference, list counts and padding, extended-list headers, UTF-16 lengths and surrogates, "
            "CodeView records, handle descriptors with object-info chains incl. cycles and unknown types, exceptions with every CPU context and "
            "number_parameters up to 2^32-1, Memory64 sizes summing past 2^64, crashpad/mac/misc/text streams), boundary mutation of two minidump-synth "
            "dumps and of the five sample dumps. Non-trivial = the header was accepted and at least one stream parsed or was rejected for a reason other "
            "than StreamNotFound; distinct = distinct case lines")
    trusted_base = [
        "Coq 8.16.1 kernel; vm_compute only in witnesses (c01_*_refuted) and non-vacuity examples",
        "hand-written model C01/Model.v of minidump.rs's list/string/directory/handle/exception machinery and of scroll 0.12's Pread bounds rule; "
        "tied to the code by the correspondence run (41 fields per case + the largest ledger entry as a lower bound of the measured peak request); its record sizes, field offsets / widths, array lengths and the CONTEXT_* table are proved equal to Gen/Layouts.v (translate/format_layouts.py, regenerated from format.rs): c01_layout_pinned",
        "C08's hand-written model of into_rangemap_safe / range-map (RM.C08.Model, validated against the code by C08's own check) under the lookup theorems of C01/LModel.v",
        "translate/c01_cpu.py (regex over Cpu::from_processor_architecture, Cpu::pointer_width, PointerWidth::size_in_bytes and the stack-word loop of MinidumpThread::print; aborts on any other shape); which CONTEXT_* array a *RegisterNumbers enum indexes is the reviewed table of C01/ConstIndex.v",
        "translate/c01_sites.py (regex/brace-level scan of the Rust source, not a Rust parser): finds the trap/loop/allocation/guard sites by their surface syntax; "
        "a panic hidden behind a method call it does not know (a new helper crate, an operator trait) is not a site; the classification of coq/C01/Sites.v "
        "(Covered/Safe/Searched) is a reviewed table, per function and kind, not a line-by-line refinement proof",
        "in-memory element sizes (size_of) in the ledger are compared with the harness's SIZES line on every run",
        "extraction: ExtrOcamlBasic only; ocaml/zconv.ml + ocaml/c01/main.ml; harness/src/bin/c01.rs with its counting global allocator and watchdog",
        "the model runs profile Debug; Release differs only where a chk_* site would wrap, which c01_no_panic excludes",
    ]
    assumptions = [
        "partial: only the modelled sites carry theorems; every other stream reader, all print routines, encoding_rs, "
        "time formatting, procfs parsing, BTreeMap/HashMap growth are exercised by the search harness and judged by the oracle, not proved",
        "HashMap::with_capacity(n) (thread list, thread info list) is sized from an already materialised Vec and is not a ledger entry",
        "usize is 64 bits; file length < 2^62 (any Rust slice satisfies len <= isize::MAX)",
    ]
    manifest = {
        "text": "partial: theorems (Coq, every byte string, Debug and Release) for the modelled core of the reader — header/endianness/directory walk, "
                "location_slice, ensure_count_in_bound, read_stream_list / read_ex_stream_list and the seven list streams built on them, Memory64, "
                "UTF-16/UTF-8/C-string readers, module/CodeView acceptance, the handle-data stream with its object-info chain, exception print "
                "indexing, context dispatch and print arms for exception and thread contexts, MiscInfo with its XSTATE feature iterator (no shift >= 64, "
                "no index >= 64), crashpad info (dictionaries, string lists, annotation objects, module links; UTF-8 validity), Linux text-stream key/value "
                "iteration, get_memory_at_address bounds: no Panic (c01_no_panic), every loop finishes within |file|+1 iterations (c01_terminates), every "
                "Vec::with_capacity is at most 10x the file, the list readers at most 4x the bytes of their stream (c01_alloc_backed, c01_*_total); the same statements are REFUTED for the code before the fix commits with concrete files "
                "(c01_*_unfixed_refuted: F-C01a..d). The rest of the property lives in the runtime and is searched, not proved: a harness with a counting "
                "global allocator and a watchdog opens each case, requests all 24 stream types, runs every accessor and print routine, and an oracle "
                "requires no panic, termination and a largest single allocation <= max(64 KiB, 16*len); the extracted model must agree with the real "
                "reader on 41 observables per case. Round 4: the queries on a parsed dump are modelled and proved for both profiles (memory_range of regions / memory info / "
                "modules: c01_memory_range_sound; MinidumpThread::last_error address arithmetic: c01_last_error_in_bounds; get_crash_address: c01_crash_address_total; "
                "ELF debug id padding: c01_elf_debug_id_reads; the four compared query fields: c01_crash_queries_total). A source scan lists every index / unwrap / "
                "panic macro / unchecked arithmetic / division / integer cast / allocation / copy / unsafe / loop / inequality / guard site of minidump/src and "
                "minidump-common/src (1 138 sites in 440 groups; kinds incl. panicking calls such as Range::new, self-recursion, equality guards and early exits); c01_sites_pinned proves the scanned list equal (count and digest per function and kind) to the reviewed "
                "table C01/Sites.v and c01_sites_classified that every group is covered by a named theorem, safe for a stated reason, or searched by a named harness step - "
                "a new or edited site, or a removed guard, breaks that obligation before any failing input is needed. "
                "Round 5: the address / id lookups are inside the model (from_modules / from_regions + module_at_address, memory_at_address of both memory lists, memory_info_at_address, by_addr, "
                "get_thread, Minidump::get_memory and the MinidumpThread::stack_memory fallback; get_thread_info; seven compared fields AM AL AI A6 TG TS TIG) over C08's range-map model: for ANY list of optional ranges the table build does not panic, every stored index and every "
                "index a lookup returns is a position of the list whose own range contains the address (c01_address_lookup_total, c01_unloaded_lookup_in_range, c01_get_thread_index_total, "
                "c01_lookups_total and c01_stack_source_total for every byte string). The layout constants of the models (35 record sizes, 75 field offsets/widths, 5 array lengths, the CONTEXT_* table) are proved equal to "
                "the layouts regenerated from format.rs (c01_layout_pinned), and every index site with an integer-literal index found by the scan (394 sites) is proved below the length of its "
                "array as the generated layouts give it (c01_const_indices_in_bounds). "
                "Second pass of round 5: the stack words MinidumpThread::print writes are inside the model (Cpu::from_processor_architecture, Cpu::pointer_width, PointerWidth::size_in_bytes, the chunks_exact / "
                "try_into().unwrap() / offset += chunk loop with a word counter, over the stack the thread owns or finds through get_memory; compared field TSW = words and bytes per word of the first eight threads, read off the real print output): "
                "for EVERY processor_architecture value (or no system info) and any stack length the loop neither traps nor runs out of fuel, writes len / chunk words of 4 or 8 bytes, and the chunk has the length of the array it must fill "
                "(c01_thread_print_words_total; c01_thread_stack_words_total for every byte string); the CPU / pointer-width / word-size tables and the array length of each arm of the loop are regenerated from system_info.rs and minidump.rs "
                "by translate/c01_cpu.py and proved equal to the model's, with chunk = array stated on the generated tables alone (c01_cpu_tables_pinned). Indices that are discriminants of the *RegisterNumbers enums of format.rs "
                "(`iregs[md::MipsRegisterNumbers::StackPointer as usize]`, `iregs[*reg as usize]` over a const list) and literal range bounds count as constant indices (444 sites), and a group rests on c01_const_indices_in_bounds only if all its index sites are constant. "
                "The lookup table behind the stack fallback has a ledger entry (into_rangemap_safe's with_capacity, 24-byte entries): at most 1.5 x the file (c01_lookup_table_alloc_backed). Time limits of the run are CPU-time limits.",
        "note": "Trusted: Coq kernel; hand-written model (correspondence-checked on every run, not verified against the Rust source); scroll's Pread "
                "bounds rule as read from its source; extraction + OCaml/Rust glue; the counting allocator. Not covered by theorem: the groups classified "
                "Searched in C01/Sites.v (106 of 440 groups: CrashReason tables and Display, most printer bodies, the `unreachable!` arms of get_register_always for unknown register names, system-info formatting, procfs maps), "
                "encoding_rs/time. C08's range-map model is reused, not re-verified here. The site scan is syntactic (regex over blanked source), its classification a reviewed table. No axioms.",
    }

    def model_cmd(self, exe):
        return ["/bin/sh", "-c", "ulimit -t %d; exec \"$0\"" % self.MODEL_CPU_S, exe]

    def gen_cases(self, tier, seed):
        rng = Rng(seed)
        g = Gen(rng, tier)
        q = tier == "quick"
        g.add("sizes", "SIZES")
        g.exhaustive()
        g.directory()
        g.lists(150 if q else 3000)
        g.modules(700 if q else 8000)
        g.handle_product()
        g.handles(1000 if q else 20000)
        g.exceptions(400 if q else 6000)
        g.memory64(500 if q else 6000)
        g.exercised(500 if q else 6000)
        g.round2(400 if q else 5000)
        g.round3()
        g.round4(1500 if q else 9000)
        g.location_content_product()
        g.lookup_product()
        g.stack_words_product()
        g.utf16_edge_product()
        g.synth_and_samples(700 if q else 8000, 160 if q else 700)       # a mutated sample dump costs the model 0.15-0.5 s of CPU (11-27 KB as a list): with 2 000 per sample this block alone was 2/3 of the thorough tier's model time (16 shards x 150-250 s of CPU; at load 175 a shard gets 5 % of a core)
        g.random_bytes(200 if q else 3000)
        # the runner shards the case list into NCPU contiguous ranges: deal the cases round-robin so that every shard gets the
        # same mix of cheap and expensive cases (the exhaustive blocks over 2 KB dumps are otherwise all in the first shards)
        k = vlib.NCPU
        dealt = [c for i in range(k) for c in g.cases[i::k]]
        return dealt + g.late, g.dist, False

    # ---------------------------------------------------------------- canonical forms
    @staticmethod
    def fields(ans):
        out = {}
        for kv in ans.split(";"):
            if "=" in kv:
                k, v = kv.split("=", 1)
                out[k] = v
        return out

    def canon_model(self, case, ans):
        if ans == "?":
            return None
        if ans.startswith("SIZES"):
            return ans
        f = self.fields(ans)
        return ";".join("%s=%s" % (k, "!P" if f[k].startswith("!P(") else f[k]) for k in MODEL_FIELDS if k in f)

    def canon_impl(self, case, ans, profile):
        if ans.startswith("SIZES"):
            return "SIZES " + " ".join(x.split("=")[1] for x in ans.split()[1:])
        if ans.startswith("P;;"):
            return "!P"
        f = self.fields(ans)
        out = []
        for k in MODEL_FIELDS:
            if k not in f:
                continue
            v = f[k]
            if v.startswith("!P("):
                v = "!P"
            elif k in ("EXP", "EXC", "TLP") and v == "-":
                v = "ok"
            out.append("%s=%s" % (k, v))
        return ";".join(out)

    # ---------------------------------------------------------------- oracle: the property on the real code's answer
    def oracle(self, case, ans, profile):
        if case == "SIZES":
            return None
        if ans.startswith("P;;"):
            return "panic outside every guarded step: " + ans[3:200]
        m = re.search(r"(\w+)=!P\(([^)]*)\)?", ans)
        if m:
            return "panic in step %s: %s" % (m.group(1), m.group(2)[:160])
        f = self.fields(ans)
        try:
            ln, pk, live, ms = int(f["len"]), int(f["pk"]), int(f["live"]), int(f["ms"])
        except (KeyError, ValueError):
            return "unparseable answer " + ans[:120]
        if pk > max(PK_FLOOR, PK_PER_BYTE * ln):
            return "single allocation of %d bytes requested for a %d-byte input (bound max(%d, %d*len))" % (pk, ln, PK_FLOOR, PK_PER_BYTE)
        if live > max(LIVE_FLOOR, 64 * ln * ln):
            return "live heap grew by %d bytes for a %d-byte input (bound max(4 MiB, 64*len^2))" % (live, ln)
        if ms > SLOW_MS:
            return "case took %d ms of CPU time" % ms
        return None

    def nontrivial(self, case, ans):
        f = self.fields(ans)
        if not f.get("R", "").startswith("ok"):
            return False
        return any(v.startswith("ok") or (v.startswith("err") and "NotFound" not in v) for k, v in f.items() if k not in ("R", "HP", "TC", "MP"))

    # ---------------------------------------------------------------- ledger tie: the modelled with_capacity really happens
    def extra(self, ctx):
        out = []
        model = ctx["model"]
        if model is None:
            return out
        checked = 0
        for prof, answers in ctx["impl"].items():
            for c, m, a in zip(ctx["cases"], model, answers):
                if a is None or m is None or m == "?" or c == "SIZES":
                    continue
                fm, fa = self.fields(m), self.fields(a)
                if "led" not in fm or "pk" not in fa:
                    continue
                led = int(fm["led"])
                if led >= 1024:
                    checked += 1
                    if int(fa["pk"]) < led and "!P" not in a:
                        out.append({"case": c, "profile": prof, "found_input": False,
                                    "what": "correspondence: the model's ledger records a with_capacity of %d bytes, the largest request measured was %s" % (led, fa["pk"])})
        ctx["info"]["ledger_lower_bound_checked"] = checked
        # distribution per stream / step tag and outcome class, as the real code answered (debug profile; release likewise in *_release)
        for prof, answers in ctx["impl"].items():
            table, slow, pkmax = {}, 0, 0
            for c, a in zip(ctx["cases"], answers):
                if a is None or c == "SIZES" or a.startswith("P;;"):
                    continue
                f = self.fields(a)
                for k, v in f.items():
                    if k in ("len", "pk", "live", "ms"):
                        continue
                    cls = "panic" if v.startswith("!P") else v.split(":")[0] if not v.startswith("err:") else v
                    if cls == "-":
                        cls = "absent"
                    row = table.setdefault(k, {})
                    row[cls] = row.get(cls, 0) + 1
                try:
                    pkmax = max(pkmax, int(f.get("pk", "0")))
                    slow = max(slow, int(f.get("ms", "0")))
                except ValueError:
                    pass
            ctx["info"]["outcomes_by_step_" + prof] = {k: dict(sorted(v.items())) for k, v in sorted(table.items())}
            ctx["info"]["max_single_allocation_" + prof] = pkmax
            ctx["info"]["max_case_ms_" + prof] = slow
        # round 5: how much the lookup fields had to say (debug profile): cases with a table of >= 2 entries, lookups that found an element / none,
        # stacks by source, unified list kinds
        try:
            st = {"tables_ge2": 0, "found": 0, "not_found": 0, "ts_own": 0, "ts_fallback": 0, "ts_none": 0, "kind_memory64": 0, "kind_memory_list": 0, "tg_later_index": 0,
                  "tsw_threads_4_byte_words": 0, "tsw_threads_8_byte_words": 0, "tsw_threads_no_stack": 0, "tsw_threads_stack_below_one_word": 0, "tsw_words": 0}
            for c, a in zip(ctx["cases"], ctx["impl"].get("debug", [])):
                if a is None or c == "SIZES" or a.startswith("P;;"):
                    continue
                f = self.fields(a)
                for k in ("AM", "AL", "AI", "A6"):
                    v = f.get(k, "")
                    if v.startswith("ok:"):
                        xs = v.split(":")[1:]
                        st["tables_ge2"] += xs[0].isdigit() and int(xs[0]) >= 2
                        st["found"] += sum(1 for x in xs[1:] if x != "-1")
                        st["not_found"] += sum(1 for x in xs[1:] if x == "-1")
                v = f.get("TS", "")
                if v.startswith("ok:"):
                    xs = v.split(":")[1:]
                    st["kind_memory64"] += xs[0] == "2"
                    st["kind_memory_list"] += xs[0] == "1"
                    st["ts_own"] += xs[1:].count("-2")
                    st["ts_none"] += xs[1:].count("-1")
                    st["ts_fallback"] += sum(1 for x in xs[1:] if not x.startswith("-"))
                v = f.get("TSW", "")
                if v.startswith("ok:"):
                    for x in v.split(":")[1:]:
                        if x == "-1":
                            st["tsw_threads_no_stack"] += 1
                        elif x == "0":
                            st["tsw_threads_stack_below_one_word"] += 1
                        elif x.isdigit():
                            st["tsw_threads_%d_byte_words" % (int(x) % 16)] = st.get("tsw_threads_%d_byte_words" % (int(x) % 16), 0) + 1
                            st["tsw_words"] += int(x) // 16
                v = f.get("TG", "")
                if v.startswith("ok:"):
                    st["tg_later_index"] += sum(1 for i, x in enumerate(v.split(":")[1:]) if x.isdigit() and int(x) > i)
            ctx["info"]["lookup_field_stats"] = {k: int(v) for k, v in st.items()}
        except Exception as e:      # statistics only
            ctx["info"]["lookup_field_stats"] = "unavailable: %s" % e
        # the site scan (translate/c01_sites.py) in numbers
        try:
            txt = open(os.path.join(vlib.COQ, "C01", "Sites.v")).read()
            ctx["info"]["site_groups"] = {c: len(re.findall(r"\), %s \"" % c, txt)) for c in ("Covered", "Safe", "Searched", "Unreviewed")}
            gen = open(os.path.join(vlib.COQ, "Gen", "C01Sites.v")).read()
            m = re.search(r"scanned_site_count : nat := (\d+)", gen)
            ctx["info"]["sites_scanned"] = int(m.group(1)) if m else None
        except OSError:
            pass
        return out


PROP = C01()
