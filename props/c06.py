"""C06 — STACK CFI rules evaluate exactly as the documented postfix language."""
import itertools
import re

from runner import PropBase
from vlib import Rng

U64 = (1 << 64) - 1
M64 = 1 << 64
ALPHABET = ["+", "-", "*", "/", "%", "@", "^", ".cfa", ".ra", ".undef", "8", "-1", "$r0", "r1", "junk",
            "9223372036854775808", "r2:"]
MODBASE = 0x40000000

# ----------------------------------------------------------------------------- reference semantics
# (written from the module documentation of walker.rs, independently of coq/C06/Model.v)
INT_RE = re.compile(r"^[+-]?[0-9]+$")
WS_RE = re.compile("[ \\t\\x0c]+")      # split_ascii_whitespace (\\n, \\r cannot occur inside a record line)


def toks_of(text):
    return [t for t in WS_RE.split(text) if t]


def ref_parse(text, rules):
    """REG: EXPR REG: EXPR ...  -> updates rules (dict name -> token list); False if malformed"""
    cur, expr = None, []
    for t in toks_of(text):
        if t.endswith(":"):
            if cur is not None:
                if not expr:
                    return False
                rules[cur] = expr
            name = t[:-1]
            if name not in (".cfa", ".ra") and name.startswith("$"):
                name = name[1:]
            cur, expr = name, []
        else:
            if cur is None:
                return False
            expr.append(t)
    if cur is None or not expr:
        return False
    rules[cur] = expr
    return True


def ref_eval(expr, callee, mem, cfa):
    """-> (value or None, documented?)  value None = the rule fails"""
    st = []
    for t in expr:
        if t in ("+", "-", "*", "/", "%", "@"):
            if len(st) < 2:
                return None
            r = st.pop()
            l = st.pop()
            if t == "+":
                v = (l + r) % M64
            elif t == "-":
                v = (l - r) % M64
            elif t == "*":
                v = (l * r) % M64
            elif t == "/":
                if r == 0:
                    return None
                v = l // r
            elif t == "%":
                if r == 0:
                    return None
                v = l % r
            else:
                if r == 0 or (r & (r - 1)) != 0:
                    return None
                v = l - (l % r)
            st.append(v)
        elif t == "^":
            if not st:
                return None
            v = mem(st.pop())
            if v is None:
                return None
            st.append(v)
        elif t == ".cfa":
            if cfa is None:
                return None
            st.append(cfa)
        elif t == ".undef":
            return None
        elif t.startswith("$"):
            v = callee(t[1:])
            if v is None:
                return None
            st.append(v)
        elif INT_RE.match(t) and -(1 << 63) <= int(t) < (1 << 63):
            st.append(int(t) % M64)
        else:
            v = callee(t)
            if v is None:
                return None
            st.append(v)
    return st[0] if len(st) == 1 else None


def undocumented(text):
    """tokens whose meaning the documentation does not fix (a '$' that is not the first character)"""
    return any("$" in t[1:] for t in toks_of(text) if not t.endswith(":")) or \
        any("$" in t[1:-1] for t in toks_of(text) if t.endswith(":"))


def ref_rules(initaddr, initsize, init, deltas, lookup):
    """-> rules dict, None (no record / malformed)"""
    if initsize == 0 or initaddr + initsize > U64:
        return None
    if not (initaddr <= lookup <= initaddr + initsize - 1):
        return None
    rules = {}
    if not ref_parse(init, rules):
        return None
    for a, t in sorted(deltas):
        if a <= lookup:
            if not ref_parse(t, rules):
                return None
    return rules


def mem_reader(w, base, data):
    def rd(a):
        if a < base or a - base + w > len(data):
            return None
        return int.from_bytes(data[a - base:a - base + w], "little")
    return rd


def parse_regs(s):
    if s in ("-", ""):
        return {}
    return {k: int(v) for k, v in (kv.split("=") for kv in s.split(","))}


ARCH = {
    "x86": dict(w=4, regs=["eip", "esp", "ebp", "ebx", "esi", "edi", "eax", "ecx", "edx", "eflags"], alias={},
                sp="esp", ip="eip", saved=["ebp", "ebx", "edi", "esi"], strict_sp=True, strip=[]),
    "amd64": dict(w=8, regs=["rax", "rdx", "rcx", "rbx", "rsi", "rdi", "rbp", "rsp", "r8", "r9", "r10", "r11", "r12",
                             "r13", "r14", "r15", "rip"], alias={}, sp="rsp", ip="rip",
                  saved=["rbx", "rbp", "r12", "r13", "r14", "r15"], strict_sp=True, strip=[]),
    "arm64": dict(w=8, regs=["x%d" % i for i in range(29)] + ["fp", "lr", "sp", "pc"], alias={"x29": "fp", "x30": "lr"},
                  sp="sp", ip="pc", saved=["x%d" % i for i in range(19, 29)] + ["fp"], strict_sp=False,
                  strip=["pc", "lr", "fp"]),
    # (the pre-2016 arm64 context layout, driven through arm64_old.rs, is added below: ARCH["arm64_old"] = ARCH["arm64"])
    # 32-bit ARM: r11/r13/r14/r15 are other names of fp/sp/lr/pc; a context frame may be a leaf (sp may stay)
    "arm": dict(w=4, regs=["r%d" % i for i in range(11)] + ["r12", "fp", "sp", "lr", "pc"],
                alias={"r11": "fp", "r13": "sp", "r14": "lr", "r15": "pc"}, sp="sp", ip="pc",
                saved=["r4", "r5", "r6", "r7", "r8", "r9", "r10", "fp"], strict_sp=False, strip=[]),
    # MIPS: one context layout with 64-bit slots; without the MIPS64 flag registers are 32 bits wide (a rule reads the
    # low 32 bits of a slot, values must fit 32 bits); sp is among the registers forwarded by default
    "mips": dict(w=4, regs=["gp", "sp", "fp", "ra", "pc"] + ["s%d" % i for i in range(8)], alias={}, sp="sp", ip="pc",
                 saved=["s%d" % i for i in range(8)] + ["gp", "sp", "fp"], strict_sp=False, strip=[], view=32),
    "mips64": dict(w=8, regs=["gp", "sp", "fp", "ra", "pc"] + ["s%d" % i for i in range(8)], alias={}, sp="sp", ip="pc",
                   saved=["s%d" % i for i in range(8)] + ["gp", "sp", "fp"], strict_sp=False, strip=[]),
}


ARCH["arm64_old"] = ARCH["arm64"]


def canon_name(A, n):
    if n in A["alias"]:
        return A["alias"][n]
    return n if n in A["regs"] else None


def ref_mock_core(w, lookup, callee, mem, initaddr, initsize, init, deltas):
    rules = ref_rules(initaddr, initsize, init, deltas, lookup)
    if rules is None or ".cfa" not in rules or ".ra" not in rules:
        return "N"
    fits = (lambda v: True) if w == 8 else (lambda v: v < (1 << 32))
    cfa = ref_eval(rules[".cfa"], callee.get, mem, None)
    if cfa is None:
        return "N"
    ra = ref_eval(rules[".ra"], callee.get, mem, cfa)
    if ra is None or not fits(cfa) or not fits(ra):
        return "N"
    regs, cleared = {}, set()
    for name, e in rules.items():
        if name in (".cfa", ".ra"):
            continue
        v = ref_eval(e, callee.get, mem, cfa)
        if v is None or name.startswith("no") or not fits(v):
            cleared.add(name)      # unknown in the caller
        else:
            regs[name] = v
    return "S|cfa=%d|ra=%d|regs=%s|cleared=%s" % (
        cfa, ra, ",".join("%s=%d" % kv for kv in sorted(regs.items())), ",".join(sorted(cleared)))


def ref_mock(f):
    """expected answer of an A case"""
    w, lookup, initaddr, initsize = int(f[1]), int(f[2]), int(f[3]), int(f[4])
    callee = parse_regs(f[5])
    mem = mem_reader(w, int(f[6]), bytes.fromhex(f[7]) if f[7] != "-" else b"")
    deltas = [(int(f[i]), f[i + 1]) for i in range(9, len(f) - 1, 2)]
    return ref_mock_core(w, lookup, callee, mem, initaddr, initsize, f[8], deltas)


def parse_recs(f):
    recs = []
    for r in f[6:]:
        g = r.split(";")
        recs.append((int(g[0]), int(g[1]), g[2], [(int(g[i]), g[i + 1]) for i in range(3, len(g) - 1, 2)]))
    return recs


def ref_multi(f):
    """expected answers of an M case -> (set of acceptable answers, exact?)
    A record has a range when its size is not 0 and its end fits u64.  The record used for a lookup address is one whose
    range covers it.  When the covering record overlaps no other record of the file the answer is fixed (its walk, with
    ITS delta records); for overlapping INIT records (malformed input, the documentation is silent on which one is
    kept) the answer must still be the walk of SOME covering record, or N."""
    w, lookup = int(f[1]), int(f[2])
    callee = parse_regs(f[3])
    mem = mem_reader(w, int(f[4]), bytes.fromhex(f[5]) if f[5] != "-" else b"")
    recs = [r for r in parse_recs(f) if r[1] != 0 and r[0] + r[1] <= U64]
    hits = [r for r in recs if r[0] <= lookup <= r[0] + r[1] - 1]
    if not hits:
        return {"N"}
    walks = {ref_mock_core(w, lookup, callee, mem, ia, isz, init, deltas) for (ia, isz, init, deltas) in hits}
    if len(hits) == 1:
        h = hits[0]
        others = list(recs)
        others.remove(h)        # one occurrence: an identical duplicate is an "other" (same walk, harmless)
        if all(o[0] + o[1] <= h[0] or h[0] + h[1] <= o[0] or o == h for o in others):
            return walks
    return walks | {"N"}


def ref_real(f):
    """expected answer of a B case; second component: set of canonical registers whose value the
    documentation leaves open (two rules naming the same machine register)"""
    A = ARCH[f[1]]
    ctx = parse_regs(f[2])
    validset = None if f[3] == "all" else (set() if f[3] == "-" else set(f[3].split(",")))
    w = A["w"]
    mem = mem_reader(w, int(f[4]), bytes.fromhex(f[5]) if f[5] != "-" else b"")
    initaddr, initsize = int(f[6]), int(f[7])
    deltas = [(int(f[i]), f[i + 1]) for i in range(9, len(f) - 1, 2)]
    ip, sp = ctx.get(A["ip"], 0), ctx.get(A["sp"], 0)
    nstack = len(bytes.fromhex(f[5])) if f[5] != "-" else 0
    if nstack == 0 or int(f[4]) + nstack > U64:
        return "N", set()       # walk_stack unwinds only with a stack memory that has a range (not empty, end within u64)
    if validset is not None and A["sp"] not in validset:
        return "N", set()
    if not (MODBASE <= ip < MODBASE + 0x10000):
        return "N", set()

    def callee(n):
        c = canon_name(A, n)
        if c is None or (validset is not None and c not in validset):
            return None
        return ctx.get(c, 0) & ((1 << A.get("view", 64)) - 1)
    rules = ref_rules(initaddr, initsize, f[8], deltas, ip - MODBASE)
    if rules is None or ".cfa" not in rules or ".ra" not in rules:
        return "N", set()
    fits = lambda v: v < (1 << (8 * w))
    cfa = ref_eval(rules[".cfa"], callee, mem, None)
    if cfa is None:
        return "N", set()
    ra = ref_eval(rules[".ra"], callee, mem, cfa)
    if ra is None or not fits(cfa) or not fits(ra):
        return "N", set()
    vals = {c: ctx.get(c, 0) for c in A["regs"]}
    valid = {c for c in A["saved"] if validset is None or c in validset}
    vals[A["sp"]] = cfa
    vals[A["ip"]] = ra
    valid |= {A["sp"], A["ip"]}
    seen, open_ = {}, set()
    for name in sorted(rules):
        if name in (".cfa", ".ra"):
            continue
        c = canon_name(A, name)
        if c is None:
            continue
        if c in seen or c in (A["sp"], A["ip"]):
            open_.add(c)
        seen[c] = name
        v = ref_eval(rules[name], callee, mem, cfa)
        if v is None or not fits(v):
            valid.discard(c)
        else:
            vals[c] = v
            valid.add(c)
    for c in A["strip"]:
        vals[c] &= (1 << 47) - 1
    if vals[A["ip"]] < 4096:
        return "N", open_
    if vals[A["sp"]] < sp or (A["strict_sp"] and vals[A["sp"]] == sp):
        return "N", open_
    names = sorted(valid)
    return "S|valid=%s|regs=%s" % (",".join(names), ",".join("%s=%d" % (n, vals[n]) for n in names)), open_


class C06(PropBase):
    pid = "C06"
    coq_dirs = ["Base", "Gen", "C06"]
    translators = ["c06_cfi_ops.py", "unwind_consts.py", "c08_tables.py"]
    bins = ["c06"]
    rule = ("case = one STACK CFI INIT record + delta records, a lookup address, callee registers and a memory image, walked "
            "(A) by SymbolFile::walk_frame with a mock FrameWalker (M: several INIT records in one file - disjoint, adjacent, overlapping, duplicated, empty, ending beyond u64) or (B) by one walk_stack step through the real "
            "CfiStackWalker (x86/amd64/arm64/arm64_old/arm/mips/mips64). Exhaustive: every expression of length <= L over the 17-token alphabet "
            "in each of the three rule positions (.cfa, .ra, a general register) x 6 environments (L=3 quick, 4 thorough on a "
            "sub-grid); random programs to length 24; random delta-record sets around the lookup address incl. duplicate "
            "addresses; rule-isolation pairs (two or three general-register rules per walk); tab / form-feed / repeated separators, 2400-token programs and "
            "650-character tokens; malformed texts (tokens in front of the first label, lone / double labels); stack memories without a range; per-architecture expression grids (alias spellings, partial validity sets, a MIPS slot above 2^32) and beyond-32-bit dereferences for (B). Non-trivial = the walk succeeded (Some). distinct = distinct case lines")
    trusted_base = [
        "Coq 8.16.1 kernel (vm_compute only in Examples / witness lemmas)",
        "translate/c06_cfi_ops.py (Rust subset -> Gen/CfiOps.v: operator arms, default chain, label chain, walk skeleton, record selection, Register widths of the ARM / MIPS contexts; pins of parse_cfi_exprs' commit code, CfiReg / CfiRules / StackInfoCfi derives, StackInfoCfi::memory_range, CfiStackWalker's nine FrameWalker callbacks, Mips32Context, CONTEXT_ARM::register_is_valid), translate/unwind_consts.py (register tables) and translate/c08_tables.py (memory_range, into_rangemap_safe, range-map: the record table of C06/FileTable.v is C08's generated one)",
        "the hand-written parts of C06/Model.v that no translator regenerates: split_ascii_whitespace (is_ws), i64::from_str (parse_int), the HashMap as an association list, the slice bounds of commit, cfi_covers, the mock walker, memoize / width check of real_ops; tied to the code by the correspondence run",
        "nom parsing of the STACK CFI lines and <arch>::get_caller_by_cfi / get_caller_frame post-processing are exercised by the harness, not proved (post-processing mirrored in C06/Driver.v post_real and C06/ArchDriver.v post_real2); the RangeMap lookup of the INIT record is C08's model (rm_get), reused",
        "extraction: ExtrOcamlBasic only; ocaml/zconv.ml + ocaml/c06/main.ml glue; harness/src/bin/c06.rs + harness/src/cfi_common.rs (mock FrameWalker, one-step walk_stack driver)",
    ]
    manifest = {
        "text": "Theorems (Coq, all rule texts as byte strings, all walkers, both profiles): STACK CFI evaluation never panics (slice bounds, unreachable!, rhs-1, "
                "wrapping_div/rem by zero), the result does not depend on the order in which non-.cfa/.ra rules are applied when targets do not alias, each documented "
                "failure makes exactly its rule fail (mandatory rule -> None, other register -> cleared), a whole unwind step (INIT + delta records, lookup address) equals "
                "an independent transcription of the documented semantics for the abstract walker and for CfiStackWalker on every architecture table (c06_refines_spec, "
                "c06_real_walker_refines_spec); the extracted walk_stack entry point for x86/amd64/arm64/arm/mips/mips64 equals that documented result followed by the per-architecture hand-over (c06_real_end_to_end; tables well-formed and computed from the generated constants, c06_arch_tables_wellformed); several INIT records in one file go through C08's generated record table: never a panic, a lookup returns only a record of the file that covers the address, an isolated record is always found, of overlapping records the smallest (start, end) key wins, records without a range (size 0, end beyond u64) are invisible, file order is irrelevant when ranges differ (c06_file_table, c06_file_walk, c06_overlap_first_key_wins, c06_file_refines_spec, c06_rangeless_records_invisible, c06_file_order_irrelevant); walk_stack's stack-memory precondition is in the model (c06_no_stack_no_frame), re-tokenising the kept substring yields the model's token lists (c06_retokenise), record selection = the delta records at or below the lookup address in (address, text) order (c06_selection_spec), declarative specs of the tokenizer and of decimal literals (c06_tokenizer_spec, c06_literal_spec), aliasing targets of the real walker: the greatest register name decides (c06_real_alias_last_name_wins). The evaluator these theorems speak about is "
                "REGENERATED from walker.rs / mod.rs / parser.rs on every run (Gen/CfiOps.v: operator arms as statement lists, default chain, label chain, walk skeleton, "
                "record selection) and proved equal to the hand model (c06_gen_model_is_model, c06_gen_*); the architecture tables are those of Gen/UnwindConsts.v "
                "(c06_arch_tables_pinned). The extracted generated model is compared with the code on exhaustive short programs in every rule position, rule-isolation "
                "pairs, random long programs, odd spacing / very long inputs, malformed texts, delta-record sets, files with several (also overlapping) INIT records, through a mock FrameWalker and through walk_stack on x86/amd64/arm64 (both context layouts)/arm/mips/mips64 (incl. "
                "dereferences beyond 32 bits), debug and release; an independent Python reference interpreter judges every implementation answer.",
        "note": "Trusted: Coq kernel; translators; hand-written tokenizer / integer parser / walker tables (correspondence-checked); extraction + OCaml/Rust glue; nom line parsing and per-arch post-processing only exercised. No axioms.",
    }
    assumptions = ["tracing side effects not modelled",
                   "non-ASCII rule text is rejected by the parser (from_utf8) before it reaches the evaluator; generators are ASCII (incl. \\t, \\x0b, \\x0c; \\n and \\r end the record line)",
                   "duplicate delta addresses are ordered by rule text (CfiRules' derived Ord), which the oracle adopts as the meaning of 'address order'",
                   "overlapping INIT records are malformed input: the oracle accepts the walk of any covering record or None (the model, C08's record table, fixes which: the smallest (start, end) key); an INIT record ending at 2^64-1 has no range",
                   "a 32-bit MIPS context whose 64-bit slots hold values above 2^32: rules read the low 32 bits (Mips32Context), forwarded registers keep the slot"]

    def canon_model(self, case, ans):
        return "P;;" if ans.startswith("P;;") else ans

    def canon_impl(self, case, ans, profile):
        return "P;;" if ans.startswith("P;;") else ans

    # ------------------------------------------------------------------ generators
    ENVS = [
        # (W, regs, membase, memhex)
        (8, "r0=24,r1=18446744073709551615,sp=16", 0, bytes(range(1, 65)).hex()),
        (8, "r0=8,r1=3,r2=5", 8, (b"\xff" * 8 + bytes(range(16, 40))).hex()),
        (8, "r1=0", 0, "-"),
        (4, "r0=24,r1=4294967295", 0, bytes(range(1, 65)).hex()),
        (4, "r0=4294967296,r1=8", 16, (b"\x00\x10\x00\x40" * 6).hex()),
        (8, "r0=9223372036854775808,r1=2,junk=7", 18446744073709551600, bytes(range(100, 116)).hex()),
    ]

    def positions(self, e):
        return [".cfa: %s .ra: 8" % e, ".cfa: 16 .ra: %s" % e, ".cfa: 16 .ra: 8 $r3: %s" % e]

    def gen_cases(self, tier, seed):
        rng = Rng(seed)
        cases = []
        dist = {"exhaustive_exprs": 0, "random_programs": 0, "delta_sets": 0, "real_walker": 0, "by_kind": {"A": 0, "B": 0}}

        def addA(w, lookup, ia, isz, regs, mb, mh, init, deltas=()):
            f = ["A", str(w), str(lookup), str(ia), str(isz), regs, str(mb), mh, init]
            for a, t in deltas:
                f += [str(a), t]
            cases.append("|".join(f))
            dist["by_kind"]["A"] += 1

        L = 3
        exprs = [" ".join(c) for n in range(0, L + 1) for c in itertools.product(ALPHABET, repeat=n)]
        for e in exprs:
            dist["exhaustive_exprs"] += 1
            for text in self.positions(e):
                for (w, regs, mb, mh) in self.ENVS:
                    addA(w, 5, 0, 16, regs, mb, mh, text)
        # the same register under both spellings (`$r3` / `r3` are one rule key), `$` spelling first and later,
        # within one record and across INIT / delta records
        for e in exprs:
            for k, (w, regs, mb, mh) in enumerate(self.ENVS[:1]):
                addA(w, 5, 0, 16, regs, mb, mh, ".cfa: 16 .ra: 8 r3: 5 $r3: %s" % e)
                addA(w, 5, 0, 16, regs, mb, mh, ".cfa: 16 .ra: 8 $r3: 5 r3: %s" % e)
                if k == 0:
                    addA(w, 5, 0, 16, regs, mb, mh, ".cfa: 16 .ra: 8 r3: 5", [(3, "$r3: %s" % e)])
                    addA(w, 5, 0, 16, regs, mb, mh, ".cfa: 16 .ra: 8 $r3: 5", [(3, "r3: %s" % e), (9, "$r3: 1")])
                dist["both_spellings"] = dist.get("both_spellings", 0) + 1
        # every binary operator on a boundary pool of operands (signed / unsigned readings differ on most pairs)
        bpool = ["0", "1", "2", "3", "8", "-1", "-2", "-8", "9223372036854775807", "-9223372036854775808", "r1", "$r0",
                 "4294967296", "-4294967296"]
        for a in bpool:
            for b in bpool:
                for op in ["+", "-", "*", "/", "%", "@"]:
                    e = "%s %s %s" % (a, b, op)
                    for text in self.positions(e):
                        (w, regs, mb, mh) = self.ENVS[(len(a) + len(b)) % 2 * 5]
                        addA(w, 5, 0, 16, regs, mb, mh, text)
                    dist["binop_grid"] = dist.get("binop_grid", 0) + 1
        # rule isolation: several general-register rules in one walk; an earlier one (by name order, both orders
        # are generated) fails or succeeds with every short expression, a later one is sensitive to anything the
        # earlier evaluation may have left behind (operands on a shared stack, a stale CFA, a half-applied write)
        sens = ["8 +", "+", "5", "1 2", "^", ".cfa", "r1 -", ".undef", "$r0 8 + ^", "2 *"]
        short = [" ".join(c) for n in range(1, 3) for c in itertools.product(ALPHABET[:16], repeat=n)]
        iso = short + ["4096 ^ 5 +", "1 2 0 /", "7 junk", ".cfa $nope + ^", "1 .undef +", "1 2 3", "5 3 @", "1 2 3 4 5 + junk"]
        for i, e1 in enumerate(iso):
            for j, e2 in enumerate(sens):
                (w, regs, mb, mh) = self.ENVS[(i + j) % 2]
                addA(w, 5, 0, 16, regs, mb, mh, ".cfa: 16 .ra: 8 r3: %s r4: %s" % (e1, e2))
                addA(w, 5, 0, 16, regs, mb, mh, ".cfa: 16 .ra: 8 r5: %s r4: %s r6: %s" % (e2, e1, e2))
                if (i + j) % 4 == 0:
                    addA(w, 5, 0, 16, regs, mb, mh, ".cfa: 16 .ra: 8 r4: %s" % e1, [(2, "r9: %s" % e2), (3, "r1: %s" % e2)])
                dist["rule_isolation"] = dist.get("rule_isolation", 0) + 1
        if tier == "thorough":
            sub = ["+", "-", "/", "@", "^", ".cfa", ".undef", "8", "-1", "$r0", "r1", "r2:"]
            for c in itertools.product(sub, repeat=4):
                e = " ".join(c)
                dist["exhaustive_exprs"] += 1
                for text in self.positions(e):
                    for (w, regs, mb, mh) in self.ENVS[:2]:
                        addA(w, 5, 0, 16, regs, mb, mh, text)
        # random longer programs (valid-leaning: operands first)
        lits = ["0", "1", "2", "3", "4", "7", "8", "16", "-1", "-8", "+5", "9223372036854775807", "-9223372036854775808",
                "9223372036854775808", "-9223372036854775809", "18446744073709551615", "00012", "-0", "+", "-", "1_0", "0x10"]
        regtok = ["$r0", "r1", "$r1", "r0", "$sp", "r2", "$junk", "a$r0", "$", "$$r0", ".cfa", ".ra", ".undef", ".cfa:", "$r0:"]
        ops = ["+", "-", "*", "/", "%", "@", "^"]
        nrand = 6000 if tier == "quick" else 60000
        for _ in range(nrand):
            n = rng.range(1, 24)
            toks, depth = [], 0
            for _i in range(n):
                k = rng.below(10)
                if depth >= 2 and k < 5:
                    t = rng.choice(ops)
                    depth -= 0 if t == "^" else 1
                elif k < 8:
                    t = rng.choice(lits) if rng.chance(1, 2) else rng.choice(regtok[:9])
                    depth += 1
                else:
                    t = rng.choice(ops + regtok + lits)
                toks.append(t)
            e = " ".join(toks)
            text = rng.choice(self.positions(e))
            (w, regs, mb, mh) = rng.choice(self.ENVS)
            addA(w, 5, 0, 16, regs, mb, mh, text)
            dist["random_programs"] += 1
        # the tokenizer: tabs / form feeds / runs of blanks / leading and trailing blanks between tokens, a vertical tab
        # (not ASCII whitespace for split_ascii_whitespace) inside a token, very long tokens and very long programs
        seps = [" ", "\t", "  ", "\x0c", " \t ", "\t\x0c "]
        nsp = 400 if tier == "quick" else 4000
        for _ in range(nsp):
            n = rng.range(1, 8)
            toks = [rng.choice(["8", "-1", "$r0", "r1", "+", "-", "*", "@", "^", ".cfa", "16", "junk", "8\x0b8", "2"]) for _i in range(n)]
            body = [".cfa:", "16", ".ra:", "8", rng.choice(["$r3:", "r3:"])] + toks + (["r4:", "7"] if rng.chance(1, 2) else [])
            text = rng.choice(["", " ", "\t", "  "]) + "".join(t + rng.choice(seps) for t in body[:-1]) + body[-1] + rng.choice(["", " ", "\t", " \x0c"])
            (w, regs, mb, mh) = rng.choice(self.ENVS[:2])
            addA(w, 5, 0, 16, regs, mb, mh, text)
            dist["odd_spacing"] = dist.get("odd_spacing", 0) + 1
        for k in range(12 if tier == "quick" else 60):
            (w, regs, mb, mh) = self.ENVS[k % 2]
            n = 200 * (k + 1)
            long_prog = "1 " + " ".join(rng.choice(["1 +", "2 *", "$r0 -", "3 %", "r1 +"]) for _i in range(n))
            deep = " ".join(["7"] * n) + " " + " ".join(["+"] * (n - 1 - (k % 2)))      # deep operand stack; odd k: one operand left over
            long_tok = rng.choice(["9", "-9", "x", "$r"]) + "9" * (50 * (k + 1))
            for e in (long_prog, deep, long_tok, long_tok + " 1 +"):
                addA(w, 5, 0, 16, regs, mb, mh, rng.choice(self.positions(e)))
                dist["long_inputs"] = dist.get("long_inputs", 0) + 1
        # malformed rule texts: tokens in front of the first `REG:` label (in the INIT text or in an applicable / not
        # applicable delta record), labels without an expression, a lone label — "the first token must be a register"
        lead = ["8", "junk", "+", ".cfa", "$r0", "8 8", "-1 r1", ".undef", "^", "16 .ra"]
        for pre in lead:
            for k, (w, regs, mb, mh) in enumerate(self.ENVS[:2]):
                addA(w, 5, 0, 16, regs, mb, mh, "%s .cfa: 16 .ra: 8" % pre)
                addA(w, 5, 0, 16, regs, mb, mh, "%s .cfa: 16 .ra: 8 $r3: 7" % pre)
                addA(w, 5, 0, 16, regs, mb, mh, "\t%s  .cfa: $r0 .ra: .cfa ^" % pre)
                addA(w, 5, 0, 16, regs, mb, mh, ".cfa: 16 .ra: 8", [(3, "%s $r3: 7" % pre)])
                addA(w, 5, 0, 16, regs, mb, mh, ".cfa: 16 .ra: 8", [(9, "%s $r3: 7" % pre)])       # not applicable: harmless
                addA(w, 5, 0, 16, regs, mb, mh, ".cfa: 16 .ra: 8 $r3: 1", [(2, "r4: 2"), (3, "%s .cfa: 24" % pre)])
                dist["leading_tokens"] = dist.get("leading_tokens", 0) + 6
        for text in [".cfa:", ".cfa: .ra: 8", ".cfa: 16 .ra:", ".cfa: 16 .ra: 8 $r3:", "$r3: .cfa: 16 .ra: 8", ".cfa: 16 .ra: 8 $r3: r4: 5",
                     ":", ": 8", ".cfa: 16 .ra: 8 : 5", ".cfa: 16 .ra: 8 $: 5", ".cfa: 16 .ra: 8 r3:: 5", ".cfa: 16 .ra: 8 r3 : 5"]:
            for (w, regs, mb, mh) in self.ENVS[:2]:
                addA(w, 5, 0, 16, regs, mb, mh, text)
                addA(w, 5, 0, 16, regs, mb, mh, ".cfa: 24 .ra: 5 r7: 1", [(4, text)])
                dist["leading_tokens"] = dist.get("leading_tokens", 0) + 2
        # delta-record sets
        pool = [".cfa: 24", ".cfa: $r0 8 +", ".ra: 5", ".ra: .cfa ^", "$r3: 7", "$r3: .undef", "r3: 9", "r4: r1 $r0 +",
                "$r3: 1 r4: 2 .ra: 3", "r3: .undef", "$r3: r1", "r3: 4 $r3: .undef", "$r4: .undef", "$r4: 6", "8", "", "$r3:", "$nope: 1", ".cfa: .cfa", "$r5: 18446744073709551616", "r4: .cfa 8 - ^"]
        addrs = [15, 16, 19, 20, 20, 21, 47, 48]
        nd = 5000 if tier == "quick" else 40000
        for _ in range(nd):
            k = rng.range(0, 4)
            deltas = [(rng.choice(addrs), rng.choice(pool)) for _i in range(k)]
            lookup = rng.choice([15, 16, 19, 20, 21, 46, 47, 48])
            ia, isz = rng.choice([(16, 32), (16, 32), (16, 0), (16, 1), (18446744073709551600, 16), (18446744073709551600, 15)])
            if ia > 100:
                lookup = ia + rng.below(17) - 1
                deltas = [(ia + rng.below(16), t) for (_a, t) in deltas]
            init = rng.choice([".cfa: 16 .ra: 8", ".cfa: 16 .ra: 8 $r3: 1 r4: 2", ".cfa: 16", ".ra: 8", ".cfa: $r0 .ra: .cfa ^ $r3: r1"])
            (w, regs, mb, mh) = rng.choice(self.ENVS[:2] + self.ENVS[3:4])
            addA(w, lookup, ia, isz, regs, mb, mh, init, deltas)
            dist["delta_sets"] += 1
        # several INIT records in one file, each with its own delta records: disjoint ranges (adjacent ones included),
        # any file order, size-0 records in between; the lookup address walks over the boundaries
        nm = 1500 if tier == "quick" else 12000
        inits = [".cfa: 16 .ra: 8", ".cfa: 24 .ra: 5 $r3: 1", ".cfa: $r0 .ra: .cfa ^ r4: 2", ".cfa: 32 .ra: 9 $r3: .undef r5: r1",
                 ".cfa: 16", ".ra: 8 .cfa: 40"]
        dpool = [".cfa: 48", ".ra: 6", "$r3: 7", "r3: .undef", "r4: r1 $r0 +", "$r5: 5 .ra: 3", "r6: .cfa 8 - ^", "$r3: r1", ".cfa: $r0 8 +"]
        for _ in range(nm):
            nrec = rng.range(2, 4)
            start = rng.choice([0, 16, 100, 18446744073709551000])
            recs, pos, bounds = [], start, []
            for _k in range(nrec):
                gap = rng.choice([0, 0, 1, 7])
                size = rng.choice([1, 2, 8, 16, 32])
                ia = pos + gap
                deltas = []
                for _d in range(rng.range(0, 3)):
                    # delta addresses inside the record, at its edges, or (deliberately) inside a NEIGHBOUR's range
                    da = ia + rng.choice([0, 1, size - 1, size, size + 1, -1 if ia > 0 else 0])
                    deltas.append((da, rng.choice(dpool)))
                recs.append((ia, size, rng.choice(inits), deltas))
                bounds += [ia - 1 if ia > 0 else 0, ia, ia + size - 1, ia + size]
                pos = ia + size
                if rng.chance(1, 5):
                    recs.append((pos, 0, rng.choice(inits), [(pos, rng.choice(dpool))]))
            lookup = rng.choice(bounds + [start + rng.below(pos - start + 2)])
            for i in range(len(recs) - 1, 0, -1):      # file order: any
                j = rng.below(i + 1)
                recs[i], recs[j] = recs[j], recs[i]
            (w, regs, mb, mh) = rng.choice(self.ENVS[:2])
            f = ["M", str(w), str(lookup), regs, str(mb), mh]
            for (ia, size, init, deltas) in recs:
                f.append(";".join([str(ia), str(size), init] + [x for (a, t) in deltas for x in (str(a), t)]))
            cases.append("|".join(f))
            dist["by_kind"]["M"] = dist["by_kind"].get("M", 0) + 1
            dist["multi_record"] = dist.get("multi_record", 0) + 1
        # overlapping / duplicate / nested INIT records, records whose end leaves u64 next to ordinary ones: the record
        # table of the parser (into_rangemap_safe keeps the first of two overlapping records in (start, end) order and
        # drops the other AS A WHOLE) is inside the model (C06/FileTable.v over C08's generated tables)
        no = 1200 if tier == "quick" else 6000
        for _ in range(no):
            nrec = rng.range(2, 5)
            start = rng.choice([0, 16, 100, 18446744073709551500])
            recs, bounds = [], []
            for _k in range(nrec):
                ia = start + rng.choice([0, 0, 4, 8, 12, 16, 24, 40])
                size = rng.choice([0, 1, 4, 8, 16, 32, 64, 200])
                if recs and rng.chance(1, 6):
                    ia, size = recs[-1][0], recs[-1][1]          # same range as the previous record
                init = rng.choice(inits)
                deltas = [(min(U64, ia + rng.choice([0, 1, 7, size])), rng.choice(dpool)) for _d in range(rng.range(0, 2))]
                if recs and rng.chance(1, 10):
                    ia, size, init, deltas = recs[-1]            # an identical duplicate
                recs.append((ia, size, init, deltas))
                bounds += [ia - 1 if ia > 0 else 0, ia, ia + size - 1 if size else ia, ia + size]
            lookup = rng.choice(bounds + [start + rng.below(72)])
            if lookup > U64:
                lookup = U64
            (w, regs, mb, mh) = rng.choice(self.ENVS[:2])
            f = ["M", str(w), str(lookup), regs, str(mb), mh]
            for (ia, size, init, deltas) in recs:
                f.append(";".join([str(ia), str(size), init] + [x for (a, t) in deltas for x in (str(a), t)]))
            cases.append("|".join(f))
            dist["by_kind"]["M"] = dist["by_kind"].get("M", 0) + 1
            dist["overlapping_records"] = dist.get("overlapping_records", 0) + 1
        # front-end (b): the real CfiStackWalker
        SP = 0x80000000
        stack = bytes(range(1, 65)).hex()
        B = {
            "x86": dict(ctx="eip=%d,esp=%d,ebp=%d,ebx=11,esi=12,edi=13,eax=14" % (MODBASE + 0x100, SP, SP + 32),
                        toks=["+", "-", "@", "^", ".cfa", ".undef", "8", "-1", "$esp", "$ebx", "eax", "$nope", "4294967296", "$ebx:"],
                        targets=["$ebx:", "$esi:", "$eax:", "$nope:", "ebp:", "$eip:", "$esp:"],
                        heads=[".cfa: $esp 16 + .ra: 1073742080", ".cfa: $esp .ra: 1073742080", ".cfa: $esp 16 + .ra: 4095",
                               ".cfa: 4294967296 .ra: 1073742080", ".cfa: $esp 8 + .ra: .cfa 8 - ^"],
                        valids=["all", "eip,esp,ebp", "eip,esp,ebx,esi", "eip,ebp"]),
            "amd64": dict(ctx="rip=%d,rsp=%d,rbp=%d,rbx=11,r12=12,rax=14" % (MODBASE + 0x100, SP, SP + 32),
                          toks=["+", "-", "@", "^", ".cfa", ".undef", "8", "-1", "$rsp", "$rbx", "rax", "$nope", "18446744073709551616", "$rbx:"],
                          targets=["$rbx:", "$r12:", "$rax:", "$nope:", "rbp:", "$rip:", "$rsp:"],
                          heads=[".cfa: $rsp 16 + .ra: 1073742080", ".cfa: $rsp .ra: 1073742080", ".cfa: $rsp 16 + .ra: 4095",
                                 ".cfa: $rsp 8 + .ra: .cfa 8 - ^"],
                          valids=["all", "rip,rsp,rbp", "rip,rsp,rbx,r12", "rip,rbp"]),
            "arm64": dict(ctx="pc=%d,sp=%d,fp=%d,x19=19,lr=30,x0=14" % (MODBASE + 0x100, SP, SP + 32),
                          toks=["+", "-", "@", "^", ".cfa", ".undef", "8", "-1", "sp", "x19", "x29", "fp", "x0", "nope", "x29:", "fp:"],
                          targets=["x19:", "x29:", "fp:", "x30:", "lr:", "x0:", "nope:", "pc:", "sp:"],
                          heads=[".cfa: sp 16 + .ra: 1073742080", ".cfa: sp .ra: 1073742080", ".cfa: sp 16 + .ra: 4095",
                                 ".cfa: sp 8 + .ra: .cfa 8 - ^", ".cfa: sp 16 + .ra: 1073742080 x29: 111 fp: 222",
                                 ".cfa: sp 16 + .ra: lr x30: 18446744073709551615"],
                          valids=["all", "pc,sp,fp", "pc,sp,x19,lr", "pc,fp"]),
        }
        # second pass of round 5: the other contexts whose unwinder goes through CfiStackWalker
        B["arm"] = dict(ctx="pc=%d,sp=%d,fp=%d,r4=11,r5=12,r0=14,lr=30" % (MODBASE + 0x100, SP, SP + 32),
                        toks=["+", "-", "@", "^", ".cfa", ".undef", "8", "-1", "sp", "r13", "r4", "r11", "r0", "nope", "4294967296"],
                        targets=["r4:", "r11:", "fp:", "r13:", "r14:", "lr:", "r0:", "nope:", "r15:", "sp:", "r12:"],
                        heads=[".cfa: sp 16 + .ra: 1073742080", ".cfa: sp .ra: 1073742080", ".cfa: sp 16 + .ra: 4095",
                               ".cfa: r13 8 + .ra: .cfa 8 - ^", ".cfa: sp 16 + .ra: 1073742080 r11: 111 fp: 222",
                               ".cfa: sp 16 - .ra: lr", ".cfa: 4294967296 .ra: 1073742080"],
                        valids=["all", "pc,sp,fp", "pc,sp,r4,lr", "pc,fp"])
        for m in ("mips", "mips64"):
            B[m] = dict(ctx="pc=%d,sp=%d,fp=%d,s0=11,s1=4294967299,gp=77,ra=30" % (MODBASE + 0x100, SP, SP + 32),
                        toks=["+", "-", "@", "^", ".cfa", ".undef", "8", "-1", "sp", "$s0", "s1", "ra", "nope", "4294967296", "$gp"],
                        targets=["s0:", "$s1:", "gp:", "ra:", "fp:", "nope:", "pc:", "sp:"],
                        heads=[".cfa: sp 16 + .ra: 1073742080", ".cfa: sp .ra: 1073742080", ".cfa: sp 16 + .ra: 4095",
                               ".cfa: $sp 8 + .ra: .cfa 8 - ^", ".cfa: sp 16 - .ra: ra", ".cfa: s1 16 + .ra: 1073742080",
                               ".cfa: 4294967296 sp + .ra: 1073742080"],
                        valids=["all", "pc,sp,fp", "pc,sp,s0,ra", "pc,fp", "pc,sp,s1"])
        NEW_ARCHES = ("arm", "mips", "mips64")
        for arch, d in B.items():
            LB = 2
            for n in range(0, LB + 1):
                for c in itertools.product(d["toks"], repeat=n):
                    e = " ".join(c)
                    for hi, head in enumerate(d["heads"]):
                        if hi > 0 and n == 2 and not rng.chance(1, (3 if arch in NEW_ARCHES else 2) if tier == "quick" else 1):
                            continue
                        tgts = [d["targets"][rng.below(len(d["targets"]))] for _k in range(2)] if n == 2 else d["targets"]
                        for t in tgts:
                            valid = d["valids"][0] if rng.chance(2, 3) else rng.choice(d["valids"])
                            f = ["B", arch, d["ctx"], valid, str(SP), stack, "0", "4096", "%s %s %s" % (head, t, e)]
                            if rng.chance(1, 8):
                                f += [str(0x100 + rng.below(3) - 1), rng.choice([t + " 77", t + " .undef", ".cfa: " + d["heads"][0].split(" ")[1] + " 24 +"])]
                            cases.append("|".join(f))
                            dist["by_kind"]["B"] += 1
                            dist["real_walker"] += 1
        # dereferences whose 64-bit address leaves the 32-bit address space while its low 32 bits fall on readable
        # stack: the evaluator computes in u64 and the memory lookup takes the u64 address as it is, so such a rule
        # fails (x86; on the 64-bit architectures the same shapes wrap around 2^64 and are ordinary reads)
        for arch, d in B.items():
            spn = {"x86": "$esp", "amd64": "$rsp"}.get(arch, "sp")
            tgt = d["targets"][0]
            head0 = d["heads"][0]
            wide = []
            for k in ["4294967296", "8589934592", "4294967300", "4294967356", "4294967360", "-4294967296", "-4294967288",
                      "18446744069414584320", "9223372036854775808", "-9223372036854775808", "4294967292", "12884901896"]:
                wide += ["%s %s + ^" % (spn, k), "%s %s + ^" % (k, spn), "%s %s - ^" % (spn, k), ".cfa %s + ^" % k,
                         "%s 8 + %s + ^" % (spn, k), "%s %s + 4294967295 - 1 - ^" % (spn, k)]
            for e in wide:
                for valid in d["valids"][:2]:
                    texts = ["%s %s %s" % (head0, tgt, e),
                             "%s .ra: %s" % (head0.split(" .ra:")[0], e),
                             "%s %s %s %s 7" % (head0, tgt, e, d["targets"][1])]
                    if ".cfa" not in e:
                        texts.append(".cfa: %s 16 + 0 %s 0 * + + .ra: 1073742080" % (spn, e.replace(" ^", " ^")))
                    for text in texts:
                        cases.append("|".join(["B", arch, d["ctx"], valid, str(SP), stack, "0", "4096", text]))
                        dist["by_kind"]["B"] += 1
                        dist["real_walker"] += 1
                        dist["wide_deref"] = dist.get("wide_deref", 0) + 1
        # walk_stack's precondition on the stack memory: empty, one byte, ending exactly at 2^64 (no range), ending one below
        for arch, d in B.items():
            for (sb, sh) in [(SP, "-"), (SP, "00"), (18446744073709551552, "00" * 64), (18446744073709551551, "00" * 64), (0, "07")]:
                for text in [d["heads"][0], "%s %s 7" % (d["heads"][0], d["targets"][0])]:
                    cases.append("|".join(["B", arch, d["ctx"], "all", str(sb), sh, "0", "4096", text]))
                    dist["by_kind"]["B"] += 1
                    dist["real_walker"] += 1
                    dist["stack_edges"] = dist.get("stack_edges", 0) + 1
        # the old arm64 context layout goes through its own copy of the unwinder (arm64_old.rs): every third arm64 case again
        n64 = 0
        for c in list(cases):
            if c.startswith("B|arm64|"):
                n64 += 1
                if n64 % 3 == 0:
                    cases.append("B|arm64_old|" + c[len("B|arm64|"):])
                    dist["by_kind"]["B"] += 1
                    dist["real_walker"] += 1
                    dist["arm64_old"] = dist.get("arm64_old", 0) + 1
        return cases, dist, True

    # ------------------------------------------------------------------ oracle
    def oracle(self, case, ans, profile):
        if ans.startswith("P;;"):
            return "STACK CFI evaluation panicked: " + ans[3:200]
        f = case.split("|")
        if ans == "E":
            return "the generated symbol file was rejected by the parser"
        if f[0] == "M":
            texts = [t for r in parse_recs(f) for t in [r[2]] + [d[1] for d in r[3]]]
        else:
            texts = [f[8]] + [f[i + 1] for i in range(9, len(f) - 1, 2)]
        if any(undocumented(t) for t in texts):
            return None
        if f[0] == "M":
            want = ref_multi(f)
            if ans not in want:
                return "walk_frame result (several INIT records) differs from the documented semantics: got %s, documented %s" % (ans[:300], " or ".join(sorted(want))[:300])
            return None
        if f[0] == "A":
            want = ref_mock(f)
            if ans != want:
                return "walk_frame result differs from the documented semantics: got %s, documented %s" % (ans[:300], want[:300])
            return None
        want, open_ = ref_real(f)
        if ans == want:
            return None
        if open_ and ans != "N" and want != "N":
            # two rules name the same machine register: only that register's value/validity is open
            def strip(a):
                p = a.split("|")
                names = [n for n in p[1][6:].split(",") if n and n not in open_]
                regs = [kv for kv in p[2][5:].split(",") if kv and kv.split("=")[0] not in open_]
                return names, regs
            if strip(ans) == strip(want):
                return None
        return "walk_stack CFI frame differs from the documented semantics: got %s, documented %s" % (ans[:400], want[:400])

    def nontrivial(self, case, ans):
        return ans.startswith("S")


PROP = C06()
