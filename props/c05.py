"""C05 — every produced call stack is well-formed and makes progress (plus the frame bound of C03).

Case line (see ocaml/c05/main.ml):
  arch os ip sp fp lr ngp gp.. valid base hexbytes nmods (mbase msize sym)*
The oracle below judges the property on the implementation's frames alone; it shares no code
with the Coq model (its constants are the ones of the property text: 4096, call adjustments
1/2/4/8, pointer widths)."""
from runner import PropBase
from vlib import Rng

U32 = (1 << 32) - 1
U64 = (1 << 64) - 1

# arch id -> description used by generator and oracle
ARCH = {
    0: dict(name="x86", bits=32, pw=4, adj=1, leaf=False, ngp=7, slot=32),
    1: dict(name="amd64", bits=64, pw=8, adj=1, leaf=False, ngp=14, slot=64),
    2: dict(name="arm", bits=32, pw=4, adj=2, leaf=True, ngp=12, slot=32),
    3: dict(name="arm64", bits=64, pw=8, adj=4, leaf=True, ngp=29, slot=64),
    4: dict(name="mips32", bits=32, pw=4, adj=8, leaf=True, ngp=9, slot=64),
    5: dict(name="mips64", bits=64, pw=8, adj=8, leaf=True, ngp=9, slot=64),
    6: dict(name="arm64_old", bits=64, pw=8, adj=4, leaf=True, ngp=29, slot=64),
}
# register names a STACK CFI rule can mention: (sp, ip-ish targets, fp names, lr names, gp names = case-line order), '$' prefix or not
_X29 = ["x%d" % i for i in range(29)]
REGS = {
    0: dict(pfx="$", sp="esp", fp=["ebp"], lr=[], gp=["ebx", "esi", "edi", "eax", "ecx", "edx", "eflags"]),
    1: dict(pfx="$", sp="rsp", fp=["rbp"], lr=[], gp=["rax", "rdx", "rcx", "rbx", "rsi", "rdi", "r8", "r9", "r10", "r11", "r12", "r13", "r14", "r15"]),
    2: dict(pfx="", sp="sp", fp=["fp", "r11"], lr=["lr", "r14"], gp=["r%d" % i for i in range(11)] + ["r12"], spalias=["r13"], pc=["pc", "r15"]),
    3: dict(pfx="", sp="sp", fp=["fp", "x29"], lr=["lr", "x30"], gp=_X29, pc=["pc"]),
    6: dict(pfx="", sp="sp", fp=["fp", "x29"], lr=["lr", "x30"], gp=_X29, pc=["pc"]),
    4: dict(pfx="", sp="sp", fp=["fp"], lr=["ra"], gp=["gp"] + ["s%d" % i for i in range(8)], pc=["pc"]),
    5: dict(pfx="", sp="sp", fp=["fp"], lr=["ra"], gp=["gp"] + ["s%d" % i for i in range(8)], pc=["pc"]),
}
VALID_NAMES = {
    0: ["eip", "esp", "ebp", "ebx", "esi", "edi"],
    1: ["rip", "rsp", "rbp", "rbx", "r12", "r13", "r14", "r15"],
    2: ["pc", "sp", "fp", "lr", "r15", "r13", "r11", "r14", "r4", "r7"],
    3: ["pc", "sp", "fp", "lr", "x29", "x30", "x19", "x28"],
    4: ["pc", "sp", "fp", "ra", "s0", "gp"],
    5: ["pc", "sp", "fp", "ra", "s0", "gp"],
    6: ["pc", "sp", "fp", "lr", "x29", "x30", "x19", "x28"],
}


def le_bytes(v, n):
    return [(v >> (8 * i)) & 0xFF for i in range(n)]


def fmt_case(arch, os_, ip, sp, fp, lr, gp, valid, base, data, mods):
    hexs = "".join("%02x" % b for b in data) or "-"
    ms = " ".join("%d %d %s" % (b, s, y) for (b, s, y) in mods)
    return "%d %d %d %d %d %d %d %s %s %d %s %d %s" % (
        arch, os_, ip, sp, fp, lr, len(gp), " ".join(map(str, gp)), valid, base, hexs, len(mods), ms)


def parse_case(line):
    t = line.split()
    arch, os_, ip, sp, fp, lr, ngp = (int(x) for x in t[:7])
    gp = [int(x) for x in t[7:7 + ngp]]
    i = 7 + ngp
    valid, base, hexs, nm = t[i], int(t[i + 1]), t[i + 2], int(t[i + 3])
    data = [] if hexs == "-" else [int(hexs[2 * k:2 * k + 2], 16) for k in range(len(hexs) // 2)]
    mods = [(int(t[i + 4 + 3 * k]), int(t[i + 5 + 3 * k]), t[i + 6 + 3 * k]) for k in range(nm)]
    return dict(arch=arch, os=os_, ip=ip, sp=sp, fp=fp, lr=lr, gp=gp, valid=valid, base=base, data=data, mods=mods)


def parse_frames(ans):
    frames = []
    if not ans:
        return frames
    for f in ans.split("|"):
        p = f.split(",")
        if len(p) not in (9, 10):
            raise ValueError("bad frame " + f)
        d = dict(instr=int(p[0]), resume=int(p[1]), sp=int(p[2]), fp=int(p[3]), lr=int(p[4]), trust=p[5],
                 valid=p[6], gp=p[7], module=None if p[8] == "-" else int(p[8]))
        if len(p) == 10:       # `c05 --functions`: <function_base>:<function_name> or -
            d["func"] = None if p[9] == "-" else tuple(p[9].split(":", 1))
        frames.append(d)
    return frames


def strip_functions(ans):
    """the implementation's answer without the function field (the model driver does not print one)"""
    if not ans or ans.startswith("P;;"):
        return ans
    return "|".join(",".join(f.split(",")[:9]) for f in ans.split("|"))


def func_records(symtext):
    """FUNC records (addr, size, name) of a module's symbol description (S: / Y| / T| forms); None = no symbol file"""
    if symtext == "-":
        return None
    if symtext.startswith("S:"):
        t = symtext.split(":")
        return [(int(t[1]), int(t[2]), "f")] if int(t[2]) > 0 else []
    if symtext.startswith("Y|"):
        t = symtext.split("|")
        return [(int(t[1]), int(t[2]), "f")] if int(t[2]) > 0 else []
    out = []
    for l in symtext[2:].split("|"):
        w = l.replace("~", " ").split(" ")
        if w[0] == "FUNC":
            if w[1] == "m":
                w = w[:1] + w[2:]
            out.append((int(w[1], 16), int(w[2], 16), "_".join(w[4:])))
    return out


def sym(func_lo, func_size, cfi_lo, cfi_size, cfa_off, ra_kind, ra_arg, fp_off):
    return "S:%d:%d:%d:%d:%d:%d:%d:%s" % (func_lo, func_size, cfi_lo, cfi_size, cfa_off, ra_kind, ra_arg,
                                         "-" if fp_off is None else str(fp_off))


class Gen:
    """Adversarial tuples for C05."""

    def __init__(self, rng):
        self.r = rng

    def modules(self, A):
        r = self.r
        top = (1 << A["bits"]) - 1
        mods = []
        n = r.choice([0, 1, 1, 2, 2, 3])
        bases32 = [0x40000000, 0x50000000, 0x1000, 0x08040000, 0xF0000000, 0x10000, 0, 0x10, 0x800, 0xff0]   # incl. records reaching into the first page
        bases64 = [0x00007400c0000000, 0x00007500b0000000, 0x40000000, 0x0000800000000000, 0xFFFF800000000000,
                   0xFFFFFFFFFFFF0000, 0x1000, 0x0010000000000000, 0x0008000000000000, 0x0000F00000000000]
        for _ in range(n):
            b = r.choice(bases32 if A["bits"] == 32 else bases64 + bases32)
            size = r.choice([0x10000, 0x1000, 0x20000, 0x10000, 1, 0])
            if r.chance(1, 3) and mods:
                prev = r.choice(mods)
                # overlapping / directly behind / directly in front of another module / one byte apart
                b = r.choice([prev[0] + prev[1], prev[0] + prev[1], prev[0] + prev[1] + 1, max(prev[0] - size, 0), prev[0] + 0x100, prev[0] + 0x8000])
            b = min(b, U64)
            mods.append([b, size, "-"])
        return mods

    def symbols(self, A, mods, stack_hint):
        r = self.r
        pw = A["pw"]
        for m in mods:
            k = r.below(10)
            if k < 3:
                continue
            size = max(m[1], 1)
            if k >= 6:
                # arbitrary rule text (evaluated by C06's model on the model side)
                init = self.rule_text(self.arch, A, mods)
                deltas = []
                if r.chance(1, 4):
                    deltas.append((r.choice([0x100, 0x101, 0x180, 0x200]), self.rule_text(self.arch, A, mods) if r.chance(1, 2)
                                   else ".cfa: %s%s %d +" % (REGS[self.arch]["pfx"], REGS[self.arch]["sp"], r.choice([0, pw, 16]))))
                m[2] = "Y|%d|%d|%d|%d|%s%s" % (r.choice([0, 0x100]), r.choice([size, size, 0x100, 0]), 0, r.choice([size, size, 0x10000]),
                                              init.replace(" ", "~"), "".join("|%d=%s" % (a_, t_.replace(" ", "~")) for a_, t_ in deltas))
                continue
            func_lo = r.choice([0, 0x100, 0x200])
            func_size = r.choice([0, 0x100, size, 0x10])
            cfi_lo = r.choice([0, 0, 0x100])
            cfi_size = r.choice([size, size, 0x100, 0x10000])
            cfa_off = r.choice([0, 1, pw, 2 * pw, 4 * pw, -pw, -1, 16, 32, 3, (1 << 32) - pw, 1 << 33, -(1 << 31)])
            if r.chance(2, 3):
                ra_kind, ra_arg = 0, r.choice([pw, pw, 2 * pw, 0, -pw, 3 * pw])
            else:
                tgt = r.choice(mods)
                ra_kind, ra_arg = 1, r.choice([tgt[0] + 0x100, tgt[0] + 0x180, 0, 4095, 4096, tgt[0], (1 << 32) + 5, 1073742080])
            fp_off = r.choice([None, None, 2 * pw, 3 * pw, -pw, 1 << 20])
            m[2] = sym(func_lo, func_size, cfi_lo, cfi_size, cfa_off, ra_kind, ra_arg, fp_off)

    def rule_text(self, arch, A, mods):
        """random STACK CFI rule text over the architecture's registers (any register may be read or set)"""
        r = self.r
        R = REGS[arch]
        pw = A["pw"]
        px = R["pfx"]
        allregs = [R["sp"]] + R["fp"] + R["lr"] + R["gp"] + R.get("spalias", [])
        k = lambda: r.choice([0, 0, pw, pw, 2 * pw, 3 * pw, 4 * pw, 16, -pw, 1, -2 * pw])

        def reg():
            return px + r.choice(allregs if r.chance(1, 3) else R["fp"] + R["lr"] + R["gp"][:6] + R["gp"][-3:])

        def code():
            m = r.choice(mods) if mods else [0x1000, 0x1000]
            return str((m[0] + r.choice([0x100, 0x104, 0x180, 0x200])) & 0x7FFFFFFFFFFFFFFF)

        def expr(target=None):
            t = r.below(12)
            if t < 3:
                return ".cfa %d %s ^" % (abs(k()), r.choice(["-", "-", "+"]))
            if t < 5:
                return reg()
            if t < 7:
                return "%s %d +" % (reg(), r.choice([pw, 4, 1, 8, 16]))
            if t == 7 and target:
                return px + target
            if t == 8:
                return code()
            if t == 9:
                return ".undef"
            if t == 10:
                return "%s ^" % reg()
            return ".cfa %d +" % k()
        cfa = r.choice(["%s%s %d +" % (px, R["sp"], k()), "%s%s %d +" % (px, R["sp"], k()), "%s%s" % (px, R["sp"]),
                        "%s%s 0 +" % (px, R["sp"]), "%s%s %d +" % (px, r.choice(R["fp"]), r.choice([2 * pw, 0, pw]))])
        lrs = R["lr"] or R["gp"][:2]
        ra = r.choice([".cfa %d - ^" % pw, ".cfa %d - ^" % r.choice([pw, 2 * pw, 0]), px + r.choice(lrs), px + r.choice(lrs), reg(),
                       code(), "%s %d +" % (reg(), r.choice([4, pw, 1]))])
        rules = [".cfa: " + cfa, ".ra: " + ra]
        for _ in range(r.choice([0, 1, 1, 2, 3])):
            tgt = r.choice(R["lr"] * 3 + R["fp"] * 2 + R["gp"][:4] + R["gp"][-3:] + R["gp"] + R.get("pc", []) + [R["sp"]])
            rules.append("%s%s: %s" % (px, tgt, expr(tgt)))
        return " ".join(rules)

    def func_case(self):
        """threads over a module whose symbol file has several FUNC records (adjacent, one byte apart, overlapping, with
        gaps; a function ending at the module end), with return addresses planted exactly at function starts / ends /
        start + adjustment, so that `return address` and `return address - adjustment` fall into different functions
        (or one of them into none).  Frames come from scanning (validated through the FUNC records), frame pointers or a
        module-wide STACK CFI rule."""
        r = self.r
        arch = r.choice([0, 1, 1, 2, 3, 4, 5, 6])
        A = ARCH[arch]
        R = REGS[arch]
        pw, bits, adj, px = A["pw"], A["bits"], A["adj"], R["pfx"]
        top = (1 << bits) - 1
        mb = r.choice([0x40000000, 0x10000] if bits == 32 else [0x40000000, 0x00007400c0000000, 0x10000])
        msize = r.choice([0x1000, 0x10000])
        funcs, off = [], r.choice([0, 0x10, 0x100])
        for i in range(r.choice([2, 3, 4, 5])):
            size = r.choice([1, adj, adj + 1, 0x10, 0x40, 0x100])
            # now and then a FUNC line without a name: fill_symbol then sets an empty function name, which
            # instruction_seems_valid_by_symbols takes for "no function here" (`!name.is_empty()`)
            funcs.append((off, size, "" if r.chance(1, 8) else "f%d" % i))
            off += size + r.choice([0, 0, 0, 1, adj, 0x10, -1 if size > 1 else 0])
        if r.chance(1, 3):
            size = r.choice([0x10, 0x100])
            funcs.append((msize - size, size + r.choice([0, 0, 1, 0x10]), "fend"))
        lines = ["FUNC %x %x 0 %s" % f for f in funcs]
        if r.chance(1, 3):
            lines.append("STACK CFI INIT 0 %x .cfa: %s%s %d + .ra: .cfa %d - ^" % (msize, px, R["sp"], pw * r.choice([1, 2, 4]), pw))
        sym_t = "T|" + "|".join(l.replace(" ", "~") for l in lines)

        def addr():
            a, size, _ = r.choice(funcs)
            return (mb + a + r.choice([0, 0, 1, adj, adj, adj - 1, adj + 1, size - 1, size, size, size + adj, size + adj - 1,
                                       size + adj + 1, size + 1, 2])) & top
        base = 0x80000000 if bits == 32 else 0x00007ffd00000000
        n_words = r.choice([4, 8, 12, 16])
        data = []
        for w in range(n_words):
            v = r.choice([addr(), addr(), addr(), base + pw * r.range(w + 1, n_words + 2), 0])
            data += le_bytes(v & top, pw)
        mods = [(mb, msize, sym_t)]
        if r.chance(1, 3):
            mods.append((mb + msize, 0x1000, r.choice(["-", "T|FUNC~0~10~0~g0"])))
        gp = [r.choice([addr(), 0]) for _ in range(A["ngp"])]
        return fmt_case(arch, r.choice([0, 0, 1, 2]), addr(), base + pw * r.below(2), base + pw * r.below(n_words), addr() if R["lr"] else 0,
                        gp, "*", base, data, mods)

    def cfi_walk_case(self):
        """a thread whose frames are all described by (random) STACK CFI text that is likely to evaluate:
        multi-frame CFI walks incl. rules that restore lr / fp / any register, `.cfa: sp 0 +`, `.ra: lr`."""
        r = self.r
        arch = r.choice([3, 3, 3, 6, 6, 2, 1, 0, 4, 5])
        A = ARCH[arch]
        R = REGS[arch]
        pw, bits, px = A["pw"], A["bits"], REGS[arch]["pfx"]
        top = (1 << bits) - 1
        nm = r.choice([1, 1, 2])
        mb = 0x40000000 if bits == 32 or r.chance(1, 2) else 0x00007400c0000000
        high = arch in (3, 6) and r.chance(1, 3)
        if high:      # 48-bit address space: code above 2^47, a low-mapped module listed last (load order, not address order)
            mb = r.choice([0x0000F00000000000, 0x0000800000000000, 0x0008000000000000])
        code = lambda mi=None: mb + 0x20000 * (r.below(nm) if mi is None else mi) + 0x100 + 4 * r.below(64)
        base = (0x80000000 if bits == 32 else (0x0000A00000000000 if high and r.chance(1, 2) else 0x00007ffd00000000)) + pw * r.below(4)
        n_words = r.choice([8, 16, 24, 40])
        data = []
        for w in range(n_words):
            v = r.choice([code(), code(), code(), base + pw * r.below(n_words + 1), 0, r.below(1 << bits)])
            data += le_bytes(v & top, pw)
        small = [R["sp"]] + R["fp"][:1] + R["lr"][:1] + R["gp"][:3] + R["gp"][-2:]
        names_lr = R["lr"] or R["gp"][:1]

        def rules():
            kk = lambda: r.choice([0, 0, 0, pw, 2 * pw, 16, 4 * pw])
            cfa = "%s%s %d +" % (px, R["sp"], kk())
            ra = r.choice([".cfa %d - ^" % pw, px + r.choice(names_lr), px + r.choice(names_lr), px + r.choice(R["gp"][-4:]),
                           "%s%s 4 +" % (px, r.choice(R["gp"][-4:])), ".cfa %d + ^" % r.choice([0, pw])])
            out = [".cfa: " + cfa, ".ra: " + ra]
            for _ in range(r.choice([0, 1, 2, 2, 3])):
                t = r.choice(R["lr"] * 3 + R["lr"][-1:] * 2 + R["fp"] + R["gp"][-4:] + R["gp"][:2])
                e = r.choice([".cfa -%d + ^" % r.choice([pw, 2 * pw, 16]), ".cfa %d + ^" % r.choice([0, pw]), px + t, px + t,
                              "%s%s 4 +" % (px, t), "%s%s" % (px, r.choice(small)), str(code()), ".cfa %d -" % r.choice([0, pw])])
                out.append("%s%s: %s" % (px, t, e))
            return " ".join(out)
        mods = []
        for i in range(nm):
            text = rules()
            deltas = "|%d=%s" % (0x100 + 4 * r.below(64), rules().replace(" ", "~")) if r.chance(1, 3) else ""
            mods.append((mb + 0x20000 * i, 0x10000, "Y|0|65536|0|65536|%s%s" % (text.replace(" ", "~"), deltas)))
        if high or r.chance(1, 5):
            mods.append((r.choice([0x10000000, 0x20000]), 0x1000, "-"))
            if r.chance(1, 3):
                mods.insert(0, (0x30000000, 0x1000, "-"))
        gp = [r.choice([code(), code(), base + pw * r.below(n_words), 0]) for _ in range(A["ngp"])]
        valid = "*" if r.chance(4, 5) else ",".join([R["sp"], R.get("pc", ["eip" if arch == 0 else "rip"])[0]] + [n for n in R["lr"][:1] + R["fp"][:1] + R["gp"][-3:] if r.chance(1, 2)])
        return fmt_case(arch, r.choice([0, 0, 1, 2]), code(), base + pw * r.below(3), base + pw * r.below(n_words), code() if R["lr"] else 0,
                        gp, valid, base, data, mods)

    def interesting_code(self, mods, A):
        r = self.r
        if mods and r.chance(5, 6):
            m = r.choice(mods)
            adj = A["adj"]
            # around the first and the last byte of a module, and so that `address - adj` is exactly the end / the first byte after it
            if m[0] < 4096 and r.chance(1, 2):
                # a module record reaching into the first page: words in (0, 4096) inside it, and exactly 4095 / 4096 / 4097
                return r.choice([1, 2, adj + 1, 0x10, 0x11, 0x7ff, 0x801, 0xff1, 4094, 4095, 4096, 4097, 4096 + adj, m[0] + 1, m[0] + adj + 1]) & ((1 << A["bits"]) - 1)
            return (m[0] + r.choice([0, 1, 2, adj, adj + 1, 0x100, 0x101, 0x150, 0x1ff, 0x200, 0x210, max(m[1] - 1, 0), m[1], m[1] + 1,
                                     m[1] + adj, m[1] + adj, m[1] + adj - 1, m[1] + adj + 1, m[1] - 1 + adj])) & ((1 << A["bits"]) - 1)
        return r.choice([0, 1, 4095, 4096, 4097, 4104, U32, U64 & ((1 << A["bits"]) - 1), 0x7FFFFFFFFFFF, 0x800000000000,
                         0x000fffffffffffff, 0x0010000000000000]) & ((1 << A["bits"]) - 1)

    def case(self):
        r = self.r
        arch = r.choice([0, 0, 1, 1, 1, 2, 3, 3, 4, 5, 6])
        A = ARCH[arch]
        pw, bits = A["pw"], A["bits"]
        top = (1 << bits) - 1
        os_ = r.choice([0, 0, 1, 1, 2]) if arch in (1, 2) else r.choice([0, 0, 0, 1, 2])
        self.arch = arch
        mods = self.modules(A)
        n_words = r.choice([0, 1, 2, 3, 4, 6, 8, 12, 16, 24, 32, 48, 64, 200, 300]) if r.chance(7, 8) else 0
        length = n_words * pw + (r.below(pw) if r.chance(1, 10) else 0)
        if r.chance(1, 40):
            length = r.choice([1, 2, 3, 5, 7])
        place = r.below(10)
        if place < 5:
            base = r.choice([0x80000000, 0x80001000, 0x7fff0000, 0x10000]) if bits == 32 else r.choice([0x80000000, 0x00007ffd00000000, 0x8000000080000000, 0x10000])
        elif place < 8:   # very top of the address space
            # -1: the memory's end is one past what a u64 can hold (base + size = 2^64): memory_range() is None, only the
            # context frame may come out (c05_stack_memory_edges)
            slack = r.choice([0, 1, pw, 2 * pw, 4 * pw, 5, 0, -1])
            base = (top + 1 if bits == 32 else U64) - length - slack
            if bits == 32 and r.chance(1, 4):
                base = U64 - length - slack          # memory base beyond what a 32-bit register can address
        elif place == 8:
            base = r.choice([0, 1, pw, 4096])
        else:
            base = r.below(1 << bits)
        base = max(0, min(base, U64))
        self.symbols(A, mods, base)
        end = base + length

        def stack_addr():
            k = r.below(12)
            if k < 6 and n_words:
                return (base + pw * r.below(n_words + 2)) & U64
            if k == 6:
                return (base + r.below(max(length, 1) + 3)) & U64
            if k == 7:
                return max(0, base - pw * r.range(1, 4))
            if k == 8:
                return (end + pw * r.below(3)) & U64
            return r.choice([0, 1, top, top - pw, top - 2 * pw, top - 2 * pw - 1, top - 2 * pw + 1, top - 3 * pw, U32, U64,
                             U64 - 2 * pw, 1 << 40])

        # stack words
        data = []
        style = r.below(6)
        for w in range(n_words):
            k = r.below(12)
            here = base + w * pw
            if style == 0:
                v = 0
            elif k < 3:
                v = self.interesting_code(mods, A)
            elif k < 6:
                v = r.choice([here, here - pw, here + pw, here + 2 * pw, here + 4 * pw, base, end, end - pw, here + 0x20000, here + 0x20000 + pw])
            elif k < 7:
                v = stack_addr()
            elif k < 9:
                v = r.choice([0, 0, 1, top, top - 1, U32, 4095, 4096])
            else:
                v = r.below(1 << bits)
            data += le_bytes(v & top, pw)
        data += [r.below(256) for _ in range(length - len(data))]
        data = data[:length]

        slot_top = (1 << A["slot"]) - 1

        def regval(f):
            v = f()
            if A["slot"] > bits and r.chance(1, 6):
                v |= r.choice([1 << 32, 1 << 40, 0xFFFFFFFF00000000])    # mips32: junk in the upper half of a slot
            return v & slot_top
        ip = regval(lambda: self.interesting_code(mods, A))
        sp = regval(stack_addr)
        fp = regval(stack_addr)
        lr = regval(lambda: self.interesting_code(mods, A)) if arch not in (0, 1) else 0   # x86/amd64 have no link register slot
        gp = [r.choice([0, 1, 7, top, r.below(1 << bits), self.interesting_code(mods, A), self.interesting_code(mods, A), stack_addr() & top]) for _ in range(A["ngp"])]
        if r.chance(5, 6):
            valid = "*"
        else:
            names = [n for n in VALID_NAMES[arch] if r.chance(1, 2)]
            valid = ",".join(names) or "-"
        return fmt_case(arch, os_, ip, sp, fp, lr, gp, valid, base, data, [tuple(m) for m in mods])


# ---------------------------------------------------------------- well-formed stacks (shared with C04)
def build_chain(rng, arch, os_, technique, depth, top_of_space=False):
    """A frame-pointer chain / scan-findable / CFI-described stack of `depth` callers above the
    context frame.  Returns (case line, expected frames as list of dicts)."""
    A = ARCH[arch]
    pw, bits = A["pw"], A["bits"]
    adj = A["adj"]
    mbase = 0x40000000 if bits == 32 else rng.choice([0x00007400c0000000, 0x40000000, 0x0000000100000000])
    msize = 0x10000
    nmods = rng.range(1, 3)
    # arm64: 48-bit address spaces -- code (and the stack) above 2^47, module list in load order, not address order
    high = arch in (3, 6) and rng.chance(2, 5)
    if high:
        mbase = rng.choice([0x0000F00000000000, 0x0000800000000000, 0x0000FFFF00000000])
    mods = [[mbase + i * 0x20000, msize, "-"] for i in range(nmods)]
    extra_mods = []
    if high or rng.chance(1, 4):
        extra_mods = [[rng.choice([0x10000000, 0x20000] + ([0x00005500000000] if bits == 64 else [])), 0x1000, "-"]]   # listed last, mapped low
    HIGH_STACK = 0x0000A00000000000
    ret_addr = lambda i: mods[i % nmods][0] + 0x100 + 0x10 * (i % 200)
    # frame sizes in words
    frames = []
    if technique == "fp":
        if arch in (3, 6):
            top_of_space = False     # arm64 strips pointer-authentication bits: frame pointers must stay below the mask (2^47)
        # [locals..][saved fp][return address]   fp register points at the saved fp slot
        words = []
        sizes = [rng.range(0, 6) for _ in range(depth + 1)]
        # layout from low addresses (callee) to high (callers)
        slots = []      # ('pad',n) | ('fp', frame_index) | ('ra', frame_index)
        for i in range(depth):
            slots += [("pad", None)] * sizes[i] + [("fp", i), ("ra", i)]
        slots += [("pad", None)] * max(sizes[depth], 1)
        if arch in (3, 6):
            slots += [("pad", None)]
        total = len(slots) * pw
        base = ((1 << bits) - total - (pw if bits == 32 else 1 + 7)) if top_of_space else (0x80000000 if bits == 32 else (HIGH_STACK if high and rng.chance(1, 2) else 0x00007ffd00000000))
        base &= ~(pw - 1)
        fp_addr = {}
        for idx, (k, i) in enumerate(slots):
            if k == "fp":
                fp_addr[i] = base + idx * pw
        end = base + total
        # the outermost frame's saved fp: points to a readable word past everything (amd64 wants a readable caller bp)
        last_fp = end - pw
        data = []
        last_rec = max([idx for idx, (k, _) in enumerate(slots) if k == "ra"] + [-1])
        for idx, (k, i) in enumerate(slots):
            if k == "pad":
                # locals between the records: return-address look-alikes (the frame-pointer technique never scans them)
                v = (ret_addr(rng.below(200)) if rng.chance(1, 2) else 0) if idx < last_rec else 0
            elif k == "fp":
                v = fp_addr.get(i + 1, last_fp)
            else:
                v = ret_addr(i)
            data += le_bytes(v, pw)
        sp0 = base
        fp0 = fp_addr[0] if depth else last_fp
        ip0 = mods[0][0] + 0x50
        exp = []
        for i in range(depth):
            exp.append(dict(resume=ret_addr(i), instr=ret_addr(i) - adj, sp=fp_addr[i] + 2 * pw, trust="frame_pointer",
                            fp=fp_addr.get(i + 1, last_fp)))
        case = fmt_case(arch, os_, ip0, sp0, fp0, 0, [0] * A["ngp"], "*", base, data, [tuple(m) for m in mods + extra_mods])
        return case, exp, dict(ip=ip0, sp=sp0)
    if technique == "scan":
        # return addresses findable within the scan window; no frame pointers.  Give the modules
        # no symbols so every in-module address is acceptable; junk words are small integers.
        window_ctx, window = (160, 40) if arch not in (4, 5) else ((256, 252) if arch == 4 else (128, 128))
        skip = 4 if arch == 4 else 0
        slots = []
        for i in range(depth):
            lim = (window_ctx if i == 0 else window) - 1
            lo = skip if (i > 0 and arch == 4) else 0
            gap = rng.range(lo, min(lim, lo + rng.choice([0, 1, 3, 8, lim - lo])))
            if i > 0 and arch == 4:
                gap = max(gap, skip)
            slots += [("pad", None)] * gap + [("ra", i)]
        # terminate: after the last frame, a window full of non-addresses, then end of memory
        slots += [("pad", None)] * 2
        total = len(slots) * pw
        base = ((1 << bits) - total - (pw if bits == 32 else 8)) if top_of_space else (0x80000000 if bits == 32 else (HIGH_STACK if high and rng.chance(1, 2) else 0x00007ffd00000000))
        base &= ~(pw - 1)
        data = []
        exp = []
        run = 0        # position inside the current gap
        seen = 0
        for idx, (k, i) in enumerate(slots):
            if k == "pad":
                # mips32: the MIN_ARGS words skipped for every frame but the first get code-looking values
                if arch == 4 and seen > 0 and run < skip:
                    data += le_bytes(ret_addr(rng.below(200)), pw)
                else:
                    data += le_bytes(rng.choice([0, 1, 2, 7]), pw)
                run += 1
            else:
                run = 0
                seen += 1
                data += le_bytes(ret_addr(i), pw)
                exp.append(dict(resume=ret_addr(i), instr=ret_addr(i) - adj, sp=base + (idx + 1) * pw, trust="scan"))
        ip0 = mods[0][0] + 0x50
        # no frame pointer available: make fp invalid where the architecture would use it
        names = {0: "eip,esp", 1: "rip,rsp", 2: "pc,sp", 3: "pc,sp", 6: "pc,sp", 4: "pc,sp", 5: "pc,sp"}[arch]
        case = fmt_case(arch, os_, ip0, base, 0, 0, [0] * A["ngp"], names, base, data, [tuple(m) for m in mods + extra_mods])
        return case, exp, dict(ip=ip0, sp=base)
    if technique == "cfi":
        # every module: .cfa = sp + N ; .ra = *(cfa - pw); one N per module
        ns = [rng.range(1, 8) * pw * (2 if arch in (3, 6) else 1) for _ in range(nmods)]
        for i, m in enumerate(mods):
            m[2] = sym(0, msize, 0, msize, ns[i], 0, pw, None)
        ip0 = mods[0][0] + 0x50
        cur_mod = 0
        base = 0x80000000 if bits == 32 else (HIGH_STACK if high and rng.chance(1, 2) else 0x00007ffd00000000)
        if top_of_space:
            base = ((1 << bits) - sum(ns) * (depth + 2) - 64) & ~(pw - 1)
        sp = base
        data = []
        exp = []
        for i in range(depth):
            n = ns[cur_mod]
            cfa = sp + n
            ra = ret_addr(i)
            for _ in range(n // pw - 1):
                data += le_bytes(ret_addr(rng.below(200)) if rng.chance(1, 2) else 0, pw)
            data += le_bytes(ra, pw)
            exp.append(dict(resume=ra, instr=ra - adj, sp=cfa, trust="cfi"))
            sp = cfa
            cur_mod = i % nmods
        # the last frame: its CFI reads a zero return address -> end of stack
        n = ns[cur_mod]
        data += [0] * n
        case = fmt_case(arch, os_, ip0, base, 0, 0, [0] * A["ngp"], "*", base, data, [tuple(m) for m in mods + extra_mods])
        return case, exp, dict(ip=ip0, sp=base)
    raise ValueError(technique)


WIN_PROGRAM = "$T0 .raSearchStart = $eip $T0 ^ = $esp $T0 4 + ="
WIN_PROGRAM_EBX = WIN_PROGRAM + " $ebx $T0 4 - ^ ="
WIN_PROGRAM_RASEARCH = "$T0 .raSearch = $eip $T0 ^ = $esp $T0 4 + ="


def win_stack(rng, depth, perturb=False):
    """x86 thread whose functions are described by STACK WIN records (frame data with .raSearchStart programs, FPO records,
    both kinds covering one function with DIFFERENT parameter sizes, FUNC-only parameter sizes) and STACK CFI, mixed per
    frame.  Frame i holds [arguments pushed for its callee = parameter size of function i-1][locals][saved regs][return address].
    Returns (case line, expected callers)."""
    A = ARCH[0]
    mb = 0x40000000
    base = 0x80000000
    os_ = rng.choice([1, 1, 0])
    nfun = depth + 1
    funs = []
    for i in range(nfun):
        kind = rng.choice(["fd", "fd", "fpo", "both", "both", "fd_ebx", "cfi", "fd_rs"])
        saved = rng.choice([0, 4, 8]) if kind != "fd_ebx" else rng.choice([4, 8])
        funs.append(dict(off=0x1000 + 0x200 * i, kind=kind, params=rng.choice([0, 4, 8, 12]), stale=rng.choice([0, 4, 16]),
                         fpsize=rng.choice([0, 4, 8]), saved=saved, locals=4 * rng.range(0, 8)))

    def eff_params(f):      # what fill_symbol records for a frame in this function: frame data > FPO > FUNC
        if f["kind"] in ("fd", "both", "fd_ebx", "fd_rs"):
            return f["params"]
        if f["kind"] == "fpo":
            return f["params"]
        return f["fpsize"]
    code = lambda i: mb + funs[i]["off"] + 0x10 + 4 * rng.below(32)
    decoy = lambda: rng.choice([mb + funs[rng.below(nfun)]["off"] + 0x20, base + 4 * rng.below(64), rng.below(1 << 32), 0x11110000 + rng.below(100)])
    data, exp, lines = [], [], []
    sp = base
    for i in range(nfun):
        f = funs[i]
        gcps = eff_params(funs[i - 1]) if i > 0 else 0
        fsize = gcps + f["locals"] + f["saved"]
        ra = code(i + 1) if i + 1 < nfun else 0
        for _ in range(fsize // 4):
            data += le_bytes(decoy(), 4)
        data += le_bytes(ra, 4)
        sp += fsize + 4
        if ra:
            exp.append(dict(instr=ra - 1, resume=ra, sp=sp, trust="cfi"))
        lines.append("FUNC %x 100 %x f%d" % (f["off"], f["fpsize"], i))
        prog = {"fd": WIN_PROGRAM, "both": WIN_PROGRAM, "fd_ebx": WIN_PROGRAM_EBX, "fd_rs": WIN_PROGRAM_RASEARCH}.get(f["kind"])
        if prog:
            lines.append("STACK WIN 4 %x 100 0 0 %x %x %x 0 1 %s" % (f["off"], f["params"], f["saved"], f["locals"], prog))
        if f["kind"] == "both":
            stale = f["stale"] if f["stale"] != f["params"] else f["params"] + 4
            lines.append("STACK WIN 0 %x 100 0 0 %x %x %x 0 0 0" % (f["off"], stale, f["saved"], f["locals"]))
        if f["kind"] == "fpo":
            lines.append("STACK WIN 0 %x 100 0 0 %x %x %x 0 0 0" % (f["off"], f["params"], f["saved"], f["locals"]))
        if f["kind"] == "cfi":
            lines.append("STACK CFI INIT %x 100 .cfa: $esp %d + .ra: .cfa 4 - ^" % (f["off"], fsize + 4))
    data += le_bytes(0, 4) * 2
    if perturb:
        k = rng.below(4)
        if k == 0 and lines:
            j = rng.below(len(lines))
            t = lines[j].split(" ")
            if t[0] == "STACK" and t[1] == "WIN":
                t[rng.choice([7, 8, 9])] = "%x" % rng.choice([0, 4, 8, 0x10, 0xfffffff0, 0xffffffff])
                lines[j] = " ".join(t)
        elif k == 1:
            data = data[:4 * rng.below(len(data) // 4 + 1)]
        elif k == 2:
            rng_i = rng.below(max(len(data) // 4, 1))
            data[4 * rng_i:4 * rng_i + 4] = le_bytes(rng.choice([0, 1, 4095, mb + 0x1010, 0xffffffff]), 4)
    sym_t = "T|" + "|".join(l.replace(" ", "~") for l in lines)
    gp = [rng.choice([0x0b0b0b0b, 0, mb + 0x1234])] + [0] * (A["ngp"] - 1)
    case = fmt_case(0, os_, mb + funs[0]["off"] + 0x10, base, rng.choice([0, base + 64]), 0, gp, "*", base, data, [(mb, 0x10000, sym_t)])
    return case, exp


def fp_supported(arch, os_):
    return arch in (0, 1, 3, 6) or (arch == 2 and os_ == 2)


def c05_oracle(case, ans):
    """The invariants of the property text, evaluated on the implementation's answer."""
    if ans.startswith("P;;"):
        return "walk_stack panicked: " + ans[3:200]
    c = parse_case(case)
    A = ARCH[c["arch"]]
    pw = A["pw"]
    try:
        fr = parse_frames(ans)
    except ValueError as e:
        return "unparseable answer: %s" % e
    if not fr:
        return "no frames returned"
    f0 = fr[0]
    ctx_ip = c["ip"]
    if f0["trust"] != "context" or f0["instr"] != ctx_ip or f0["resume"] != ctx_ip:
        return "frame 0 is not the context frame: instr=%d resume=%d trust=%s, context ip=%d" % (f0["instr"], f0["resume"], f0["trust"], ctx_ip)
    if f0["sp"] != c["sp"]:
        return "frame 0 stack pointer %d differs from the context's %d" % (f0["sp"], c["sp"])
    base, data = c["base"], c["data"]
    if len(fr) > len(data) + 2:
        return "%d frames from a stack memory of %d bytes (bound: bytes + 2)" % (len(fr), len(data))
    for i, f in enumerate(fr[1:], 1):
        if f["resume"] < 4096:
            return "frame %d has return address %d < 4096" % (i, f["resume"])
        if f["instr"] != f["resume"] - A["adj"]:
            return "frame %d: instruction %d is not return address %d - %d" % (i, f["instr"], f["resume"], A["adj"])
        if f["trust"] not in ("cfi", "frame_pointer", "scan"):
            return "frame %d has trust %s" % (i, f["trust"])
        prev = fr[i - 1]
        if f["sp"] < prev["sp"] or (f["sp"] == prev["sp"] and not (A["leaf"] and i == 1)):
            return "stack pointer does not increase from frame %d (%d) to frame %d (%d)" % (i - 1, prev["sp"], i, f["sp"])
        if f["trust"] == "scan":
            a = f["sp"] - pw
            off = a - base
            if off < 0 or off + pw > len(data):
                return "scan frame %d: word below sp (%d) is outside the stack memory" % (i, a)
            word = sum(data[off + k] << (8 * k) for k in range(pw))
            if word != f["resume"]:
                return "scan frame %d: return address %d is not the word %d stored just below its sp" % (i, f["resume"], word)
    for i, f in enumerate(fr):
        if f["module"] is not None:
            if f["module"] >= len(c["mods"]):
                return "frame %d names module %d which does not exist" % (i, f["module"])
            mb, ms, _ = c["mods"][f["module"]]
            if not (mb <= f["instr"] < mb + ms):
                return "frame %d: module %d [%d,+%d) does not cover instruction %d" % (i, f["module"], mb, ms, f["instr"])
        fn = f.get("func")
        if fn is not None:
            # a frame's function, when present, covers its address: it is a FUNC record of the frame's module's own
            # symbol file whose [base, base + size) contains the frame's instruction (the generated files have no PUBLIC records)
            fb, name = fn
            if fb == "?" or name == "?":
                return "frame %d: function half set (base %s, name %s)" % (i, fb, name)
            if f["module"] is None:
                return "frame %d has function %s@%s but no module" % (i, name, fb)
            mb, ms, sy = c["mods"][f["module"]]
            recs = func_records(sy)
            if recs is None:
                return "frame %d has function %s@%s but its module %d has no symbol file" % (i, name, fb, f["module"])
            fb = int(fb)
            if not any(mb + a == fb and nm == name and fb <= f["instr"] < fb + sz for (a, sz, nm) in recs):
                return "frame %d: function %s@%d does not cover instruction %d (FUNC records of module %d at %d: %s)" % (
                    i, name, fb, f["instr"], f["module"], mb, ", ".join("%s@+%d size %d" % (nm, a, sz) for (a, sz, nm) in recs[:8]))
    return None


class C05(PropBase):
    pid = "C05"
    coq_dirs = ["Base", "Gen", "C08", "C05"]
    translators = ["unwind_consts.py"]
    bins = ["c05"]
    impl_timeout = 900       # per shard; a hanging case is ended by the harness's own per-case CPU-time watchdog long before
    model_timeout = 3600     # per shard of the extracted model (thorough tier: ~20 000 cases per shard on a loaded machine)
    rule = ("cases = (cpu, os, context registers + validity, stack base + bytes, modules with optional symbol file of the "
            "family `.cfa: SP N + .ra: (.cfa M - ^ | const) [FP: .cfa K - ^]`); adversarial generator: stack at the top of the "
            "address space / at 0 / anywhere, sp and fp inside, below, at the end of, beyond the stack and at 0, 2^32-1, 2^64-1, "
            "MAX-2w+-1, stack words that are planted return addresses, backward / self / forward stack addresses or junk, "
            "CFI setting cfa below/equal/above sp, validity subsets; plus well-formed frame-pointer / scan / CFI stacks of depth "
            "1..64; non-trivial = the implementation produced at least 2 frames; distinct = distinct case lines")
    trusted_base = [
        "Coq 8.16.1 kernel (vm_compute only in the _refuted / non-vacuity statements)",
        "model C05/Model.v written by hand from minidump-unwind/src/{lib,x86,amd64,arm,arm64,mips}.rs (arm64_old checked to be "
        "arm64's textual twin by the translator); constants regenerated by translate/unwind_consts.py; tied to the code by the correspondence run",
        "translate/unwind_consts.py's statement/expression subset of Rust (if / let / return None / frame.instruction = / && || ! "
        "comparisons / + - / widening `as`) and its reading of the operands (frame.context.get_instruction_pointer(), "
        "get_stack_pointer(), ctx.esp / ctx.rsp / ctx.get_register_always(sp), args.callee_frame.trust == FrameTrust::Context, "
        "get_memory_at_address::<u8>(sp).is_none()) when it re-emits the guards of get_caller_frame / walk_stack as Gen/UnwindTail.v",
        "the translator's token-level templates of instruction_seems_valid_by_symbols (fill_symbol abstracted as: Err / Ok without set_function / "
        "Ok after set_function(name) with name.is_empty() known) and of arm64 ptr_auth_strip (checked_next_power_of_two = 2^log2_up, `&` = Z.land)",
        "C11's model of SymbolFile::fill_symbol (C11.Model.symbolize) stands for fill_symbol in c05_function_covers and c05_scan_function_covers "
        "(names abstract there: which one is the empty string is a parameter); C11's own check ties it to the code",
        "oracles of the model (Section variables): module lookup (contract = C08 c08_lookup_sound), symbol-file CFI/WIN walk "
        "(contract: register values fit the register width), instruction_seems_valid_by_symbols — universally quantified in the theorems",
        "the driver instantiates them with C08's range map and a small evaluator of one STACK CFI rule family (coq/C05/Driver.v)",
        "extraction: ExtrOcamlBasic only; ocaml/zconv.ml + ocaml/c05/main.ml glue; harness/src/bin/c05.rs; little-endian stack memory only",
    ]
    manifest = {
        "text": "Theorems (Coq, one parametric walker instantiated for x86, amd64, arm, arm64(+old layout), mips32, mips64; for ALL contexts, "
                "validity sets, stack memories, module lookups and ALL behaviours of the CFI / symbol oracles, both build profiles): "
                "first frame = context; every later frame has return address >= 4096, instruction = return address - adjustment, trust in "
                "{cfi, frame_pointer, scan}; stack pointers strictly increase (equality only between the first two frames on ARM/ARM64/MIPS); "
                "a scan frame's return address is the word just below its sp inside the stack memory; module lookups cover the address (from C08); "
                "no panic site of the walker is reachable; the C03 frame bound: at most |stack bytes| + 2 frames, fuel |stack| + 3 suffices; "
                "ptr_auth_strip mask soundness; the CFI-oracle contract proved for C06's model of the real CfiStackWalker. "
                "The checks at the end of every <arch>::get_caller_frame (nullish ip, sp must grow, leaf exception, call adjustment), the stop "
                "guard of walk_stack and the arithmetic flavour of amd64's resolve() are RE-EMITTED from the Rust text on every run "
                "(Gen/UnwindTail.v); theorems about exactly these generated definitions: c05_tail_sound_<arch> (never traps; a frame let through has "
                "ip >= 4096, instruction = ip - adjustment, sp above the callee's or, ARM/ARM64/MIPS, equal with the callee being the context frame), "
                "c05_tail_pinned (generated = parametric model, all inputs), c05_generated_<arch> (well-formedness, no panic, frame bound for the "
                "walker made of the generated pieces - the walker the correspondence run executes). "
                "c05_function_covers: for every frame of a walk, its module (C08 range map) covers the instruction and the function C11's model of "
                "fill_symbol sets is a FUNC record of that module's file with base <= instruction < base + size (or a PUBLIC record at or below it). "
                "Second pass: the scan acceptance test (every <arch>::instruction_seems_valid front test, is_non_canonical, and the whole body of "
                "lib.rs instruction_seems_valid_by_symbols), arm64's ptr_auth_strip (statement by statement) and the FrameTrust of every "
                "StackFrame construction site are re-emitted from the Rust text too; c05_scan_accepted (every frame marked scan passed the front "
                "test and the symbol test; no hypotheses), c05_instr_valid_pinned (generated = model; the driver runs the generated by_symbols "
                "body), c05_isv_by_symbols_sound (an accepted address is >= 2 and address - 1 lies in a module without symbols or with a named "
                "function; any lookup / provider), c05_scan_in_module (end to end through C08 for the walker the driver runs), "
                "c05_ptr_auth_strip_source (generated strip never traps, = the model's ptr mod 2^k, never grows a pointer), c05_trusts_pinned "
                "(cfi_scan / prewalked / none are constructed nowhere), c05_stack_memory_edges (empty stack memory or one whose end exceeds "
                "2^64 - 1: exactly the context frame), c05_memory_range_source (minidump.rs memory_range re-emitted: never traps, Some exactly when "
                "the model walks the memory), c05_scan_function_covers (scan acceptance with the symbol lookup inside, over C08's lookup and C11's "
                "model of fill_symbol: the predecessor of a scanned return address lies in a module without symbol file or in a FUNC / at or "
                "above a PUBLIC record with a non-empty name). "
                "The model is tied to the code by running minidump_unwind::walk_stack and the extracted model on generated adversarial and "
                "well-formed stacks in debug and release builds; an independent oracle evaluates the invariants on the implementation's frames, "
                "incl. module covers and function covers (function base/name observed per frame, judged against the FUNC records of the case's own "
                "symbol file; generator plants return addresses on function starts / ends / start + adjustment of adjacent and overlapping FUNCs).",
        "note": "Trusted: Coq kernel; hand-written model (correspondence-checked, not verified against rustc semantics); the CFI/WIN evaluation "
                "inside the symbol file is abstract here (C06/C07 model it); async plumbing, tracing and the debuginfo provider are not modelled; "
                "stack memory is little-endian and its descriptor size equals the byte count.",
    }
    assumptions = ["stack memory little-endian, MinidumpMemory.size == bytes.len()",
                   "symbol provider = breakpad Symbolizer over string symbol files; debuginfo (framehop) provider not covered",
                   "source lines / inlines of frames are not observed here (C11); function base and name are judged by the oracle, not compared with the model"]

    _prof = "debug"

    def canon_model(self, case, ans):
        parts = ans.split(" ## ")
        if len(parts) != 2:
            return ans
        a = parts[0] if self._prof == "debug" else parts[1]
        return "P" if a == "P" else a

    def canon_impl(self, case, ans, profile):
        return "P" if ans.startswith("P;;") else ans      # 10 fields per frame, like the model driver's answer

    def impl_cmd(self, exe, profile):
        return [exe, "--functions"]     # 10th field per frame: function base and name (compared with the model and judged by the oracle)

    def oracle(self, case, ans, profile):
        self._prof = profile        # the runner calls oracle, then canon_model/canon_impl, for the same (case, profile)
        return c05_oracle(case, ans)

    def nontrivial(self, case, ans):
        return ans.count("|") >= 1

    def gen_cases(self, tier, seed):
        rng = Rng(seed)
        g = Gen(rng)
        cases = []
        dist = {"adversarial": 0, "wellformed": 0, "by_arch": {}}
        n_adv = 22000 if tier == "quick" else 200000
        for _ in range(n_adv):
            c = g.case()
            cases.append(c)
            dist["adversarial"] += 1
            a = c.split(" ", 1)[0]
            dist["by_arch"][a] = dist["by_arch"].get(a, 0) + 1
        n_cfi = 6000 if tier == "quick" else 60000
        for _ in range(n_cfi):
            cases.append(g.cfi_walk_case())
        dist["cfi_rule_text_walks"] = n_cfi
        n_fn = 2000 if tier == "quick" else 20000
        for _ in range(n_fn):
            cases.append(g.func_case())
        dist["function_boundaries"] = n_fn
        n_win = 1500 if tier == "quick" else 15000
        for _ in range(n_win):
            c, _ = win_stack(rng, rng.choice([1, 2, 3, 4, 6, 9, 16]), perturb=rng.chance(2, 3))
            cases.append(c)
        dist["stack_win_x86"] = n_win
        n_wf = 2000 if tier == "quick" else 20000
        for _ in range(n_wf):
            arch = rng.choice([0, 1, 2, 3, 4, 5, 6])
            os_ = rng.choice([0, 1, 2])
            techs = ["scan", "cfi"] + (["fp"] if fp_supported(arch, os_) else [])
            tech = rng.choice(techs)
            depth = rng.choice([1, 2, 3, 5, 8, 13, 32, 64])
            c, _, _ = build_chain(rng, arch, os_, tech, depth, top_of_space=rng.chance(1, 4))
            cases.append(c)
            dist["wellformed"] += 1
        # The runner shards the case list contiguously over processes.  The deep well-formed chains (and the symbol-file
        # cases) cost the model driver 10-100x an adversarial tuple; left at the end of the list they all land in the last
        # shard, which then decides the wall time (and exceeded the shard time limit in a thorough run on a loaded machine).
        # A seed-determined Fisher-Yates shuffle spreads them evenly.
        for i in range(len(cases) - 1, 0, -1):
            j = rng.below(i + 1)
            cases[i], cases[j] = cases[j], cases[i]
        return cases, dist, False


PROP = C05()
