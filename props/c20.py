"""C20 — the command-line tool exits cleanly and prints exactly what the library computes (partial)."""
import os
import sys

import vlib
from runner import PropBase
from vlib import Rng, log

TOOL_TARGET = os.path.join(vlib.ALT_DIR, "stackwalk-target") if getattr(vlib, "ALT", False) else os.path.join(vlib.CACHE, "stackwalk-target")
MODES = ["-", "h", "j", "c", "D"]
CONFLICTS = ["hj", "jh", "hc", "hD", "jc", "cj", "jD", "Dj", "cD", "hjcD", "jm", "Dm"]
GOOD_FILES = ["test.dmp", "linux-mini.dmp", "simple-crashpad.dmp", "pipeline-inlines-macos-segv.dmp"]
BAD_FILES = ["invalid-parameter.dmp", "invalid-range.dmp", "invalid-record-count.dmp", "full-dump.dmp"]
NSYNTH = 8
FIELDS = ["input", "sym", "modes", "brief", "pretty", "feat", "rfa", "out", "cy", "log", "verbose", "stdout", "evil", "noflags", "lim", "ldi", "argv"]
FEATURE_VALUES = ["stable-basic", "stable-all", "unstable-all"]            # --help: [possible values: ...]
VERBOSE_VALUES = ["off", "error", "warn", "info", "debug", "trace"]
# the accepted output option sets: (modes, brief, pretty)
ACCEPTED = [(m, b, 0) for m in ("-", "h", "D") for b in (0, 1)] + [("j", 0, p) for p in (0, 1)] + \
           [("c", b, p) for b in (0, 1) for p in (0, 1)]


def thorough_requested():
    a = sys.argv
    if "--tier" in a and a.index("--tier") + 1 < len(a):
        return a[a.index("--tier") + 1] == "thorough"
    if any(x == "--tier=thorough" for x in a):
        return True
    return "--tier" not in a and os.environ.get("VERIF_TIER") == "thorough"


def mk(input_, sym="n", modes="-", brief=0, pretty=0, feat=9, rfa=0, out="-", cy="-", log_="-", verbose="e",
       stdout="o", evil=0, noflags=0, lim=0, ldi=0, argv=None):
    if "c" in modes and cy == "-":
        cy = "g"
    line = "%s %s %s %d %d %d %d %s %s %s %s %s %d %d" % (input_, sym, modes, brief, pretty, feat, rfa, out, cy, log_,
                                                           verbose, stdout, evil, noflags)
    if lim or ldi or argv:
        line += " %d %d" % (lim, ldi)
    if argv:
        line += " " + argv
    return line


def enc_argv(tag, toks):
    """the 17th case token: the complete argument vector, percent-encoded (see harness/src/bin/c20.rs)"""
    def enc(t):
        if t == "":
            return "%_"
        return "".join(ch if (ch.isalnum() or ch in "-_.=@/+:") else "%%%02X" % ord(ch) for ch in t)
    return "A%s:%s" % (tag, ",".join(enc(t) for t in toks) if toks else "!")


def base_argv(modes="-", brief=0, pretty=0, feat=9, rfa=0, out="-", cy="-", log_="-", verbose="e", sym="n", eq=False):
    """the argument vector harness/src/bin/c20.rs builds for these fields, written with the placeholders @D @O @C @L @S;
    eq: every valued option in its `--name=value` form"""
    a = []

    def opt(name, val):
        if eq:
            a.append("%s=%s" % (name, val))
        else:
            a.extend([name, val])
    for m in modes:
        if m == "h":
            a.append("--human")
        elif m == "j":
            a.append("--json")
        elif m == "D":
            a.append("--dump")
        elif m == "c":
            opt("--cyborg", "@C")
    if brief:
        a.append("--brief")
    if pretty:
        a.append("--pretty")
    if feat != 9:
        opt("--features", FEATURE_VALUES[feat])
    if rfa:
        a.append("--recover-function-args")
    if out != "-":
        opt("--output-file", "@O")
    if log_ != "-":
        opt("--log-file", "@L")
    if verbose != "e":
        opt("--verbose", verbose)
    if sym == "s":
        opt("--symbols-path", "@S")
    a.append("@D")
    if sym == "p":
        a.append("@S")
    return a


def near_misses(value):
    """spellings that are NOT the enumerated value but close to it"""
    v = value
    out = [v.upper(), v.capitalize(), v.title(), v[:-1], v[0], v + " ", " " + v, v + "x", v.replace("-", "_") if "-" in v else v + "-",
           v.swapcase(), v + "\n", v[:1].upper() + v[1:-1] + v[-1:].upper(), v + ",", '"%s"' % v]
    seen, res = {v}, []
    for x in out:
        if x not in seen:
            seen.add(x)
            res.append(x)
    return res


def parse_case(line):
    t = line.split()
    d = dict(zip(FIELDS, t + ["0", "0"][len(t) - 14:] + (["-"] if len(t) < 17 else [])))
    for k in ("brief", "pretty", "feat", "rfa", "evil", "noflags", "lim", "ldi"):
        d[k] = int(d[k])
    return d


def parse_sink(s):
    """-> None (absent) | 'n/a' | (len, hash, set of names)"""
    if s == "-":
        return None
    if s == "n/a":
        return "n/a"
    ln, h, names = s.split(":")
    return (int(ln), h, set(names.split("+")) - {"none"})


def exp_sizes(a):
    """sizes of the in-process renderings reported by the harness"""
    out = {}
    if a.get("exp", "-") != "-":
        for tok in a["exp"].split(","):
            n, ln, _h = tok.split(":")
            out[n] = int(ln)
    return out


def parse_answer(ans):
    d = {}
    for tok in ans.split(" "):
        k, _, v = tok.partition("=")
        d[k] = v
    return d


# ------------------------------------------------------------------ what the documentation promises
def documented(c):
    """(rejected, primary renderer name, secondary renderer name or None) from README.md / --help only."""
    m = c["modes"].replace("-", "")
    group = len(m)
    if group > 1:
        return True, None, None
    if "m" in m:
        return False, "HELP", None
    json_ish = "j" in m or "c" in m          # --cyborg = --human + --json
    human_ish = "c" in m or not ("j" in m or "D" in m)
    if c["pretty"] and not json_ish:          # "Pretty-print --json output"
        return True, None, None
    if c["brief"] and not (human_ish or "D" in m):   # "Provide a briefer --human or --dump report"
        return True, None, None
    rec = "1" if (c["feat"] == 2 or c["rfa"]) else "0"   # "unstable-all enables: --recover-function-args"
    if "D" in m:
        return False, ("DB" if c["brief"] else "D"), None
    js = ("JP" if c["pretty"] else "J") + rec
    if "j" in m:
        return False, js, None
    hs = ("HB" if c["brief"] else "H") + rec
    return False, hs, (js if "c" in m else None)


def io_trouble(c):
    return c["out"][0] in "budrf" or ("c" in c["modes"] and c["cy"][0] in "budr") or c["stdout"][0] in "up" or \
        c["log"][0] in "budr" or c["lim"] > 0 or c["out"] == "xL" or c["log"] == "xL" or ("c" in c["modes"] and c["cy"] == "xL")


def write_trouble(c):
    """an obstacle that lets a sink be OPENED and makes WRITES to it fail (a full device, a size limit, a reader that goes away) - as
    opposed to a path that cannot be created (missing parent, a directory, no permission, a symlink loop): there the tool fails
    before the first report byte (c20_uncreatable_sink_no_report), so bytes on the primary output are not the known finding F-C20d"""
    return c["out"][0] in "uf" or ("c" in c["modes"] and c["cy"][0] == "u") or c["stdout"][0] in "up" or c["lim"] > 0


def has_prestate(cls):
    return (cls[0] == "x" and cls != "xL") or cls[0] == "q"


def acceptable(c, name):
    """the renderings a sink may equal for the documented renderer `name`.  The manual does not say whether a
    --symbols-path value given BEHIND a positional symbol path is searched before it: both readings are accepted
    (argv order, and flag values first); within one style the order given is the order searched."""
    if name is None:
        return set()
    return {name, name + "@flagsfirst"} if c["sym"][0] == "M" else {name}


DIAG_NAMES = {"E": "nothing", "L": "exactly the line main.rs logs for the library's error", "L+": "other lines and then the line for the library's error",
              "1": "one other ERROR line", "C": "one `Error: ..` line", "U": "clap's usage error", "?": "something else", "-": "n/a"}


def kept_all(a):
    return set(a.get("kept", "-").split("+")) - {"-"}


def sink_len(s):
    return 0 if s is None else (None if s == "n/a" else s[0])


class C20(PropBase):
    pid = "C20"
    translators = ["c20_dump_sequence.py", "c20_wiring.py", "c20_cli.py"]
    coq_dirs = ["C20"]
    bins = ["c20"]
    impl_timeout = 1500
    rule = ("case = (input file spec: testdata dump | byte-mutated | truncated | minidump-synth variant | missing | empty | "
            "directory | text) x (symbol path style) x (output mode flags incl. conflicting ones) x --brief x --pretty x --features "
            "x --recover-function-args x --output-file class (none / writable / missing directory / /dev/full) x --cyborg file class "
            "x --log-file x --verbose x stdout class (pipe / /dev/full / closed pipe / reader leaving after N bytes) x RLIMIT_FSIZE "
            "x --symbols-url on a loopback server (200/404/garbage/slow answer vs download timeout; cache/tmp usable or not) x "
            "--use-local-debuginfo; DS:<seed> = synthesized dumps in which each stream kind --dump prints is absent / present / unreadable; file sink "
            "classes: writable, missing directory, /dev/full, a directory, read-only (tool run as uid 65534), FIFO whose reader "
            "leaves after N bytes; the state of each sink path BEFORE the run: absent, empty, shorter, longer, exactly as long as "
            "the report, a symlink to a longer file, a dangling symlink, a symlink loop, or written by previous runs of the tool with "
            "other option sets (json then human, dump then brief dump, pretty then compact cyborg, trace log then error log); symbol "
            "sources M<items>: 2-4 symbol roots that describe the same module differently (plus empty / missing roots and a .sym file) "
            "in every order, duplicated, as positionals / --symbols-path values in front of and behind the minidump / mixed, several "
            "--symbols-url values in both orders, URLs with paths, default cache directory; --evil-json. Each case = one run of the built "
            "minidump-stackwalk binary plus the library in-process on the same bytes and options. quick: full option matrix on "
            "test.dmp, reduced matrix on every other input, io-error and conflict families, mutated dumps, the io-fault matrix "
            "(12 accepted option sets x every sink x every fault x 3 report sizes), symbol server, local debuginfo, "
            "verbose x log-file; non-trivial = exit 0 "
            "with a non-empty primary output equal to an in-process rendering; distinct = distinct case lines")
    trusted_base = [
        "Coq 8.16.1 kernel (vm_compute only in the non-vacuity Examples and the refutation witness)",
        "model C20/Model.v written by hand from minidump-stackwalk/src/main.rs (ArgGroup, mode munging, option overrides, writer "
        "selection, effect order, exit status); tied to the binary by the correspondence run",
        "extraction ExtrOcamlBasic only; ocaml/c20/main.ml; harness/src/bin/c20.rs (spawns the binary, calls the public printers; "
        "its print_minidump_dump is a copy of main.rs's call sequence)",
        "C20/Clap.v: hand-written model of clap 4.5's parser for a flat derive command without short options (token order, --, "
        "--name=value, exact names, once-only flags and options, value parsers String / PathBuf / u64 / possible values with "
        "ignore_case, help and version ending the parse where they stand, group conflict and required positional afterwards) and of "
        "tracing_core::LevelFilter::from_str; interpreted over the table translate/c20_cli.py regenerates from struct Cli; tied to the "
        "binary by ~300 raw argument vectors per run",
        "translate/c20_cli.py (regexes over `#[derive(Parser)] struct Cli`: every field, its #[arg(..)] keys - aborts on an unknown key, "
        "a short option, an alias, a new field type, a second parser - the ArgGroup, the defaults, the --features match arms, "
        "`let cli = Cli::parse();` as the first statement of main_result)",
        "translate/c20_dump_sequence.py (regexes over print_minidump_dump: seven statement shapes, everything else must be the known "
        "scaffolding; the harness's copy of the call sequence is compared textually); C20/DumpModel.v's reading of Option::take / or_else "
        "and of `?`; the harness's dump_parts (the library's printers called one by one with the arguments main.rs passes)",
        "std::process::exit, tokio main, tracing-subscriber, what clap prints for help / version / usage errors: exercised, not modelled",
        "translate/c20_wiring.py (regexes over main_result: the three File::create sites and the absence of any other file API, every "
        "occurrence of symbols_paths / symbols_cache / symbols_tmp / timeout / cli.symbols_url / options); std's documentation that "
        "File::create = write + create + truncate; Sinks.v's write-at-cursor semantics of a regular file",
    ]
    assumptions = [
        "partial: what the printers write, process exit, the panic hook, colouring and the interactive "
        "progress display are runtime behaviour exercised by the run, not covered by the theorems; clap's parser is modelled for "
        "UTF-8 argument vectors (no short options, no abbreviations, no environment variables, no response files)",
        "--use-local-debuginfo: DebugInfoSymbolProvider cannot be built in the harness; on x86-64 / arm64 dumps the report is checked "
        "for status, presence and --output-file = stdout only (exact equality on every other CPU, where the flag is a no-op)",
        "--symbols-url is exercised against the harness's loopback server only (200 / 404 / garbage / a slow answer against the default and "
        "a 1 s download timeout); log-file writes are not modelled",
        "--dump: what each printer writes for its stream is the library's business (C01); the model decides which printers run, in which "
        "order, on which stream; get_stream / get_raw_stream are taken to be pure lookups",
        "the environment of the model is abstract: results of File::create, read_path, processing and of each printer call",
        "the file-system theorems speak about regular files whose three paths are pairwise distinct and that nobody else writes during "
        "the run; what the logger writes into the --log-file is not modelled (compared with the log of the same command on a fresh path)",
        "the manual does not say whether a --symbols-path value given behind a positional symbol path is searched first: the oracle "
        "accepts both orders there, the model pins the code's (all --symbols-path values, then all positionals)",
    ]
    manifest = {
        "text": "partial: the decision logic of main() is modelled and proved, the real binary is exercised. Theorems (Coq, every "
                "flag record and every environment): the decision function is total (c20_total); each accepted combination yields "
                "exactly the documented renderer on the documented writer, cyborg = human on the primary output + JSON in the "
                "cyborg file, default = human (c20_plan_table, c20_single_primary, c20_features_table); the rejected combinations "
                "are exactly group conflicts, --pretty without JSON and --brief with JSON only, and a rejected run renders nothing "
                "(c20_rejections, c20_rejected_no_report); exit status is 0, 1 or 2 and nothing else, 0 iff every planned report "
                "was written or a pipe broke, 1 with a diagnostic and no report for read/processing errors, io errors give 1 "
                "(c20_exit_status, c20_success_iff, c20_failure_no_report, c20_failure_has_diag, c20_failure_diag_visible, "
                "c20_io_error_status, c20_zero_means_done_or_pipe; known: --verbose=off silences the fatal diagnostic, F-C20b); io "
                "faults sink by sink: a failing run in which no printer call failed renders nothing anywhere "
                "(c20_failure_no_partial_report_partial), bytes on the primary output of a failing run arise only from an io error "
                "after report bytes were streamed (c20_dirty_primary_only_midreport; the unconditional claim is refuted with two "
                "witnesses, c20_failure_no_partial_report_refuted = known finding F-C20d); the call sequence of --dump is regenerated "
                "from main.rs, pinned (c20_dump_sequence_pinned) and compared textually with the harness's copy; the file sinks as a state "
                "machine over the file system the run FOUND (open = create-or-truncate, write at the cursor): after a successful run the "
                "output file is exactly the primary report and the --cyborg file exactly the JSON rendering whatever the paths held "
                "before (c20_output_file_is_report_whatever_before, c20_cyborg_file_is_json_whatever_before, "
                "c20_sink_content_independent_of_prestate; a path that is not opened keeps its content, c20_unopened_path_untouched; "
                "without the truncation the old tail survives, c20_truncate_needed), all three sinks are opened by File::create "
                "(c20_every_sink_truncates, c20_wiring_pinned: regenerated from main.rs); argv -> symbol supplier: every --symbols-path "
                "value then every positional path, each in command-line order, the URLs in command-line order, nothing dropped or "
                "reordered, first path that has the module wins, HTTP supplier iff a URL is given, cache/tmp/timeout and their defaults "
                "(c20_symbol_paths_in_given_order, c20_same_style_order_preserved, c20_first_given_path_wins, c20_supplier_kind); "
                "from the ARGUMENT VECTOR to main(): a model of clap's parser over the grammar table regenerated from struct Cli "
                "(Gen/C20Cli.v) - for every argument vector and environment the run is a usage error (status 2, one message, no sink "
                "opened, no report byte), help / version (status 0, nothing opened, not even the --log-file) or main()'s run on the "
                "parsed flag record (c20_argv_outcomes); every value the regenerated --features parser lets through has an arm in the "
                "regenerated match, so unimplemented!() is unreachable, and LevelFilter::from_str(..).unwrap() never fails "
                "(c20_features_value_never_unimplemented, c20_verbose_value_never_unwraps; with ignore_case the statement no longer "
                "holds: c20_ignore_case_reaches_default_arm); never by panic from any argument vector (c20_argv_never_panics, unconditional since the fix of F-C20e); parsed values went through their value parser, a flag / single-valued option "
                "given twice is a usage error (c20_parsed_values_validated, c20_single_options_at_most_once); the manual's item-by-item "
                "reading of a command line (--flag, --name=value, --name value, positional word; any order and mix of forms) is exactly "
                "what the tokenizer computes (c20_manual_reading_is_parsed, c20_eq_form_same_as_space_form, "
                "c20_after_dashdash_positional) and main() runs on exactly the flag record of that reading (c20_argv_to_flags), the symbol "
                "paths / URLs reach the supplier in command-line order (c20_symbol_arguments_in_order, c20_argv_symbol_sources); help / version take effect where they stand; an unknown option, a repeated flag / "
                "single-valued option, a refused value and EVERY near-miss spelling of a --features value are usage errors where they "
                "stand (c20_help_where_it_stands, c20_unknown_option_rejected, c20_repeated_option_rejected, c20_invalid_value_rejected, "
                "c20_features_near_miss_rejected); at most one diagnostic per run, the logger's fatal line has exactly three causes "
                "(c20_at_most_one_diagnostic, c20_logger_diagnostic_cause; the log file / stderr content is compared with the line built "
                "from the library's error in-process); the order of 19 landmarks of main_result and every process::exit argument are "
                "regenerated and pinned (c20_main_steps_pinned); every sink is opened "
                "before the first report byte in every mode, so an uncreatable --log-file / --cyborg / --output-file path means no "
                "report byte anywhere (c20_sinks_opened_before_first_report_byte, c20_uncreatable_sink_no_report; the translator pins "
                "that no File::create follows a printer call); the --dump mode: print_minidump_dump is regenerated from main.rs as a program "
                "of 31 statements (Gen/C20DumpProg.v; every statement of the body must be one of seven shapes) and interpreted in Gallina over "
                "what get_stream / get_raw_stream answer per stream kind - for every such view the printers that run are exactly the documented "
                "table, each readable stream of the 16 typed and 8 raw kinds exactly once, nothing else, the memory64 branch is dead code, and "
                "an io error in any printer call leaves whole sections and the beginning of the next, a prefix of the complete dump "
                "(c20_dump_sections_table, c20_dump_each_stream_once, c20_dump_only_documented_sections, c20_dump_memory64_branch_dead, "
                "c20_dump_io_error_leaves_prefix; with main()'s effects and the output file over any file system: c20_dump_run_end_to_end); "
                "the two known findings as EXACT classes: a failing run is silent iff --verbose=off and it ends in one of the three error! "
                "tails (c20_silent_failure_exactly_known_b), a failing run leaves report bytes on the primary output iff the first failing "
                "printer call is an io error after a streamed prefix or after the complete primary report (c20_dirty_failure_exactly_known_d, "
                "c20_known_d_reading, c20_known_d_status) - the check accepts a violation as known only if this classifier, run by the extracted "
                "model on the case, says so; from the argument vector to the HTTP symbol supplier incl. --symbols-cache / --symbols-tmp / "
                "--symbols-download-timeout-secs and their defaults (c20_argv_http_arguments, c20_argv_supplier, c20_tokens_to_supplier). The built minidump-stackwalk binary is run over the option matrix x inputs "
                "(testdata, synthesized, mutated, truncated, missing, empty, directory) and compared byte for byte with the "
                "library called in-process (print / print_brief / print_json / the dump printers) and with the model's "
                "prediction; every --dump report is cut into the texts of the library's individual printers (each called on its own "
                "in-process) and the sequence compared with the model's for the lookups observed; an independent oracle re-checks the "
                "property on exit status, stdout, stderr and the files.",
        "note": "partial: process exit, the panic hook, terminal colouring, the progress display and the TEXT clap prints are runtime "
                "behaviour — exercised on the real binary, not proved; clap's parser is a hand-written model (C20/Clap.v) over the regenerated "
                "option table, compared with the binary on ~300 raw argument vectors per run. Trusted: Coq kernel; hand-written model of main.rs "
                "(correspondence-checked); extraction + OCaml/Rust glue; translate/c20_dump_sequence.py (regexes tying the harness's copy of "
                "print_minidump_dump to main.rs), translate/c20_wiring.py (regexes pinning the File::create sites, the flow of the symbol "
                "path / URL / cache arguments and the options overrides; aborts on an OpenOptions, a sort, a new override, a File::create behind a printer call), translate/c20_cli.py (struct Cli -> option table; aborts on an unknown #[arg] key). --use-local-debuginfo on x86-64/arm64 dumps is checked for status and presence only. No axioms.",
    }

    # ------------------------------------------------------------------ the tool binary
    _built = {}

    @property
    def profiles(self):
        return ("debug", "release") if thorough_requested() else ("debug",)

    def build_tool(self, profile):
        if profile in self._built:
            return self._built[profile]
        env = dict(vlib.ENV)
        env.pop("RUSTFLAGS", None)           # the tool is built as a user would build it (no verification cfg)
        env["CARGO_TARGET_DIR"] = TOOL_TARGET
        cmd = ["cargo", "build", "--offline", "--quiet", "-p", "minidump-stackwalk"] + (["--release"] if profile == "release" else [])
        with vlib.FLock("stackwalk-build"):
            rc, out, dt = vlib.sh(cmd, cwd=vlib.REPO, timeout=3000, env=env)
        if rc != 0:
            raise vlib.CheckFailure("cargo build of minidump-stackwalk (%s) failed:\n%s" % (profile, out[-4000:]))
        exe = os.path.join(TOOL_TARGET, profile, "minidump-stackwalk")
        log("[C20] minidump-stackwalk (%s) built in %.0fs" % (profile, dt))
        self._built[profile] = exe
        return exe

    def setup(self):
        self.build_tool("debug")
        self.build_tool("release")

    def impl_cmd(self, exe, profile):
        return [exe, self.build_tool(profile), vlib.REPO]

    def help_enums(self):
        """{option: [values]} read from the `[possible values: ..]` lines of the built tool's own --help: the documentation of
        the command line under test, so that an enumerated option (or value) added to it is exercised too"""
        import re
        import subprocess
        try:
            out = subprocess.run([self.build_tool("debug"), "--help"], stdout=subprocess.PIPE, stderr=subprocess.DEVNULL, timeout=120,
                                 cwd="/tmp").stdout.decode("utf-8", "replace")
        except Exception as e:      # the run itself reports a tool that cannot even print its help
            log("[C20] --help of the tool could not be read (%s); using the values of the manual" % e)
            return {}
        enums, cur = {}, None
        for line in out.splitlines():
            m = re.match(r"\s+(?:-\w, )?--([\w-]+)(?: <[^>]*>)?(?:\.\.\.)?\s*$", line)
            if m:
                cur = m.group(1)
                continue
            m = re.match(r"\s+\[possible values: (.*)\]\s*$", line)
            if m and cur:
                enums[cur] = [v.strip() for v in m.group(1).split(",") if v.strip()]
        return enums

    # ------------------------------------------------------------------ cases
    def gen_cases(self, tier, seed):
        rng = Rng(seed)
        cases = []
        dist = {}

        def add(fam, line):
            cases.append(line)
            dist[fam] = dist.get(fam, 0) + 1

        thorough = tier != "quick"
        # A. the full option matrix on one dump whose report depends on every option (symbols with argument lists)
        for modes in MODES:
            for brief in (0, 1):
                for pretty in (0, 1):
                    for feat in (0, 1, 2):
                        for out in ("-", "g"):
                            for sym in ("n", "p", "s", "a"):
                                add("matrix_test_dmp", mk("F:test.dmp", sym, modes, brief, pretty, feat, 0, out))
        # B. every other input x modes x brief x pretty; the remaining options drawn
        inputs = ["F:" + f for f in GOOD_FILES[1:] + BAD_FILES] + ["S:%d" % k for k in range(NSYNTH)] + \
                 ["X:missing", "X:empty", "X:dir", "X:text", "T:test.dmp:31", "T:test.dmp:32", "T:test.dmp:300",
                  "T:test.dmp:6000", "T:linux-mini.dmp:20000"]
        for inp in inputs:
            for modes in MODES:
                for brief in (0, 1):
                    for pretty in (0, 1):
                        if inp.endswith("macos-segv.dmp") and rng.chance(1, 2) and not thorough:
                            continue
                        add("matrix_other_inputs", mk(inp, rng.choice(["n", "p", "s"]), modes, brief, pretty,
                                                      rng.choice([0, 1, 2, 9]), 0, rng.choice(["-", "g"])))
        # C. conflicting output formats (clap's group), with and without tweaks
        for modes in CONFLICTS:
            for inp in ("F:test.dmp", "X:missing"):
                add("conflicts", mk(inp, "n", modes, rng.below(2), rng.below(2), 9, 0, rng.choice(["-", "g"])))
        # D. io errors: unwritable output / cyborg files, full device, closed pipe
        for modes in MODES:
            for out, cy, so in (("b", "g", "o"), ("u", "g", "o"), ("-", "g", "u"), ("-", "g", "p"), ("g", "b", "o"), ("g", "u", "o"),
                                ("b", "b", "o")):
                if cy != "g" and modes != "c":
                    continue
                for inp in ("F:test.dmp", "S:0", "F:invalid-range.dmp"):
                    add("io_errors", mk(inp, "n", modes, 0, 1 if modes in "jc" and rng.chance(1, 2) else 0, 9, 0, out, cy, "-", "e", so))
        # E. explicit --recover-function-args, help
        for modes in ("-", "h", "j", "c"):
            for feat in (9, 0, 2):
                for brief in (0, 1):
                    if brief and modes == "j":
                        continue
                    add("recover_args", mk("F:test.dmp", "a", modes, brief, 0, feat, 1, rng.choice(["-", "g"])))
        add("help_markdown", mk("F:test.dmp", "n", "m"))
        add("help_markdown", mk("X:missing", "n", "m", 0, 1))
        # F-C20e: the manual on a standard output that cannot take it (was: expect() => panic, status 101)
        for so in ("u", "p", "p1000"):
            add("help_markdown", mk("F:test.dmp", "n", "m", stdout=so))
        add("help_markdown", mk("X:missing", "n", "m", log_="g", stdout="u"))
        # F. mutated dumps
        nmut = 200 if not thorough else 2500
        for i in range(nmut):
            if rng.chance(1, 3):
                inp = "MS:%d:%d:%d" % (rng.below(NSYNTH), rng.below(1 << 30), rng.choice([1, 1, 2, 4, 8]))
            else:
                name = rng.choice(["test.dmp", "test.dmp", "linux-mini.dmp", "simple-crashpad.dmp", "invalid-parameter.dmp"])
                inp = "M:%s:%d:%d" % (name, rng.below(1 << 30), rng.choice([1, 1, 2, 4, 8, 32]))
            for _ in range(3):
                modes = rng.choice(MODES)
                brief = rng.below(2) if modes != "j" else 0
                pretty = rng.below(2) if modes in "jc" else 0
                add("mutated", mk(inp, rng.choice(["n", "p"]), modes, brief, pretty, rng.choice([0, 2, 9]), 0, rng.choice(["-", "g"])))
        # H. io faults as a systematic dimension: every accepted option set x every sink x every kind of fault,
        #    on reports below and above the usual buffer sizes (tiny synth dump, test.dmp, the big sample with symbols)
        for inp, sym in (("S:0", "n"), ("F:test.dmp", "p"), ("F:pipeline-inlines-macos-segv.dmp", "p")):
            for modes, brief, pretty in ACCEPTED:
                def io(fam="io_matrix", **kw):
                    add(fam, mk(inp, sym, modes, brief, pretty, 9, 0, **kw))
                for so in ("u", "p", "p1000"):
                    io(stdout=so)
                for out in ("u", "b", "d", "r", "f100", "f20000"):
                    io(out=out)
                for lim in (100, 9000):
                    io(out="g", lim=lim)
                for lg in ("u", "b", "d", "r"):
                    io(log_=lg)
                if modes == "c":
                    for cy in ("u", "b", "d", "r"):
                        io(cy=cy, out=rng.choice(["-", "g"]))
                    for lim in (100, 9000):
                        io(lim=lim)
        # I. --symbols-url on the loopback server (200 / 404 / garbage), usable and unusable cache / tmp directories
        for inp in ("F:test.dmp", "S:4"):
            for sym in ("U2", "U4", "Ug", "U2c", "U2t", "U4c", "Ugt"):
                for modes in ("-", "j", "c"):
                    add("symbols_url", mk(inp, sym, modes, rng.below(2) if modes != "j" else 0, rng.below(2) if modes != "-" else 0,
                                          rng.choice([0, 2, 9]), 0, rng.choice(["-", "g"])))
        # --symbols-download-timeout-secs reaches the HTTP client: a download the default (1000 s) waits for (the server answers after
        # 1.5 s: the symbols must be there, as in the library called with that timeout), and one that `1` gives up on (the server
        # answers after 8 s: the report is the library's for the same timeout)
        for sym in ("U2s", "U2w"):
            for modes, brief in (("-", 1), ("j", 0)):
                add("symbols_url", mk("F:test.dmp", sym, modes, brief, 0, 9, 0, rng.choice(["-", "g"])))
        # J. --use-local-debuginfo on x86 / amd64 / arm64 dumps, with and without a system info stream
        for inp in ("F:test.dmp", "F:linux-mini.dmp", "F:simple-crashpad.dmp", "S:0", "S:1", "S:5", "S:6", "X:missing"):
            for modes in ("-", "j", "D", "c"):
                for sym in ("n", "p"):
                    add("local_debuginfo", mk(inp, sym, modes, 0, 0, 9, 0, rng.choice(["-", "g"]), ldi=1))
        # K. --verbose levels with and without --log-file, on succeeding and failing runs
        for verbose in ("off", "error", "warn", "info", "debug", "trace"):
            for lg in ("-", "g"):
                for inp in ("F:test.dmp", "F:invalid-range.dmp", "X:missing"):
                    for modes, pretty in (("-", 0), ("j", 0), ("h", 1)):
                        add("verbose_log", mk(inp, "n", modes, 0, pretty, 9, 0, "-", "g", lg, verbose))
        # L. the state of the sink paths BEFORE the run (absent is every other family): empty / shorter / longer / same length /
        #    symlink to a longer file / dangling symlink / symlink loop, for every sink and every accepted option set; the
        #    content after the run must be the library's rendering whatever the path held
        for modes, brief, pretty in ACCEPTED:
            for pre in ("xe", "xs", "xl", "xq", "xk", "xK", "xL"):
                add("prestate", mk("F:test.dmp", rng.choice(["n", "p"]), modes, brief, pretty, 9, 0, pre))
                if modes == "c":
                    add("prestate", mk("F:test.dmp", "n", modes, brief, pretty, 9, 0, rng.choice(["-", "g"]), pre))
            if thorough or rng.chance(1, 2):
                add("prestate", mk("S:0", "n", modes, brief, pretty, 9, 0, "xl", "xl" if modes == "c" else "-", "xl"))
        for pre in ("xe", "xs", "xl", "xk", "xK", "xL"):
            for inp, modes in (("F:test.dmp", "-"), ("S:4", "j"), ("X:missing", "-"), ("F:invalid-range.dmp", "j"), ("S:2", "c")):
                add("prestate", mk(inp, "n", modes, 0, 0, 9, 0, "-", "g", pre, rng.choice(["e", "warn", "info"])))
        # failing runs over existing files: the file is left alone (read error) or emptied (processing error), never half-written
        for inp in ("X:missing", "F:invalid-range.dmp", "S:2", "S:1", "X:text"):
            for modes, brief, pretty in (("-", 0, 0), ("j", 0, 1), ("c", 1, 0), ("D", 0, 0)):
                add("prestate", mk(inp, "n", modes, brief, pretty, 9, 0, rng.choice(["xl", "xs", "xk"]), rng.choice(["xl", "xs"]) if modes == "c" else "-"))
        # run SEQUENCES on one path: a previous run of the tool with another option set wrote the file
        for inp, sym in (("F:test.dmp", "p"), ("S:4", "n")):
            for prev, modes, brief, pretty in (("qj", "h", 0, 0), ("qj", "-", 1, 0), ("qJ", "j", 0, 0), ("qD", "D", 1, 0), ("qD", "-", 0, 0),
                                               ("qh", "h", 1, 0), ("qJ", "-", 0, 0), ("qDj", "h", 1, 0), ("qd", "D", 0, 0), ("qb", "j", 0, 1),
                                               ("qDJ", "c", 1, 0)):
                add("sequences", mk(inp, sym, modes, brief, pretty, 9, 0, prev))
            for prev, brief, pretty in (("qC", 0, 0), ("qC", 1, 0), ("qc", 0, 1), ("qCc", 0, 0)):
                add("sequences", mk(inp, sym, "c", brief, pretty, 9, 0, rng.choice(["-", "g", "qj"]), prev))
            for prev, verbose in (("qT", "e"), ("qT", "warn"), ("qE", "e"), ("qTE", "info")):
                add("sequences", mk(inp, sym, rng.choice(["-", "j"]), 0, 0, 9, 0, "-", "g", prev, verbose))
        for prev, verbose in (("qT", "e"), ("qT", "error"), ("qE", "e")):
            add("sequences", mk("X:missing", "n", "-", 0, 0, 9, 0, "-", "g", prev, verbose))
            add("sequences", mk("S:2", "n", "j", 0, 0, 9, 0, "-", "g", prev, verbose))
        # M. from argv to the symbol supplier: 2-3 symbol roots that describe the SAME module differently, in sorted and unsorted
        #    order, duplicated, with roots that lack the module, as positionals / --symbols-path values in front of and behind
        #    the minidump / mixed; several --symbols-url values; URLs together with paths; default cache directory
        orders = ["za", "az", "zm", "mz", "ma", "am", "zma", "zam", "mza", "maz", "azm", "amz", "zaz", "aza", "zza", "mmaz",
                  "xza", "ezm", "fza", "zf", "fa", "af", "oz", "zo", "ga", "zg", "ex", "xeza"]
        for o in orders:
            for style in ("pos", "flags", "flags_behind", "flag_pos", "pos_flag", "interleaved"):
                if style == "pos":
                    spec = "." + o
                elif style == "flags":
                    spec = o.upper() + "."
                elif style == "flags_behind":
                    spec = "." + o.upper()
                elif style == "flag_pos":
                    spec = o[0].upper() + "." + o[1:]
                elif style == "pos_flag":
                    spec = "." + o[0] + o[1:].upper()
                else:
                    if len(o) < 3:
                        continue
                    spec = o[0].upper() + "." + o[1] + o[2:].upper()      # flag, minidump, positional, flags
                if not thorough and style in ("flags_behind", "interleaved") and rng.chance(1, 2):
                    continue
                modes, brief, pretty = rng.choice([("-", 1, 0), ("-", 0, 0), ("j", 0, 0), ("c", 1, 1), ("h", 1, 0), ("j", 0, 1)])
                add("symbol_order", mk("F:test.dmp", "M" + spec, modes, brief, pretty, rng.choice([9, 9, 2]), 0, rng.choice(["-", "-", "g"])))
        add("symbol_order", mk("F:test.dmp", "M.za", "D", 0, 0, 9, 0))
        add("symbol_order", mk("F:linux-mini.dmp", "M.za", "-", 0, 0, 9, 0))
        for spec in ("24.", "42.", "28.", "82.", "62.", "26.", "48.", "84.", "2.8", "8.2", "Z8.", "8.z", "4.za", "4.az", "A2.z", "2.e", "86."):
            for modes, brief, pretty in (("-", 1, 0), ("j", 0, 0)) if not thorough else (("-", 1, 0), ("j", 0, 0), ("c", 0, 1), ("h", 0, 0)):
                add("symbol_urls", mk("F:test.dmp", "M" + spec, modes, brief, pretty, 9, 0, rng.choice(["-", "g"])))
        for modes in ("-", "j", "c"):
            add("symbol_urls", mk("F:test.dmp", "U2d", modes, 0, 0, 9, 0))
        # Q. --dump stream by stream: synthesized dumps in which each of the stream kinds print_minidump_dump has a printer for is
        #    absent / present / present but unreadable (drawn); the tool's output is cut into the texts of the library's individual
        #    printers and the sequence compared with the model of print_minidump_dump (regenerated from main.rs)
        for k in range(60 if not thorough else 600):
            seed_k = rng.below(1 << 30)
            add("dump_streams", mk("DS:%d" % seed_k, "n", "D", k % 2, 0, 9, 0, rng.choice(["-", "-", "g"])))
        for k in range(6 if not thorough else 40):
            add("dump_streams", mk("DS:%d" % rng.below(1 << 30), "n", "D", rng.below(2), 0, 9, 0, "g", lim=rng.choice([100, 700, 3000])))
            add("dump_streams", mk("DS:%d" % rng.below(1 << 30), "n", "D", rng.below(2), 0, 9, 0, stdout=rng.choice(["u", "p", "p300"])))
        # N. --evil-json reaches ProcessorOptions::evil_json
        for modes, pretty in (("j", 0), ("j", 1), ("c", 0), ("-", 0)):
            for inp in ("F:test.dmp", "F:linux-mini.dmp"):
                add("evil_json", mk(inp, "p", modes, 0, pretty, 9, 0, rng.choice(["-", "g"]), evil=1))
        # O. the argument vector itself: near-miss spellings of every enumerated option value, repeated options, `=`-joined
        #    and space-separated forms, options behind the minidump and behind `--`, unknown / abbreviated / wrongly cased
        #    option names, values for flags, missing values, numbers at the edge of u64, --help / --version among other
        #    arguments.  tag S: the command the fields describe, spelt differently; N: a near miss (must be rejected without
        #    a report, or be taken for that command); R: not a command line of the tool; H: help / version
        def argv_case(fam, tag, toks, inp="F:test.dmp", **kw):
            kw.setdefault("sym", "n")
            sym = kw.pop("sym")
            add(fam, mk(inp, sym, kw.pop("modes", "-"), kw.pop("brief", 0), kw.pop("pretty", 0), kw.pop("feat", 9), kw.pop("rfa", 0),
                        kw.pop("out", "-"), kw.pop("cy", "-"), kw.pop("log_", "-"), kw.pop("verbose", "e"), argv=enc_argv(tag, toks), **kw))

        shapes = [dict(modes="-"), dict(modes="j", out="g"), dict(modes="c", brief=1, out="g"), dict(modes="D", brief=1),
                  dict(modes="j", pretty=1, log_="g"), dict(modes="h", sym="p")]
        for fi, value in enumerate(FEATURE_VALUES):
            for k, bad in enumerate(near_misses(value)):
                for eq in (False, True):
                    if not thorough and (k + fi + eq) % 2 and k > 4:
                        continue
                    shp = dict(shapes[(k + fi + eq) % len(shapes)])
                    toks = base_argv(feat=fi, eq=eq, **shp)
                    i = toks.index("--features=" + value) if eq else toks.index("--features") + 1
                    toks[i] = ("--features=" + bad) if eq else bad
                    argv_case("argv_near_miss_values", "N", toks, rng.choice(["F:test.dmp", "F:test.dmp", "S:0", "X:missing"]), feat=fi, **shp)
        for vi, value in enumerate(VERBOSE_VALUES):
            for k, bad in enumerate(near_misses(value) + [str(vi), ""]):
                if not thorough and (k + vi) % 3 and k > 2:
                    continue
                eq = (k + vi) % 2 == 0
                shp = dict(shapes[(k + vi) % len(shapes)])
                if shp.get("log_") != "g" and (k % 2):
                    shp["log_"] = "g"
                toks = base_argv(verbose=value, eq=eq, **shp)
                i = toks.index("--verbose=" + value) if eq else toks.index("--verbose") + 1
                toks[i] = ("--verbose=" + bad) if eq else bad
                argv_case("argv_near_miss_values", "N", toks, rng.choice(["F:test.dmp", "S:0", "F:invalid-range.dmp"]), verbose=value, **shp)
        # every enumerated option of the tool's OWN --help: a value (or an option) the manual this check was written from does
        # not know is still a documented value (tag E: must not be refused as a usage error, must not end by panic), and its
        # near misses are near misses
        for optname, values in sorted(self.help_enums().items()):
            known = {"features": FEATURE_VALUES, "verbose": VERBOSE_VALUES}.get(optname, [])
            for value in values:
                if value in known:
                    continue
                for eq in (False, True):
                    argv_case("argv_enum_values", "E", (["--%s=%s" % (optname, value)] if eq else ["--" + optname, value]) + ["@D"])
                    argv_case("argv_enum_values", "E", ["--json", "@D"] + (["--%s=%s" % (optname, value)] if eq else ["--" + optname, value]),
                              modes="j")
                for bad in near_misses(value)[:6]:
                    argv_case("argv_enum_values", "R", ["--%s=%s" % (optname, bad), "@D"])
            for value in known:
                if value not in values:       # the manual's value is gone from the tool's help
                    argv_case("argv_enum_values", "S", ["--%s=%s" % (optname, value), "@D"],
                              **({"feat": FEATURE_VALUES.index(value)} if optname == "features" else {"verbose": value}))
        # every flag and every single-valued option given twice (same value, two values); repeatable options twice
        for flag, kw in (("--json", dict(modes="j")), ("--human", dict(modes="h")), ("--dump", dict(modes="D")), ("--brief", dict(brief=1)),
                         ("--pretty", dict(modes="j", pretty=1)), ("--recover-function-args", dict(rfa=1, sym="p")),
                         ("--no-color", {}), ("--no-interactive", {}), ("--use-local-debuginfo", {})):
            for where in ("adjacent", "apart"):
                toks = base_argv(**kw)
                if flag not in toks:
                    toks.insert(0, flag)
                if where == "adjacent":
                    toks.insert(toks.index(flag), flag)
                else:
                    toks.append(flag)
                argv_case("argv_repeats", "N", toks, out=rng.choice(["-", "-"]), **kw)
        for name, v1, v2, kw in (("--features", "stable-all", "unstable-all", dict(feat=2, sym="p")), ("--features", "unstable-all", "unstable-all", dict(feat=2)),
                                 ("--verbose", "error", "trace", dict(verbose="trace")), ("--output-file", "@O.first", "@O", dict(out="g", modes="j")),
                                 ("--log-file", "@L.first", "@L", dict(log_="g")), ("--cyborg", "@C.first", "@C", dict(modes="c")),
                                 ("--cyborg", "@C", "@C", dict(modes="c", out="g")),
                                 ("--symbols-download-timeout-secs", "5", "6", {}), ("--symbols-cache", "@O.d1", "@O.d2", {}),
                                 ("--symbols-tmp", "@O.d1", "@O.d2", {}), ("--evil-json", "@S/../evil.json", "@S/../evil.json", dict(evil=1))):
            for form in (0, 1, 2):
                toks = [t for t in base_argv(**{k: v for k, v in kw.items() if k != "evil"}) if True]
                # drop the single occurrence base_argv wrote, then put two in front
                cleaned, skip = [], False
                for t in toks:
                    if skip:
                        skip = False
                        continue
                    if t == name:
                        skip = True
                        continue
                    cleaned.append(t)
                two = ([name, v1, name, v2], [name + "=" + v1, name + "=" + v2], [name, v1] + cleaned[:-1] + [name + "=" + v2])[form]
                toks = (two + cleaned) if form < 2 else (two + cleaned[-1:])
                if "@S" in toks and kw.get("sym") == "p":
                    toks.remove("@S")
                    toks.append("@S")
                argv_case("argv_repeats", "N", toks, **kw)
        for toks, kw in ((["--symbols-path", "@S", "--symbols-path=@S", "@D"], dict(sym="s")), (["@D", "@S", "@S"], dict(sym="p")),
                         (["--symbols-path", "@S", "@D", "--symbols-path", "@S"], dict(sym="s", modes="j"))):
            argv_case("argv_repeats", "S", ["--json"] + toks if kw.get("modes") == "j" else toks, **kw)
        # the same command, spelt differently: `=` forms, options behind the minidump, `--`
        for modes, brief, pretty in ACCEPTED:
            for feat in (9, 0, 1, 2):
                if not thorough and rng.chance(1, 2):
                    continue
                kw = dict(modes=modes, brief=brief, pretty=pretty, feat=feat, out=rng.choice(["-", "g"]), log_=rng.choice(["-", "-", "g"]),
                          verbose=rng.choice(["e", "warn", "error"]), sym=rng.choice(["n", "p", "s"]))
                toks = base_argv(eq=True, **kw)
                argv_case("argv_forms", "S", toks, **kw)
                toks = base_argv(eq=rng.chance(1, 2), **kw)
                d = toks.index("@D")
                opts, tail = toks[:d], toks[d + 1:]
                style = rng.below(3)
                if style == 0:      # every option behind the minidump (and behind the positional symbol path)
                    argv_case("argv_forms", "S", ["@D"] + tail + opts, **kw)
                elif style == 1:    # `--` in front of the positionals
                    argv_case("argv_forms", "S", opts + ["--", "@D"] + tail, **kw)
                else:               # half in front, half behind; never splitting an option from its value
                    cut = len(opts) // 2
                    if cut and opts[cut - 1].startswith("--") and "=" not in opts[cut - 1] and cut < len(opts) and not opts[cut].startswith("--"):
                        cut += 1
                    argv_case("argv_forms", "S", opts[:cut] + ["@D"] + tail + opts[cut:], **kw)
        for v, tag in (("0", "S"), ("+5", "S"), ("007", "S"), ("18446744073709551615", "S"), ("18446744073709551616", "R"), ("-1", "R"), ("abc", "R"),
                       ("", "R"), ("5 ", "R"), ("1e3", "R"), ("0x10", "R"), ("99999999999999999999999999999999999999", "R")):
            for eq in (False, True):
                toks = ["--symbols-download-timeout-secs=" + v] if eq else ["--symbols-download-timeout-secs", v]
                argv_case("argv_numbers", tag, toks + ["@D"])
        # not a command line of the tool
        for toks in (["--feature", "stable-all", "@D"], ["--feat=stable-all", "@D"], ["--JSON", "@D"], ["--Json", "@D"], ["--jso", "@D"], ["--j", "@D"],
                     ["-j", "@D"], ["-x", "@D"], ["@D", "-x"], ["--json=true", "@D"], ["--pretty=false", "--json", "@D"], ["--brief=", "@D"],
                     ["@D", "--features"], ["@D", "--output-file"], ["--output-file", "--json", "@D"], ["--output-file", "--", "@D"],
                     ["--cyborg", "@D"], ["--cyborg", "--brief", "@D"], [], ["--"], [""], ["--json"], ["--json", "--"], ["--output-file=", "@D"],
                     ["--cyborg=", "@D"], ["--log-file", "", "@D"], ["@D", ""], ["--symbols-path=", "@D"], ["--verbose", "@D"], ["--features", "@D"],
                     ["--bogus", "--help"], ["--features", "Bogus", "--help"], ["--help=foo"], ["--version=1"], ["--json", "--json", "--help"],
                     ["--=x", "@D"], ["---json", "@D"], ["--json ", "@D"], ["--human", "--cyborg", "@C", "@D"], ["--help-markdown"],
                     ["--help-markdown", "--json", "@D"], ["--output_file", "@O", "@D"], ["--outputfile=@O", "@D"], ["-o", "@O", "@D"]):
            argv_case("argv_invalid", "R", toks, out="g" if any("@O" in t for t in toks) else "-", modes="c" if any("@C" in t for t in toks) else "-")
        # help / version: status 0, text on standard output, no sink is opened (clap ends the process inside Cli::parse())
        for toks in (["--help"], ["-h"], ["--version"], ["-V"], ["-hV"], ["-Vh"], ["-hx"], ["-h=foo"], ["-V=1"], ["-h-"], ["--help", "--bogus"], ["-h", "--bogus"],
                     ["--json", "--human", "--help"], ["--features", "stable-all", "--help"], ["@D", "--help"], ["@D", "@S", "-V"],
                     ["--log-file", "@L", "--json", "--output-file=@O", "--help", "@D"], ["--cyborg", "@C", "--log-file=@L", "@D", "--version"],
                     ["--output-file", "@O", "-h"], ["--help-markdown", "@D", "--help"], ["--verbose=trace", "--log-file", "@L", "--version", "@D"]):
            for pre in ("g", "xl"):
                has = lambda ph: any(ph in t for t in toks)
                if pre == "xl" and not (has("@O") or has("@L") or has("@C")):
                    continue
                argv_case("argv_help", "H", toks, out=pre if has("@O") else "-", log_=pre if has("@L") else "-",
                          modes="c" if has("@C") else "-", cy=pre if has("@C") else "-")
        # valid but unusual
        for toks, kw in ((["--", "@D"], {}), (["--json", "--", "@D"], dict(modes="j")), (["--json", "--", "@D", "@S"], dict(modes="j", sym="p")),
                         (["--", "--help"], dict(inp="X:missing")), (["--", "--json"], dict(inp="X:missing")), (["-"], dict(inp="X:missing")), (["-", "--json"], dict(inp="X:missing", modes="j")),
                         (["--json", "-"], dict(inp="X:missing", modes="j")),
                         (["@D", "--", "@S"], dict(sym="p")), (["--features=stable-all", "@D", "--", "@S"], dict(sym="p", feat=1))):
            inp = kw.pop("inp", "F:test.dmp")
            argv_case("argv_forms", "S", toks, inp, **kw)
        # P. argument vectors by mutation: an accepted command line with 0-3 random edits (another case for a token, an option
        #    duplicated somewhere, a value dropped or replaced by a near miss / another documented value, an option name replaced
        #    by a near miss, --, --help, -h, -V, --version inserted anywhere, = form <-> space form, an option dropped).  Tag F: the
        #    oracle only knows what holds for EVERY command line (no panic, status 0 / 1 / 2, a failing run writes nothing, a
        #    successful one writes something); the model of the parser predicts the rest and is compared.  No edit moves a path
        #    token, so the minidump is never at the same time a sink
        def fuzz_vector():
            modes, brief, pretty = rng.choice(ACCEPTED)
            kw = dict(modes=modes, brief=brief, pretty=pretty, feat=rng.choice([9, 9, 0, 1, 2]), rfa=rng.below(2) if rng.chance(1, 4) else 0,
                      out=rng.choice(["-", "g"]), log_=rng.choice(["-", "-", "g"]), verbose=rng.choice(["e", "e", "error", "warn", "off", "trace"]))
            toks = base_argv(eq=False, **kw)
            # group into units: [name, value] or [flag]; the minidump stays the last unit
            units, i = [], 0
            while i < len(toks):
                if toks[i].startswith("--") and i + 1 < len(toks) and not toks[i + 1].startswith("--") and toks[i + 1] != "@D":
                    units.append([toks[i], toks[i + 1]])
                    i += 2
                else:
                    units.append([toks[i]])
                    i += 1
            opts, dump = units[:-1], units[-1]
            if rng.chance(1, 3):
                extra = rng.choice([["--no-color"], ["--no-interactive"], ["--symbols-download-timeout-secs", rng.choice(["5", "0", "x", "-3"])],
                                    ["--symbols-cache", "@O.cache"], ["--symbols-tmp", "@O.tmp"]])
                opts.insert(rng.below(len(opts) + 1), extra)
            for _ in range(rng.below(4)):
                kind = rng.below(8)
                if kind == 0 and opts:                                   # another case for one token
                    u = rng.choice(opts)
                    j = rng.below(len(u))
                    if "@" not in u[j]:
                        u[j] = rng.choice([u[j].upper(), u[j].title(), u[j].swapcase()])
                elif kind == 1 and opts:                                 # an option once more, somewhere
                    u = list(rng.choice(opts))
                    opts.insert(rng.below(len(opts) + 1), u)
                elif kind == 2 and opts:                                 # a value dropped
                    u = rng.choice(opts)
                    if len(u) == 2:
                        del u[1]
                elif kind == 3 and opts:                                 # a value replaced
                    u = rng.choice(opts)
                    if len(u) == 2 and "@" not in u[1]:
                        pool = (near_misses(u[1])[:8] if u[1] else []) + FEATURE_VALUES + VERBOSE_VALUES + ["", "-", "--"]
                        u[1] = rng.choice(pool)
                elif kind == 4 and opts:                                 # an option name replaced by a near miss
                    u = rng.choice(opts)
                    n = u[0]
                    # (every replacement still begins with a dash: no edit creates a stray positional word)
                    u[0] = rng.choice([n[:-1], n + "s", "--" + n[2:].replace("-", "_"), "-" + n, n[1:], n.upper(), n[:3]])
                elif kind == 5:                                          # help / version / -- somewhere
                    opts.insert(rng.below(len(opts) + 1), [rng.choice(["--", "--help", "-h", "-V", "--version", "--help-markdown"])])
                elif kind == 6 and opts:                                 # space form -> = form
                    u = rng.choice(opts)
                    if len(u) == 2:
                        u[:] = [u[0] + "=" + u[1]]
                elif kind == 7 and opts:                                 # an option dropped
                    del opts[rng.below(len(opts))]
            behind = rng.chance(1, 4)
            flat = [t for u in opts for t in u]
            cut = rng.below(len(opts) + 1) if behind else len(opts)
            front = [t for u in opts[:cut] for t in u]
            back = [t for u in opts[cut:] for t in u]
            return front + dump + back, kw

        for _ in range(120 if not thorough else 1500):
            toks, kw = fuzz_vector()
            has = lambda ph: any(ph in t for t in toks)
            # (input specs of its own: should an unforeseen vector make the tool write to its input, only this family reads it again)
            argv_case("argv_mutated", "F", toks, rng.choice(["M:test.dmp:1:0", "M:test.dmp:1:0", "MS:0:1:0", "M:invalid-range.dmp:1:0", "X:absent"]),
                      modes="c" if has("@C") else "-", out="g" if has("@O") else "-", log_="g" if has("@L") else "-")
        if thorough:
            # G. logging options, no-op flags, evil json, both symbol path styles at once
            for _ in range(1500):
                inp = rng.choice(inputs + ["F:test.dmp"] * 6)
                modes = rng.choice(MODES + ["hj"])
                add("logging_and_extras", mk(inp, rng.choice(["n", "p", "s", "a", "b", "U2", "U4", "Ug", "U2c", "M.za", "MZ.a", "M.mZa", "M8.z"]), modes, rng.below(2), rng.below(2),
                                             rng.choice([0, 1, 2, 9]), rng.below(2), rng.choice(["-", "g", "g", "b", "d", "r", "u", "f500", "xl", "xs", "xk", "qj", "qD"]),
                                             rng.choice(["g", "g", "b", "d", "u", "xl", "qC"]), rng.choice(["-", "g", "g", "b", "r", "xl"]),
                                             rng.choice(["e", "off", "error", "warn", "info", "debug", "trace"]),
                                             rng.choice(["o", "o", "o", "u", "p"]), 1 if rng.chance(1, 6) else 0, rng.below(4),
                                             rng.choice([0, 0, 0, 64, 3000]), rng.below(2)))
        return cases, dist, False

    # ------------------------------------------------------------------ correspondence is done in extra()
    def canon_model(self, case, ans):
        return None

    def nontrivial(self, case, ans):
        a = parse_answer(ans)
        if a.get("exit") != "0":
            return False
        c = parse_case(case)
        s = parse_sink(a["stdout"] if c["out"] == "-" else a["out"])
        return isinstance(s, tuple) and s[0] > 0 and bool(s[2])

    # ------------------------------------------------------------------ the oracle (independent of the model)
    def oracle(self, case, ans, profile):
        if ans.startswith("P;;"):
            return "harness failure: " + ans[3:300]
        c = parse_case(case)
        a = parse_answer(ans)
        ex, lib = a["exit"], a["lib"]
        stdout, out, cy = parse_sink(a["stdout"]), parse_sink(a["out"]), parse_sink(a["cy"])
        stderr = int(a["stderr"])
        logf = None if a["log"] in ("-", "n/a") else int(a["log"])
        kept = set(a.get("kept", "-").split("+")) - {"-"}
        # a sink that is byte for byte what it was before the run has not been written to
        if "out" in kept and isinstance(out, tuple) and ex != "0":
            out = (0, out[1], set())
        if "cy" in kept and isinstance(cy, tuple) and ex != "0":
            cy = (0, cy[1], set())
        if ex.startswith("sig"):
            return "the tool was killed by signal %s" % ex[4:]
        if ex == "timeout":
            return "the tool did not finish within 60 s"
        if ex == "101":
            return "the tool ended by panic (exit status 101)"
        if ex not in ("0", "1", "2"):
            return "exit status %s (only 0 and 1 are documented)" % ex
        rejected, prim, sec = documented(c)
        outputs = [("standard output", stdout), ("the output file", out), ("the cyborg file", cy)]
        # raw argument vectors: R = not a command line of the tool, N = a near miss of the command the fields describe (an
        # enumerated value in another case / cut short / with a blank, an option given twice): it must fail without a
        # report - or be taken for that command and then do everything that command does; H = help / version
        tag = c["argv"][1] if c.get("argv", "-") != "-" else None
        if tag == "H":
            if ex != "0":
                return "--help / --version ended with status %s" % ex
            if not sink_len(stdout):
                return "--help / --version printed nothing on standard output"
            for nm, x in outputs:
                if isinstance(x, tuple) and x[2] and x[0] and (nm != "standard output"):
                    return "--help / --version wrote a report to %s" % nm
            return None
        if tag == "E":
            # a value the tool's own --help lists for an enumerated option (not 101 / signal: judged above)
            if ex == "2":
                return "a value listed under [possible values: ..] in the tool's --help is refused as a usage error"
            if ex == "0" and not any(sink_len(x) for _n, x in outputs):
                return "status 0 without a report"
            if ex == "1" and stderr == 0:
                return "status 1 without a diagnostic on standard error"
            return None
        if tag == "F":
            # what holds for every command line whatsoever (status 101 / signal / timeout / other codes: judged above)
            if ex == "0":
                return None if any(sink_len(x) for _n, x in outputs) else "status 0 but nothing was written anywhere"
            for nm, x in outputs:
                if sink_len(x):
                    return "status %s but %d bytes on %s" % (ex, sink_len(x), nm)
            return None
        if tag == "R" or (tag == "N" and ex != "0"):
            rejected = True
        if rejected:
            if ex == "0":
                return "a rejected %s exited with status 0" % ("command line" if tag else "option combination")
            for nm, s in outputs:
                if sink_len(s):
                    return "a rejected option combination wrote %d bytes to %s" % (sink_len(s), nm)
            if stderr == 0 and not (logf and (c["log"] == "g" or has_prestate(c["log"]))):
                return "a rejected option combination failed without a diagnostic" + (" (--verbose=off)" if c["verbose"] == "off" else "")
            return None
        if ex == "2":
            return "exit status 2 for an accepted option combination"
        if prim == "HELP":
            if ex == "0" and sink_len(stdout):
                return None
            if c["stdout"][0] == "p" and ex == "0":
                return None          # the reader went away: silent status 0, as for the reports
            if c["stdout"][0] == "u" and ex == "1" and (stderr or logf):
                return None          # the manual cannot be written: status 1 with a diagnostic
            return "--help-markdown did not print the manual"
        if lib == "X":
            return "the library panicked in-process on this input (the tool exited with status %s)" % ex
        primary = stdout if c["out"] == "-" else out
        pname = "standard output" if c["out"] == "-" else "the output file"
        # --use-local-debuginfo on x86-64 / arm64 dumps adds DebugInfoSymbolProvider, which the harness cannot build
        # (feature of minidump-unwind not enabled in the harness crate): the report is then only checked for
        # presence and, across cases, for equality between --output-file and standard output
        ldi_unpredictable = bool(c["ldi"]) and a.get("cpu") in ("amd64", "arm64") and prim not in ("D", "DB")
        if ex == "0":
            gone = (c["stdout"][0] == "p" and c["out"] == "-") or c["out"][0] == "f"
            if gone and lib in (("O", "P") if prim in ("D", "DB") else ("O",)):
                # the reader went away: a silent status 0 is the documented behaviour (main.rs: broken pipe ignored);
                # whatever did get through must be the beginning of the right report
                ok_names = acceptable(c, prim) | {w + "<" for w in acceptable(c, prim)}
                if isinstance(primary, tuple) and primary[0] and not (ok_names & primary[2]) and not ldi_unpredictable:
                    return "%s received %d bytes that are not a prefix of the library's %s rendering" % (pname, primary[0], prim)
                return None
            need = ("O", "P") if prim in ("D", "DB") else ("O",)
            if lib not in need:
                return "status 0 although the library fails on this input (class %s)" % lib
            if primary == "n/a":
                return "status 0 although nothing can be written to %s" % pname
            if primary is None:
                return "status 0 but %s was not created" % pname
            if primary[0] == 0:
                return "status 0 with an empty report on %s" % pname
            if not (acceptable(c, prim) & primary[2]) and not ldi_unpredictable:
                if (prim + ">") in primary[2] or (">" + prim) in primary[2]:
                    return "%s holds the library's %s rendering %s %d bytes that are not part of it (the path held %s bytes before the run)" % (
                        pname, prim, "followed by" if (prim + ">") in primary[2] else "preceded by",
                        primary[0] - exp_sizes(a).get(prim, 0), a.get("pre", "-/-/-").split("/")[0 if c["out"] != "-" else 1])
                return "%s is not the library's %s rendering for these options (equals: %s)" % (
                    pname, prim, "+".join(sorted(primary[2])) or "none of the in-process renderings")
            if c["out"] != "-" and sink_len(stdout):
                return "--output-file given but %d bytes were written to standard output" % sink_len(stdout)
            if sec is not None:
                if cy is None or cy == "n/a":
                    return "status 0 but the --cyborg file was not written"
                if not (acceptable(c, sec) & cy[2]) and not ldi_unpredictable:
                    if (sec + ">") in cy[2] or (">" + sec) in cy[2]:
                        return "the --cyborg file holds the library's %s rendering %s %d bytes that are not part of it (the path held %s bytes before the run)" % (
                            sec, "followed by" if (sec + ">") in cy[2] else "preceded by", cy[0] - exp_sizes(a).get(sec, 0),
                            a.get("pre", "-/-/-").split("/")[1])
                    return "the --cyborg file is not the library's %s rendering (equals: %s)" % (sec, "+".join(sorted(cy[2])) or "none")
            elif cy is not None:
                return "a --cyborg file exists although --cyborg was not given"
            bad = self.dump_streams_oracle(a)
            if bad:
                return bad
            return self.side_effects(c, a)
        # status 1
        if lib == "O" and not io_trouble(c):
            return "status 1 although the library reads, processes and renders this input"
        if lib == "P" and prim in ("D", "DB") and not io_trouble(c):
            return "status 1 for --dump although the library reads this input"
        for nm, s in outputs:
            if sink_len(s):
                if nm == "the cyborg file" and any(sink_len(x) for _n, x in outputs[:2]):
                    continue                   # judged on the primary output below / above
                midreport = ""
                want = sec if nm == "the cyborg file" else prim
                wanted = acceptable(c, want)
                if write_trouble(c) and lib in ("O", "P") and isinstance(s, tuple) and \
                        (ldi_unpredictable or ((wanted | {w + "<" for w in wanted}) & s[2])):
                    # F-C20c: the printers stream; an io error after the first bytes cannot take them back
                    midreport = " (io error after report bytes were streamed)"
                return "status 1 but %d bytes of report on %s%s" % (sink_len(s), nm, midreport)
        if stderr == 0 and not ((c["log"] == "g" or has_prestate(c["log"])) and logf):
            return "status 1 without a diagnostic on standard error" + (" (--verbose=off)" if c["verbose"] == "off" else "")
        return self.side_effects(c, a)

    def dump_streams_oracle(self, a):
        """--dump "dumps the raw contents of the minidump": the report consists of the header and of the text the library's
        printer gives for each stream that can be read - each exactly once, nothing for a stream that is absent, nothing that
        is no printer's text (the one fixed sentence for an unreadable Crashpad stream is the tool's own)"""
        dst, dseq = a.get("dst", "-"), a.get("dseq", "-")
        if dst in ("-", "X") or dseq in ("-", "X"):
            return None
        parts = dseq.split(",")
        if parts[-1].startswith("?"):
            return "--dump: the last %s bytes of the report (after %s) are not the text of any printer of the library" % (parts[-1][1:], ",".join(parts[:-1][-3:]))
        if parts[0] != "H":
            return "--dump: the report does not begin with the header (begins with %s)" % parts[0]
        for tok in dst.split(","):
            name, st = tok.split("=")
            n = sum(1 for x in parts if x[2:] == name and x[:2] in ("S:", "R:"))
            if st == "0" and n != 1:
                return "--dump: the stream %s can be read but its text appears %d times in the report" % (name, n)
            if st != "0" and n != 0:
                return "--dump: the stream %s cannot be read (status %s) but the report has a section for it" % (name, st)
        if parts.count("H") != 1:
            return "--dump: the header appears %d times" % parts.count("H")
        return None

    def side_effects(self, c, a):
        """what a run leaves behind apart from the reports: the log file, the symbol cache"""
        stale = set(a.get("stale", "-").split("+")) - {"-"}
        for nm, k in (("the output file", "out"), ("the --cyborg file", "cy"), ("the --log-file", "log")):
            if k in stale:
                return "%s still holds bytes of what the path held before the run (%s bytes before, exit status %s)" % (
                    nm, a.get("pre", "-/-/-").split("/")[("out", "cy", "log").index(k)], a["exit"])
        uses_urls = c["sym"][0] == "U" or (c["sym"][0] == "M" and any(ch.isdigit() for ch in c["sym"]))
        if a.get("logref", "-") == "diff" and c["verbose"] in ("e", "off", "error", "warn", "info") and not uses_urls:
            # (with --symbols-url the reference run finds the cache filled by the first one and may log differently)
            return "the --log-file is not what the same command writes to a fresh log path (the path held %s bytes before the run)" % \
                a.get("pre", "-/-/-").split("/")[2]
        sc = a.get("symc", "-")
        if sc != "-" and a["exit"] == "0" and a["lib"] == "O" and "D" not in c["modes"]:     # --dump does not look for symbols
            tc, tt, lc, lt = sc.split("/")
            if tc != lc:
                return "the symbol cache directory of the tool holds %s files after the run, the library's %s (same URLs, fresh directories)" % (tc, lc)
            if tt != "x" and tt != lt:
                return "the --symbols-tmp directory holds %s files after the run, the library's %s" % (tt, lt)
        return None

    # ------------------------------------------------------------------ known findings: the regex of the registry AND the model's exact class
    _kclass = {}
    _kkey = None

    def known_match(self, finding, case, what):
        """a violation is accepted as the known finding F-C20b / F-C20d only if, besides the registry's pattern, the MODEL's exact
        classifier (known_b / known_d, proved in C20/Findings.v to be true exactly for the runs that violate the clause) puts this
        very run into the class - so that the suppression cannot swallow a different defect that merely looks alike (as the
        cy in {b,d,r} part of the old F-C20d pattern did with seeded C20-7).  Without a model prediction for the case (driver not
        built) the registry's pattern alone decides."""
        if not PropBase.known_match(self, finding, case, what):
            return False
        ks = [v for (cs, _prof), v in self._kclass.items() if cs == case]
        if not ks:
            return True
        if finding.get("id") == "F-C20b":
            return any(k[0] for k in ks)
        if finding.get("id") == "F-C20d":
            return any(k[1] for k in ks)
        return True

    # ------------------------------------------------------------------ model vs binary, cross-case checks
    def extra(self, ctx):
        vio = []
        self._kclass = {}
        cases, model = ctx["cases"], ctx["model"]
        compared = mism = 0
        for prof, answers in ctx["impl"].items():
            groups = {}
            for i, case in enumerate(cases):
                ans = answers[i]
                if ans is None or ans.startswith("P;;") or model is None:
                    continue
                c = parse_case(case)
                a = parse_answer(ans)
                if a["lib"] in ("R", "P", "O"):
                    self._kkey = (case, prof)
                    bad = self.compare_case(c, a, model[i])
                    if bad == "skip":
                        # the model was asked about an environment that is not this run's (a report that fits into the pipe buffer /
                        # below the size limit: racy or size-dependent): its verdict on the known findings is not used either
                        self._kclass.pop(self._kkey, None)
                        continue
                    compared += 1
                    if bad:
                        mism += 1
                        vio.append({"case": case, "profile": prof, "found_input": True,
                                    "what": "correspondence: the model of main.rs predicts otherwise: " + bad,
                                    "model": model[i], "impl": ans[:600]})
                # --output-file receives exactly what standard output would have
                if a["exit"] == "0" and c["stdout"] == "o" and c["log"] == "-" and c["verbose"] == "e":
                    key = case.split()
                    key[7] = "*"
                    groups.setdefault(" ".join(key), []).append((case, c, a))
            for key, g in groups.items():
                so = [x for x in g if x[1]["out"] == "-"]
                fo = [x for x in g if x[1]["out"] == "g"]
                if so and fo:
                    s1, s2 = parse_sink(so[0][2]["stdout"]), parse_sink(fo[0][2]["out"])
                    if isinstance(s1, tuple) and (not isinstance(s2, tuple) or s1[:2] != s2[:2]):
                        vio.append({"case": fo[0][0], "profile": prof, "found_input": True,
                                    "what": "--output-file received %s but standard output receives %s for the same options" % (
                                        fo[0][2]["out"][:40], so[0][2]["stdout"][:40])})
        # --dump, printer by printer: the model of print_minidump_dump (Gen/C20DumpProg.v, regenerated from main.rs) is asked for the
        # sequence of printer calls on a minidump whose streams answer as the harness OBSERVED (dst), and that is compared with the
        # sequence the tool's report was cut into (dseq)
        dq = {}
        for prof, answers in ctx["impl"].items():
            for i, case in enumerate(cases):
                ans = answers[i]
                if ans is None or ans.startswith("P;;") or " dst=" not in ans:
                    continue
                a = parse_answer(ans)
                if a.get("dst", "-") in ("-", "X") or a.get("dseq", "-") in ("-", "X") or a["exit"] not in ("0", "1"):
                    continue
                prim = parse_sink(a["stdout"] if parse_case(case)["out"] == "-" else a["out"])
                if not isinstance(prim, tuple):
                    continue
                if {"D", "DB"} & prim[2]:
                    if a["exit"] != "0":
                        continue
                    dq.setdefault(a["dst"], []).append((case, prof, a["dseq"], True))
                elif {"D<", "DB<"} & prim[2]:
                    # an io error / a reader that went away in the middle of the dump: whole sections in the model's order, then
                    # the beginning of the next one (c20_dump_io_error_leaves_prefix)
                    dq.setdefault(a["dst"], []).append((case, prof, a["dseq"], False))
        dump_compared = dump_mism = 0
        if dq and model is not None:
            exe = os.path.join(vlib.ALT_DIR if getattr(vlib, "ALT", False) else vlib.CACHE, "ocaml", "c20", "model")
            keys = sorted(dq)
            pred, dead = vlib.run_lines([exe], ["DUMPSEQ " + k.replace(",", " ") for k in keys], timeout=300)
            if dead:
                vio.append({"case": None, "profile": "debug", "found_input": False,
                            "what": "the model driver died on a DUMPSEQ query (%s)" % (dead[0][1],)})
            for k, p in zip(keys, pred):
                if p is None:
                    continue
                for case, prof, dseq, complete in dq[k]:
                    dump_compared += 1
                    if not complete:
                        got = dseq.split(",")
                        if got and got[-1].startswith("?"):
                            got = got[:-1]
                        want = p.strip().split(",")
                        if got == want[:len(got)] and len(got) < len(want):
                            continue
                        dump_mism += 1
                        vio.append({"case": case, "profile": prof, "found_input": True,
                                    "what": "correspondence (--dump, interrupted): the report holds the sections %s, the model's sequence is %s"
                                            % (dseq, p.strip()), "model": p.strip(), "impl": dseq})
                        continue
                    if p.strip() != dseq:
                        dump_mism += 1
                        vio.append({"case": case, "profile": prof, "found_input": True,
                                    "what": "correspondence (--dump): the model of print_minidump_dump predicts the printer calls %s, the "
                                            "tool's report consists of %s (streams: %s)" % (p.strip(), dseq, k), "model": p.strip(), "impl": dseq})
        ctx["info"]["model_known_b_runs"] = sum(1 for k in self._kclass.values() if k[0])
        ctx["info"]["model_known_d_runs"] = sum(1 for k in self._kclass.values() if k[1])
        # which stream kinds the compared reports had readable / unreadable (so that a reader sees that every printer was exercised)
        kinds_ok, kinds_bad = set(), set()
        for k in dq:
            for tok in k.split(","):
                name, st = tok.split("=")
                if st == "0":
                    kinds_ok.add(name)
                elif st == "2":
                    kinds_bad.add(name)
        ctx["info"]["dump_kinds_printed"] = sorted(kinds_ok)
        ctx["info"]["dump_kinds_unreadable"] = sorted(kinds_bad)
        ctx["info"]["dump_sequences_compared"] = dump_compared
        ctx["info"]["dump_sequence_mismatches"] = dump_mism
        ctx["info"]["dump_stream_views"] = len(dq)
        ctx["info"]["traces_validated_against_impl"] = compared
        ctx["info"]["correspondence_mismatches"] = mism
        ctx["info"]["process_runs"] = sum(1 for answers in ctx["impl"].values() for x in answers if x)
        return vio

    def compare_case(self, c, a, model_line):
        """selects the model's column by what the library does with the file the COMMAND LINE names as the minidump.  The harness
        reads @D without symbols; for a raw command line the model says what the parser made of it (4th field): the minidump is
        another word (a file that does not exist: column R), or symbol sources are given (the reports then are not the
        reference's: only status, existence and emptiness are compared)."""
        cols = model_line.split("|")
        info = cols[3] if len(cols) > 3 else "-"
        col = "RPO".index(a["lib"])
        if info == "3":
            col = 0
            a = dict(a, lib="R", logc="-" if a.get("logc") in ("L", "L+", "1") else a.get("logc", "-"),
                     errc="-" if a.get("errc") in ("L", "L+", "1") else a.get("errc", "-"))
        pred = cols[col].split(";")
        if len(pred) >= 12:
            # the model's verdict on the two known findings for THIS run (exact classes, C20/Findings.v): see known_match
            self._kclass[self._kkey] = (pred[10] == "1", pred[11] == "1")
        return self.compare(c, a, pred, names=(info != "2"))

    def compare_diag(self, c, a, dk, p_ld, p_sd="-"):
        """WHAT the run says, on which channel: the model names the one diagnostic of the run (dk: 1 main's own rejection, 2 read
        error, 3 processing error - all three through the logger; 4 main's `Error: <io error>` and 5 clap's usage error - straight
        to standard error); the harness classifies the bytes of the log file and of standard error against the line main.rs
        builds from the LIBRARY's error (`ERROR <name> - Error reading|processing dump: <err>`, computed in-process)."""
        if "logc" not in a or a["exit"] == "101" or a["exit"].startswith("sig") or a["exit"] == "timeout" or c["lim"] or c["ldi"]:
            return None          # (--use-local-debuginfo has a fatal message of its own and is outside the model)
        tag = c["argv"][1] if c.get("argv", "-") != "-" else None
        logger_on = c["verbose"] != "off"
        if tag == "F":
            # a mutated command line: the level is whatever the vector says; the model knows (stderr_diag / log_diag)
            logger_on = (p_sd == "1" or p_ld == "1") if dk in (1, 2, 3) else True
        # at the levels off / error nothing but main()'s fatal message is logged - except by the library's own error! calls
        # (--evil-json, local debuginfo, a malformed Linux memory map in a mutated dump)
        exact = c["verbose"] in ("e", "error", "off") and c["input"][0] in "FSX" and not c["evil"] and not c["ldi"] and tag != "F"
        want = {1: "1", 2: "L", 3: "L"}.get(dk) if logger_on else None
        ok_logger = {want, "L+"} if (want == "L" and not exact) else {want}
        logc, errc = a["logc"], a["errc"]
        if c["log"] != "-":
            if logc != "-" and "log" not in kept_all(a):
                if want and p_ld == "1":
                    if logc not in ok_logger:
                        return "the log file holds %s, model: %s (diagnostic kind %d)" % (DIAG_NAMES.get(logc, logc), DIAG_NAMES[want], dk)
                elif exact and logc != "E":
                    return "the log file holds %s, model: nothing (no fatal diagnostic at level %s)" % (DIAG_NAMES.get(logc, logc), c["verbose"])
            want_err = {4: "C", 5: "U"}.get(dk, "E" if exact else None)
            if dk in (1, 2, 3) and p_ld != "1":
                want_err = None
        else:
            want_err = {4: "C", 5: "U"}.get(dk, want if want else ("E" if exact else None))
            if dk in (4, 5) and c["verbose"] not in ("e", "off", "error"):
                want_err = None          # the logger's warn / info / debug / trace lines share standard error with the message
        if want_err is not None and errc != "-":
            ok = ok_logger if (want_err == want and want is not None) else {want_err}
            if errc not in ok:
                return "standard error holds %s, model: %s (diagnostic kind %d)" % (DIAG_NAMES.get(errc, errc), DIAG_NAMES[want_err], dk)
        return None

    def compare(self, c, a, pred, names=True):
        p_exit, p_stdout, p_out, p_cy, p_log, p_sd, p_ld, p_rec, p_sym, p_dk = pred[:10]
        winner = None
        if p_sym != "-":
            p_paths, p_urls, p_win = p_sym.split("/")
            if not p_urls and p_win != "-":
                winner = p_win          # the rendering must be the one the library gives with that root alone
        _rej, prim0, _sec = documented(c)
        if c["ldi"] and a.get("cpu") in ("amd64", "arm64"):
            return "skip"      # DebugInfoSymbolProvider is outside the model and the harness
        if (c["out"][0] == "f" or (c["out"] == "-" and len(c["stdout"]) > 1 and c["stdout"][0] == "p")) and \
                exp_sizes(a).get(prim0, 0) <= 70000:
            return "skip"      # the report fits into the pipe buffer: whether the writer notices the reader leaving is a race
        if c["lim"]:
            # the model is asked with "every regular file fails after some bytes"; that is what happens only where
            # the first report written to a file is longer than the limit
            sizes = exp_sizes(a)
            _rej, prim, sec = documented(c)
            first = prim if c["out"] != "-" else sec
            if first is None or sizes.get(first, 0) <= c["lim"]:
                return "skip"
            if c["log"] != "-" and c["verbose"] not in ("e", "off", "error"):
                return "skip"
        if a["exit"] != p_exit:
            return "exit status %s, model %s" % (a["exit"], p_exit)
        for nm, got, want in (("stdout", a["stdout"], p_stdout), ("output file", a["out"], p_out), ("cyborg file", a["cy"], p_cy)):
            s = parse_sink(got)
            if s == "n/a" or "!" in want:
                continue
            kept = set(a.get("kept", "-").split("+"))
            if want == "K":
                pre_len = dict(zip(("output file", "cyborg file"), a.get("pre", "-/-/-").split("/")[:2])).get(nm, "-")
                if pre_len == "-":
                    want = "-"          # the previous run that was to write the file did not create it
                elif {"output file": "out", "cyborg file": "cy"}.get(nm) not in kept:
                    return "%s is %s, model: the file the run found, untouched" % (nm, got[:40])
                else:
                    continue
            if want == "-":
                if s is not None and not (nm == "output file" and c["out"][0] == "f" and s[0] == 0):
                    return "%s exists (%s), model: not created" % (nm, got[:40])
                continue
            if s is None:
                if nm == "stdout":
                    continue
                return "%s missing, model: %s" % (nm, want)
            if want == "0":
                if s[0] != 0:
                    return "%s has %d bytes, model: empty" % (nm, s[0])
                continue
            if want == "HELP":
                if s[0] == 0:
                    return "%s empty, model: the manual" % nm
                continue
            if want.endswith("~"):
                base = want[:-1]
                if base == "HELP":
                    continue          # no in-process rendering of the manual to compare a prefix with
                w = base + (p_rec if base in ("H", "HB", "J", "JP") else "")
                pipe = (nm == "stdout" and c["stdout"][0] == "p") or (nm == "output file" and c["out"][0] == "f")
                if (w + "<") in s[2] or (pipe and (w in s[2] or s[0] == 0)):
                    continue
                return "%s equals %s, model: a prefix of %s" % (nm, "+".join(sorted(s[2])) or "no rendering", w)
            w = want + (p_rec if want in ("H", "HB", "J", "JP") else "")
            if winner and want in ("H", "HB", "J", "JP"):
                w += "@" + winner
            if not names and want in ("H", "HB", "J", "JP"):
                if s[0] == 0:
                    return "%s is empty, model: %s" % (nm, w)
                continue          # symbol sources the reference does not have: presence only
            if w not in s[2]:
                return "%s equals %s, model: %s" % (nm, "+".join(sorted(s[2])) or "no rendering", w)
        if a["log"] != "n/a":
            if (p_log == "-") != (a["log"] == "-"):
                return "log file %s, model %s" % (a["log"], p_log)
            if p_ld == "1" and a["log"] in ("-", "0"):
                return "no diagnostic in the log file, model: one"
        bad = self.compare_diag(c, a, int(p_dk), p_ld, p_sd)
        if bad:
            return bad
        if p_sd == "1" and a["stderr"] == "0":
            return "no diagnostic on standard error, model: one"
        return None


PROP = C20()
