"""C09 — parsing a symbol file is total and bounded."""
from runner import PropBase
from vlib import Rng
from props import symgen as G


def nonascii_field_files():
    import re
    out = []
    vals = [b"\x80", b"\xff", b"1\x80", b"f\xff", b"\xc3\xa9", b"1\xc3\xa9", b"1\xe2\x82\xac"]
    for t in G.TEMPLATES:
        parts = re.split(r"(\{d\}|\{h32\}|\{h64\})", t)
        slots = [i for i, p in enumerate(parts) if p.startswith("{")]
        for si in slots:
            for v in vals:
                ps = [(b"1" if (p.startswith("{") and i != si) else (v if i == si else p.encode())) for i, p in enumerate(parts)]
                out.append(b"MODULE Linux x86 ABC name\n" + b"".join(ps) + b"\nFILE 5 after\n")
    for head in (b"FUNC 1000 10 0 f\n", b"FUNC 1000 10 0 f\n1000 4 1 1\n", b"STACK CFI INIT 1000 10 .cfa: $esp 4 +\n",
                 b"FILE 1 a\n", b"PUBLIC 10 0 p\n", b""):
        for first in (b"\x80", b"\xff", b"\xc3\xa9", b"\xf0\x9f\x98\x80"):
            for rest in (b"", b" 4 1 1", b"1000 4 1 1"):
                out.append(b"MODULE Linux x86 ABC name\n" + head + first + rest + b"\nFILE 5 after\n")
    return out


def func_range_files():
    """FUNC / STACK CFI INIT groups whose sub-records (line records, INLINE ranges, CFI deltas) lie before, across the start of,
    inside, across the end of, exactly after and far after the group's own address range, with sizes 0 / 1 / large and addresses
    at the top of the 64-bit space: syntactically valid files, so every one must parse (class of seeded C09-6 / C09-8: range
    arithmetic in finish_item / finish)."""
    out = []
    funcs = [(0x1000, 0x10), (0x1000, 1), (0x1000, 0), (0, 0x10), (0xfffffffffffffff0, 0x10), (0xffffffffffffffff, 1),
             (0xfffffffffffffff8, 0xffffffff)]
    for a, sz in funcs:
        end = a + sz
        spots = [(a - 8, 4), (a - 4, 4), (a - 2, 4), (a, 4), (a + 2, 4), (end - 2, 4), (end - 1, 1), (end, 4), (end + 1, 1),
                 (end + 0x100, 4), (a, 0), (end, 0), (a, 0xffffffff), (end - 1, 0xffffffff), (0xffffffffffffffff, 1),
                 (0xffffffffffffffff, 0xffffffff), (0, 1), (0, 0)]
        spots = [(x, n) for (x, n) in spots if 0 <= x <= 0xffffffffffffffff]
        head = "FUNC %x %x 0 f" % (a, sz)
        for (x, n) in spots:
            out.append("%s\n%x %x 7 1" % (head, x, n))
            out.append("%s\nINLINE 0 3 1 2 %x %x" % (head, x, n))
            out.append("%s\n%x %x 7 1\nINLINE 0 3 1 2 %x %x\n%x 4 8 1" % (head, x, n, x, n, a))
        for (x, n), (y, k) in zip(spots, spots[3:] + spots[:3]):
            out.append("%s\n%x %x 7 1\n%x %x 8 1" % (head, x, n, y, k))
            out.append("%s\nINLINE 0 3 1 2 %x %x %x %x\nINLINE 1 4 1 2 %x %x" % (head, x, n, y, k, y, k))
        if sz <= 0xffffffff and a <= 0xffffffffffffffff:
            chead = "STACK CFI INIT %x %x .cfa: $esp 4 +" % (a, sz)
            for (x, n) in spots:
                out.append("%s\nSTACK CFI %x .cfa: $esp 8 +" % (chead, x))
            out.append("%s\n%s\nPUBLIC %x 0 p" % (head, chead, a))
    # two functions: same address, overlapping, size 0 aliases, each with a line record outside of it
    for (a1, s1), (a2, s2) in [((0x1000, 0x10), (0x1000, 0x10)), ((0x1000, 0x10), (0x1008, 0x10)), ((0x1000, 0x10), (0x1000, 0)),
                               ((0x1000, 0), (0x1000, 0x10)), ((0x1000, 0x20), (0x1008, 4))]:
        out.append("FUNC %x %x 0 f\n%x 4 1 1\nFUNC %x %x 0 g\n%x 4 2 1" % (a1, s1, a1 + s1, a2, s2, a2 + s2 + 4))
    return [("MODULE Linux x86 ABC name\nFILE 1 a.c\nINLINE_ORIGIN 2 inl\n" + t + "\nFILE 5 after\n").encode() for t in out]


def win_overlap_files():
    """Two or three STACK WIN records of one kind (frame data / FPO) whose ranges are identical, start at the same address with a
    different size, nest, overlap at either end, touch, or are disjoint (plus size 0 and the top of the address space), in every
    order: every branch of insert_win_stack_info (the size fix-up with its `memory_range().unwrap()`, the silently dropped
    duplicate, the dropped bad intersection) and of the range-map builder behind it.  Syntactically valid: must parse."""
    out = []
    second = [(0x1000, 0x10), (0x1000, 8), (0x1000, 0x20), (0x1004, 4), (0x1008, 0x10), (0x100f, 1), (0x1010, 0x10), (0x2000, 8),
              (0xff8, 0x10), (0xff8, 8), (0x800, 8), (0x1000, 0), (0x1001, 0xffffffff), (0xfffffffffffffff8, 8), (0xfffffffffffffff8, 9)]
    third = [(0x1000, 0x10), (0x1004, 4), (0x1008, 0x10), (0x1010, 8), (0x800, 0x1000), (0x1000, 1)]
    kinds = [("STACK WIN 4 %x %x 0 0 0 0 0 0 1 $eip 4 + ^ =", "STACK WIN 0 %x %x 0 0 4 0 0 0 0 1"),
             ("STACK WIN 0 %x %x 0 0 4 0 0 0 0 0", "STACK WIN 4 %x %x 1 2 3 4 5 6 1 $T0 $ebp ="), ]
    for same, other in kinds:
        for b in second:
            out.append([same % (0x1000, 0x10), same % b])
            out.append([same % b, same % (0x1000, 0x10)])
            out.append([same % (0x1000, 0x10), other % b, same % b])
            for c in third:
                out.append([same % (0x1000, 0x10), same % b, same % c])
    return [("MODULE Linux x86 ABC name\n" + "\n".join(t) + "\nFILE 5 after\n").encode() for t in out]


def truncated_keyword_files():
    """Truncated records: every prefix of every record keyword, with and without the trailing space, as a whole line - ended by
    LF / CRLF / nothing - placed as the LAST line of the file and as the last complete line in front of an unterminated tail
    (so that it is the last thing parse_more sees in its window), at top level and while a FUNC / STACK CFI INIT group is open.
    No verdict on the result (most are parse errors): the parse must return, never panic (class of seeded C09-9)."""
    kws = ["MODULE", "INFO", "INFO URL", "FILE", "INLINE_ORIGIN", "INLINE", "PUBLIC", "FUNC", "STACK", "STACK WIN", "STACK CFI",
           "STACK CFI INIT"]
    lines = []
    for kw in kws:
        for n in range(1, len(kw) + 1):
            for sp in ("", " "):
                ln = kw[:n] + sp
                if ln not in lines:
                    lines.append(ln)
    heads = ["MODULE Linux x86 ABC name\n", "MODULE Linux x86 ABC name\nFUNC 1000 10 0 f\n1000 4 1 1\n",
             "MODULE Linux x86 ABC name\nSTACK CFI INIT 1000 10 .cfa: $esp 4 +\n"]
    tail = "FILE 7 " + "u" * 300          # unterminated: never parsed, keeps the truncated line the last complete one
    out = []
    for ln in lines:
        for head in heads:
            out.append(head + ln + "\n")
            out.append(head + ln + "\n" + tail)
        out.append(heads[0] + ln + "\r\n")
        out.append(heads[0] + ln + "\r\n" + tail)
        out.append(heads[0] + ln)
        out.append(ln + "\n")               # as the very first line
    return [t.encode() for t in out]


def kept_long_files(rng):
    """(file, schedule, number of FILE records): valid files with one long FILE record whose line (with its newline) has at most
    81920 bytes - never "over-long": the code documents "at least 80KB symbol names", and the model proves that only lines
    longer than that are ever dropped - behind 0 / 3 / 40 short records, under whole-slice, fixed-size and random reads.
    Every FILE record must be in the table."""
    out = []
    for content in (10000, 10241, 20481, 40000, 40961, 41000, 60000, 70000, 81000, 81900, 81919):
        for pre in (0, 3, 40):
            head = b"MODULE Linux x86 ABC name\n" + b"".join(b"FILE %d f%d\n" % (i, i) for i in range(pre))
            long = b"FILE 9999 " + b"a" * (content - 10) + b"\n"
            data = head + long + b"FILE 10000 z\n"
            for sched in ([], ["4096*400"], ["65536*40"], G.sched_random(rng, len(data), style=rng.choice([0, 1, 2, 5]))):
                out.append((data, sched, pre + 2))
    return out


class C09(PropBase):
    pid = "C09"
    coq_dirs = ["Base", "Gen", "C08", "C11", "C09"]
    translators = ["symfile_loop.py", "c09_circular_mem.py", "c09_numeric.py", "c09_lines.py"]
    bins = ["c09"]
    impl_timeout = 600
    rule = ("case = input bytes (run-length encoded) + reader schedule; inputs: grammar-generated files with every record kind, "
            "numeric fields at 0/max/one digit too many, non-UTF-8 names, LF/CRLF/CRCRLF, missing final newline, byte corruption, "
            "lines of 1 B..1 MiB placed around 5/10/20/40/80/160 KiB; non-trivial = input has at least 3 lines; distinct = distinct case lines")
    trusted_base = G.TRUSTED
    manifest = {
        "text": "Theorems (Coq; all inputs = any list of lines of any lengths plus an unterminated rest, all reader schedules, any line "
                "recogniser): the parse loop returns Ok/Err within 6*|input|+24 iterations, never reaches a panic site (c09_total); the "
                "buffer capacity is always one of 10/20/40/80/160 KiB and at most 160 KiB are offered to the reader (c09_bounded_window); "
                "a line of >= 160 KiB is never shown to the line parser, lines the recogniser sees are <= 160 KiB, dropped lines are > 80 KiB, "
                "and the result is the fold of the recogniser over the remaining lines (c09_long_line_dropped). The driver model and a "
                "byte-level model of every line parser are tied to the code by running both on generated files under generated schedules "
                "(debug and release); an oracle checks no panic / no hang / <= 160 KiB read window / over-long line == line removed. "
                "Round 2: the line model returns the parsed records and finish() builds the canonical symbol table (C08 builder, sorts, "
                "filters, insert_win_stack_info); c09_table_spec; model and code are compared on the FULL table text. "
                "Round 4: the WHOLE parse never panics — SymbolParser::finish (finish_item, sorts, insert_win_stack_info's unwrap, the four "
                "try_from_iter().unwrap()) is proved total on every parser state the line recognisers can build (c09_parse_never_panics, "
                "c09_finish_total: hex_str / decimal_u32 keep every numeric field in range); total_consumed and parser.lines stay <= |input| "
                "(c09_counters_fit_u64); the model's loop iteration, constants and circular index arithmetic are proved equal to what a "
                "translator regenerates from mod.rs and the pinned circular crate on every run (c09_source_pins); the correspondence "
                "compares the whole read/callback event sequence (c09_trace_is_run). Oracle additions: numeric-boundary files carry a "
                "format-derived verdict (ok / bad). The evidence records which record kinds, error branches and buffer transitions "
                "the generated cases exercise (input_distribution.features / holes). "
                "Round 5: circular::Buffer WITH its memory (coq/C09/Circular.v: with_capacity zero fill, data()/space() slices, shift = "
                "memmove, grow = resize(n, 0), the reader writing into space()). For ANY sequence of operations the byte-level buffer "
                "projects onto the index model and data() is a FIFO queue of bytes (c09_buffer_refines_fifo) - the former trusted FIFO "
                "contract is now a theorem. The parse loop run on real bytes takes the branches of the index model, never hits a slice "
                "panic, and callback bytes ++ data() ++ unread bytes = input in every reachable state, so the callback gets exactly the "
                "first total_consumed bytes and data() is the window of the input Model.v assumed (c09_window_is_input); the newline "
                "search on the real bytes of data() equals Model.first_nl and the prefix of data() up to its last newline (what "
                "parse_more keeps) is the concatenation of the lines Model.pm walks over (c09_data_is_the_lines). The byte-level "
                "operations are rebuilt from the operands a second translator reads off the crate source and proved equal to the model's "
                "(c09_memory_ops_are_source). Compared with the code: the harness reader looks at every space() slice before writing; "
                "the stale bytes it sees (first/last 32 of each slice) are predicted by the extracted byte-level run on every case "
                "that is cheap enough (c09_bytes_trace_is_run, c09_bytes_run_is_drive). The recovery amount and parse_more's consumed, "
                "computed on the real bytes of data(), equal what the index model consumes (c09_amounts_from_bytes; the trimming rule is "
                "read off parse_more's source, c09_trim_is_source); on Ok the callback has received the whole input byte for byte "
                "(c09_ok_callback_is_whole_input). Oracle additions: a byte >= 0x80 in any numeric field must be rejected without a panic "
                "(tag bad); sub-records anywhere relative to their group's address range must parse (tag ok); a record on a line of at "
                "most 80 KiB is never dropped (FILE count of the table, tag keep<N>). "
                "Round 5, second pass: finish composed with C08 - for every byte string and schedule (and for every sequence of recognised / "
                "dropped lines replayed from the initial parser state) every (start, end) pair handed to Range::new while finish runs (line "
                "records, memory_range() of FUNC / STACK CFI INIT / STACK WIN records, the STACK WIN record shortened by "
                "insert_win_stack_info) has 0 <= start <= end < 2^64, and the five range maps of the table (functions, each function's line "
                "table, CFI, STACK WIN frame data / fpo) are strictly sorted and pairwise disjoint (c09_table_ranges_ordered, "
                "c09_finish_ranges_ordered). hex_str::<u32>/<u64> and decimal_u32 are COMPILED from parser.rs by a third translator "
                "(statement by statement, checked operators of both profiles, the slice site &input[k..]) and proved, for every byte list "
                "and both profiles, panic-free and equal to the number recognisers of the model (c09_numeric_helpers_are_source); what they "
                "accept is stated declaratively: the longest prefix of at most 8 / 16 / 10 digit bytes, non-empty, positional value, "
                "decimal values above u32::MAX rejected, a byte >= 0x80 never a digit (c09_numeric_grammar). "
                "The line recognisers (which work on run-length encoded lines) are described over the expanded BYTES: my_eol = cr*, a name "
                "field = bytes up to the first '\\r' + cr*, returned unchanged, valid iff well-formed UTF-8; the run-length shortcut of the "
                "UTF-8 check is the byte automaton, which accepts exactly the well-formed sequences of Unicode table 3-7 "
                "(c09_text_fields_on_bytes). Every record kind and sub-line kind - FILE, INLINE_ORIGIN, STACK CFI INIT, STACK CFI, line "
                "records, PUBLIC, FUNC (optional m), INFO URL, INFO, MODULE, STACK WIN, INLINE (separated_list1) - is proved equal, in both "
                "directions, to a declarative grammar over bytes (sp+ separators, hex{1,8|16} / digit{1,10} fields, cr* before the "
                "newline; c09_id_name_record_grammar, c09_cfi_and_line_record_grammar, c09_public_func_record_grammar, "
                "c09_info_module_record_grammar, c09_win_inline_record_grammar), and the dispatch between kinds (PErr iff the keyword + "
                "space is absent, cut after it, alt = first non-PErr parser) is c09_record_dispatch. Generator added: STACK WIN records "
                "with identical / same-start / nested / overlapping / touching ranges (every branch of insert_win_stack_info, tag ok). "
                "A fourth translator reads the nom line parsers of parser.rs as data (keyword of terminated(tag, space1), position of cut, "
                "order and kind of the fields inside tuple((..)), order of the alternatives of line()); the recognisers of the model are "
                "proved equal to the interpretation of these descriptions (c09_line_parsers_are_source; stack_win_line and inline_line "
                "stay hand-written).",
        "note": "Trusted: Coq kernel; hand-written models of mod.rs, parser.rs and of circular 0.3.0 (indices and, since round 5, memory: "
                "ptr::copy read as memmove, Vec::resize as append of the fill value) - correspondence-checked (events, space() contents, "
                "callback bytes), pinned by four translators + proofs, not verified against rustc semantics. No axioms.",
    }
    assumptions = ["the byte-level model of circular::Buffer (coq/C09/Circular.v) reads ptr::copy as memmove and Vec::resize as appending the fill "
                   "value; the FIFO behaviour of data() is proved from that (c09_buffer_refines_fifo), and checked on every case by comparing "
                   "callback bytes with the input and the contents of space() with the model's memory",
                   "inputs have fewer than 2^64 bytes (c09_counters_fit_u64)",
                   "known finding F-C09a (over-long group header orphans its sub-lines) is recorded, not fixed"]

    def canon_model(self, case, ans):
        return G.model_part(ans)

    def canon_impl(self, case, ans, profile):
        return ans if ans.startswith("P;;") else G.model_part(ans)

    def gen_cases(self, tier, seed):
        rng = Rng(seed * 7919 + 9)
        cases, dist = [], {}

        def add(kind, data, sched=(), tag=None):
            cases.append(G.case(data, sched, tag))
            dist[kind] = dist.get(kind, 0) + 1

        quick = tier == "quick"
        # 1. grammar files, clean and with bad fields
        for i in range(700 if quick else 6000):
            pbad = [0, 0, 3, 10, 30][rng.below(5)]
            lines = G.gen_lines(rng, 1 + rng.below(12), pbad=pbad, junk=rng.choice([0, 0, 5]))
            data = G.join(rng, lines, eol_mode=rng.below(3), final_nl=not rng.chance(1, 8))
            add("grammar", data, G.sched_random(rng, len(data), style=rng.choice([0, 0, 4, 6])))
        # 2. byte corruption of valid files
        for i in range(700 if quick else 6000):
            lines = G.gen_lines(rng, 1 + rng.below(8))
            data = G.corrupt(rng, G.join(rng, lines, eol_mode=rng.below(3)), 1 + rng.below(3))
            add("corrupt", data, G.sched_random(rng, len(data), style=rng.choice([0, 0, 4])))
        # 2b. every numeric field of every record kind at 0 / max / one digit too many / out of range (exhaustive)
        for data, tag in G.boundary_files_tagged():
            add("boundary", data, tag=tag)
        # 2b'. a byte >= 0x80 where a numeric field is read (as its first byte, right after its digits, inside a multi-byte
        #      character) in every numeric field of every record kind, and as the first byte of a sub-line of FUNC / STACK CFI
        #      INIT: malformed by the format, so the parse must fail - and must not panic (class of seeded C09-7)
        for data in nonascii_field_files():
            add("nonascii-field", data, tag="bad")
        # 2b". sub-records before / across / inside / after their group's address range, sizes 0 / 1 / large, top of the address space
        for data in func_range_files():
            add("func-range", data, tag="ok")
        # 2b"-win. STACK WIN records of one kind with identical / same-start / nested / overlapping / touching / disjoint ranges
        for data in win_overlap_files():
            add("win-overlap", data, tag="ok")
        # 2b"-trunc. every prefix of every record keyword as the last (complete) line: must not panic (class of seeded C09-9)
        for data in truncated_keyword_files():
            add("trunc-keyword", data)
        # 2b"'. a long but not over-long record (line <= 80 KiB) is never dropped: all FILE records must be in the table
        for data, sched, nfiles in kept_long_files(rng):
            add("kept-long", data, sched, tag="keep%d" % nfiles)
        # 2c. a carriage return that is not part of the line ending, inside every record kind (measured hole: rejected INFO lines)
        for data, k in G.cr_inside_files():
            add("cr-inside", data)
            add("cr-inside", data, [str(k), "1"])
        # 3. tiny / degenerate inputs
        for data in [b"", b"\n", b"\r\n", b"\r", b"x", b"MODULE", b"MODULE a b c d", b"MODULE a b c d\n", b"\n\n\n", b"\nMODULE a b c d\n",
                     b"MODULE a b c d\nMODULE a b c d\n", b"FUNC 1 1 0 f", b"\x00", b"\xff\n", b" \n", b"MODULE a b c d\n" + b"\n" * 3000]:
            add("tiny", data)
        for n in range(40 if quick else 300):
            add("tiny", bytes(rng.below(256) if rng.chance(1, 2) else rng.choice(b"MODULE FILE10\n\r ") for _ in range(rng.below(40))))
        # 4. long lines around every threshold, up to 1 MiB
        targets = []
        for t in G.THRESH + [2 * G.KIB * 80 - 1, 81919, 81920, 81921, 163839, 163840, 163841, 1 << 20, 300000, 500000]:
            targets += [t, t - 1, t + 1] + [G.around(rng, t, 40) for _ in range(2 if quick else 12)]
        for t in targets:
            for rep in range(2 if quick else 4):
                pre = G.gen_lines(rng, rng.below(6))
                post = G.gen_lines(rng, 1 + rng.below(6))[1:]
                filler = [G.long_line(rng, rng.below(9000)) for _ in range(rng.below(4))]
                lines = pre + filler + [G.long_line(rng, max(0, t))] + post
                final_nl = not rng.chance(1, 6)
                data = G.join(rng, lines, eol_mode=rng.choice([0, 0, 1]), final_nl=final_nl)
                add("long", data, G.sched_random(rng, len(data), style=rng.choice([0, 0, 1, 2, 5])))
        # 5. several long lines in one file, long line last / first / unterminated
        for i in range(60 if quick else 600):
            lines = G.gen_lines(rng, rng.below(4))
            for _ in range(1 + rng.below(4)):
                lines.append(G.long_line(rng, G.around(rng, rng.choice(G.THRESH + [200000, 81920, 163840]), 100)))
                lines += G.gen_lines(rng, rng.below(3))[1:]
            data = G.join(rng, lines, final_nl=not rng.chance(1, 4))
            add("multi-long", data, G.sched_random(rng, len(data), style=rng.choice([0, 1, 2, 3, 5])))
        # 6. the statement's own example: a valid file with one over-long line somewhere after the first
        for i in range(60 if quick else 400):
            lines = G.gen_lines(rng, 2 + rng.below(8))
            pos = 1 + rng.below(len(lines))
            lines.insert(pos, G.long_line(rng, 163840 + rng.choice([0, 1, 2, 100, 5000, 200000, 900000])))
            data = G.join(rng, lines, final_nl=(pos != len(lines) - 1) or rng.chance(1, 2))
            add("dropped", data, G.sched_random(rng, len(data), style=rng.choice([0, 0, 1, 2, 5])), tag="drop")
        # 7. over-long line, then a few short lines and an unterminated fragment; large reads, so that the end of the
        #    over-long line and all the rest arrive in one read (recovery ends and EOF follows at once)
        for i in range(80 if quick else 600):
            lines = G.gen_lines(rng, rng.below(5))
            lines.append(G.long_line(rng, 163840 + rng.choice([0, 1, 7, 100, 5000, 170000])))
            lines += G.gen_lines(rng, rng.below(3))[1:]
            lines.append(rng.choice([b"FILE 9 x", b"FUNC 1 1 0", b"x", b"STACK CFI INIT 1 1 .cfa: $esp", b"PUBLIC 1 0 abc", b"\r"]))
            data = G.join(rng, lines, final_nl=False)
            add("drop-trunc", data, rng.choice([[], [], ["163840*40"], ["200000*40"], ["81920*40"], G.sched_random(rng, len(data), style=2)]))
        # 8. every free-text field of every record kind (and every tolerated-malformed STACK WIN shape) x long texts with
        #    multi-byte characters at every offset class around 64 / 256 / 4096 bytes
        for data in G.free_text_files():
            add("free-text", data)
        # 9. complete lines ending exactly at capacity/2 of a full window (+-1), then a line that does not fit; all records valid
        for data, sched, label in G.aligned_files():
            add("aligned", data, sched, tag="ok")
        # 10. known finding F-C09a: the over-long line is a group header with sub-lines
        for data in G.orphan_files(rng, 6 if quick else 40):
            add("orphan", data, rng.choice([[], ["65536*20"]]), tag="orphan")
        self._dist = dist
        # the runner gives each worker a contiguous block of cases; the expensive categories (long lines, byte-level runs with large
        # buffers) are generated together, so deal the cases out round-robin: every block gets its share of each category
        k = 16
        cases = [c for j in range(k) for c in cases[j::k]]
        return cases, dist, False

    def impl_cmd(self, exe, profile):
        # no case takes more than a second or two even in the debug build: a hang is reported after 15 s
        return ["env", "VHARNESS_CASE_TIMEOUT=15", exe]

    def oracle(self, case, ans, profile):
        if ans.startswith("P;;"):
            return "parsing panicked: " + ans[3:200]
        f = G.fields(ans)
        if not f.get("R") or not (f["R"] == "OK" or f["R"].startswith("E")):
            return "parse returned neither a table nor a parse error: " + ans[:100]
        if f["R"].startswith("E8") or f["R"].startswith("E9"):
            return "unexpected error kind " + f["R"]
        if int(f["ms"]) > G.MAXCAP:
            return "the reader was offered %s bytes of buffer: more than the 160 KiB window" % f["ms"]
        if f.get("cbok") != "1":
            return "callback bytes are not a prefix of the input"
        a = G.analyse(case)
        if a["tag"] == "ok" and f["R"] != "OK":
            return "every line of this input is a valid record (over-long ones are to be dropped), yet the parse fails with " + f["R"]
        if a["tag"] and a["tag"].startswith("keep"):
            want = int(a["tag"][4:])
            if f["R"] != "OK":
                return "every line of this input is a valid record of at most 80 KiB, yet the parse fails with " + f["R"]
            fpart = (f.get("T", "").split("#") + ["", ""])[1]
            got = 0 if fpart in ("F", "") else len(fpart[1:].split(","))
            if got != want:
                return ("the input has %d FILE records, none on a line longer than 80 KiB, but the table has %d: a line that is not "
                        "over-long was dropped" % (want, got))
        if a["tag"] == "bad" and f["R"] == "OK":
            return "a numeric field of this input is malformed or out of range for the Breakpad format, yet the parse succeeds"
        if a["tag"] == "orphan" and f["R"] != "OK":
            return ("the only corrupt line is an over-long FUNC / STACK CFI INIT header; it is dropped, but its sub-lines then "
                    "make the parse fail with " + f["R"])
        lens = a["line_lens"] + ([a["tail"]] if a["tail"] else [])
        fuzzy = [n for n in lens if G.HALF <= n < G.MAXCAP]
        if f.get("D", "-") != "-" and not fuzzy:
            # every over-long line must behave as if it were absent (class of result and table)
            r, d = f["R"].split(":")[0], f["D"].split(":")[0]
            if r != d or f.get("deq") != "1":
                return ("an over-long line was not simply dropped: with it %s, without it %s (tables equal: %s)"
                        % (f["R"], f["D"], f.get("deq")))
        return None

    def nontrivial(self, case, ans):
        a = G.analyse(case)
        return len(a["line_lens"]) >= 3

    def extra(self, ctx):
        G.record_features(self, ctx)
        return []


PROP = C09()
