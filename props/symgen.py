"""Case generation shared by C09 and C10: Breakpad symbol files as byte strings, compact
case encoding, chunk schedules, and the analysis the oracles need (line lengths).

case line :=  <segment>* | <schedule token>*
  segment   x<hex>  literal bytes      r<hh>*<n>  n copies of one byte      t<word>  ignored tag
  schedule  <n> | <n>*<k>
"""
import re

KIB = 1024
THRESH = [5 * KIB, 10 * KIB, 20 * KIB, 40 * KIB, 80 * KIB, 160 * KIB]
MAXCAP = 160 * KIB
HALF = 80 * KIB            # lines with content < HALF bytes are in C10's class


def enc(b, minrun=16):
    out, lit, i, n = [], bytearray(), 0, len(b)
    while i < n:
        j = i + 1
        c = b[i]
        while j < n and b[j] == c:
            j += 1
        if j - i >= minrun:
            if lit:
                out.append("x" + lit.hex())
                lit = bytearray()
            out.append("r%02x*%d" % (c, j - i))
        else:
            lit += b[i:j]
        i = j
    if lit:
        out.append("x" + lit.hex())
    return " ".join(out)


def case(data, sched=(), tag=None):
    s = enc(data)
    if tag:
        s = "t" + tag + " " + s
    return s.strip() + " | " + " ".join(sched)


_seg = re.compile(r"^(?:x([0-9a-f]*)|r([0-9a-f]{2})\*(\d+)|t\S*)$")


def analyse(case_line):
    """-> dict(total, line_lens (content lengths of '\\n'-terminated lines), tail (bytes after last '\\n'), tag)"""
    left = case_line.split("|", 1)[0]
    lens, cur, total, tag = [], 0, 0, None
    for t in left.split():
        m = _seg.match(t)
        if not m:
            raise ValueError("bad segment " + t[:40])
        if t[0] == "t":
            tag = t[1:]
        elif t[0] == "x":
            bs = bytes.fromhex(m.group(1))
            total += len(bs)
            parts = bs.split(b"\n")
            for p in parts[:-1]:
                lens.append(cur + len(p))
                cur = 0
            cur += len(parts[-1])
        else:
            byte, n = int(m.group(2), 16), int(m.group(3))
            total += n
            if byte == 10:
                for _ in range(n):
                    lens.append(cur)
                    cur = 0
            else:
                cur += n
    return {"total": total, "line_lens": lens, "tail": cur, "tag": tag}


# --------------------------------------------------------------------------- grammar
HEX32 = ["0", "1", "10", "7fffffff", "ffffffff", "FFFFFFFF", "00000000", "abc"]
HEX64 = ["0", "1", "1000", "ffffffff", "100000000", "ffffffffffffffff", "FFFFFFFFFFFFFFFF", "fffffffffffffff0", "dead"]
HEX32_BAD = ["100000000", "fffffffff", "", "g", "0x10", "-1"]
HEX64_BAD = ["10000000000000000", "fffffffffffffffff", "", "xyz"]
DEC = ["0", "1", "42", "4294967295", "0000000001", "65536"]
DEC_BAD = ["4294967296", "9999999999", "00000000001", "", "-1", "1a"]
NAMES = [b"main", b"foo::bar(int, char const*)", b"a b  c", b"", b"\xc3\xa9t\xc3\xa9", b"\xf0\x9f\x98\x80", b"x\ty",
         b"operator()(nsID const&, void**) const", b"\xe2\x82\xac\xe2\x82\xac"]
NAMES_BAD = [b"\xff", b"abc\x80", b"\xc3", b"\xe0\x80\x80", b"\xed\xa0\x80", b"\xf4\x90\x80\x80", b"a\rb", b"\xc0\xaf"]


def pick(rng, good, bad, pbad):
    if bad and rng.chance(pbad, 100):
        return rng.choice(bad)
    return rng.choice(good)


def sp(rng):
    r = rng.below(20)
    return b" " if r < 16 else (b"  " if r == 16 else (b"\t" if r == 17 else (b" \t " if r == 18 else b"   ")))


def gen_record(rng, kind, pbad):
    """one record (possibly several lines) as a list of line contents (bytes, no newline)"""
    h32 = lambda: pick(rng, HEX32, HEX32_BAD, pbad).encode()
    h64 = lambda: pick(rng, HEX64, HEX64_BAD, pbad).encode()
    dec = lambda: pick(rng, DEC, DEC_BAD, pbad).encode()
    name = lambda: pick(rng, NAMES, NAMES_BAD, pbad)
    S = lambda: sp(rng)
    m = lambda: (b"m" + S()) if rng.chance(1, 5) else b""
    if kind == "INFO":
        return [b"INFO" + S() + rng.choice([b"CODE_ID 0123ABC foo.pdb", b"GENERATOR x", b"URLx", b"", name()])]
    if kind == "URL":
        return [b"INFO URL" + S() + rng.choice([b"https://example.com/a b.sym", name()])]
    if kind == "FILE":
        return [b"FILE" + S() + dec() + S() + name()]
    if kind == "ORIGIN":
        return [b"INLINE_ORIGIN" + S() + dec() + S() + name()]
    if kind == "PUBLIC":
        return [b"PUBLIC" + S() + m() + h64() + S() + h32() + S() + name()]
    if kind == "WIN":
        ty = rng.choice([b"4", b"0", b"1", b"a", b"4"]) if not rng.chance(pbad, 100) else rng.choice([b"44", b"g", b""])
        hp = rng.choice([b"1", b"0"]) if not rng.chance(pbad, 100) else rng.choice([b"2", b"11", b"x"])
        return [b"STACK WIN" + S() + ty + S() + h64() + S() + b"".join(h32() + S() for _ in range(7)) + hp + S()
                + rng.choice([b"$eip 4 + ^ = $esp $ebp 8 + =", b"1", b"0", name()])]
    if kind == "FUNC":
        out = [b"FUNC" + S() + m() + h64() + S() + h32() + S() + h32() + S() + name()]
        for _ in range(rng.below(5)):
            r = rng.below(10)
            if r < 6:
                out.append(h64() + S() + h32() + S() + dec() + S() + dec())
            elif r < 8:
                n = 1 + rng.below(3)
                tail = S().join(h64() + S() + h32() for _ in range(n))
                if rng.chance(pbad, 200):
                    tail += rng.choice([b" ", b" 1", b" 1 ", b"x"])
                out.append(b"INLINE" + S() + dec() + S() + dec() + S() + dec() + S() + dec() + S() + tail)
            elif r == 8:
                out.append(b"INLINE_ORIGIN " + dec() + S() + name())
            else:
                out += [b""] * (1 + rng.below(3))      # blank line(s) inside the group
        return out
    if kind == "CFI":
        out = [b"STACK CFI INIT" + S() + h64() + S() + h32() + S() + rng.choice([b".cfa: $rsp 8 + .ra: .cfa -8 + ^", name()])]
        for _ in range(rng.below(4)):
            if rng.chance(1, 8):
                out += [b""] * (1 + rng.below(2))      # blank line(s) inside the group
            out.append(b"STACK CFI" + S() + h64() + S() + rng.choice([b".cfa: $rsp 16 +", b"$rbx: .cfa -16 + ^", name()]))
        return out
    if kind == "MODULE":
        return [b"MODULE" + S() + rng.choice([b"Linux", b"windows", b"mac", b"", b"\xc3\xa9"]) + S()
                + rng.choice([b"x86_64", b"x86", b"arm64"]) + S()
                + pick(rng, ["D3096ED481217FD4C16B29CD9BC208BA0", "0", "abc"], ["", "xyz", "12 34"], pbad).encode() + S()
                + rng.choice([b"firefox-bin", b"a b c.pdb", name()])]
    if kind == "JUNK":
        return [rng.choice([b"STACK CFI 1000 .cfa: $rsp", b"FOO bar", b"INLINE 0 1 2 3 10 20", b"1000 10 42 7", b"STACK", b"FUNC", b"FILE",
                            b"PUBLIC", b"MODULE", b"INFO", b"INFOx y", b"STACK WINx", b"\r", b"\r\r", b" ", b"\x00", b"\xff\xfe"])]
    raise ValueError(kind)


KINDS = ["INFO", "URL", "FILE", "ORIGIN", "PUBLIC", "WIN", "FUNC", "CFI"]


def gen_lines(rng, nrec, pbad=0, junk=0):
    lines = []
    if not rng.chance(junk, 100):
        lines += gen_record(rng, "MODULE", pbad)
    for _ in range(nrec):
        if rng.chance(junk, 100):
            k = rng.choice(["JUNK", "MODULE"])
        else:
            k = rng.choice(KINDS)
        lines += gen_record(rng, k, pbad)
    return lines


def join(rng, lines, eol_mode=0, final_nl=True):
    """eol_mode 0: \\n; 1: \\r\\n; 2: mixed \\n / \\r\\n / \\r\\r\\n"""
    out = bytearray()
    for i, l in enumerate(lines):
        out += l
        last = i == len(lines) - 1
        if last and not final_nl:
            break
        if eol_mode == 0:
            out += b"\n"
        elif eol_mode == 1:
            out += b"\r\n"
        else:
            out += rng.choice([b"\n", b"\r\n", b"\r\r\n"])
    return bytes(out)


def corrupt(rng, data, n=1):
    b = bytearray(data)
    for _ in range(n):
        if not b:
            b.append(rng.below(256))
            continue
        i = rng.below(len(b))
        r = rng.below(6)
        if r == 0:
            b[i] = rng.below(256)
        elif r == 1:
            b[i] = rng.choice([10, 13, 32, 9, 0, 255, 48, 102, 103])
        elif r == 2:
            del b[i]
        elif r == 3:
            b.insert(i, rng.choice([10, 13, 32, 48, 128, 255]))
        elif r == 4:
            b[i] ^= 1 << rng.below(8)
        else:
            j = min(len(b), i + 1 + rng.below(8))
            del b[i:j]
    return bytes(b)


def long_line(rng, content_len):
    """a line of exactly content_len bytes (without '\\n'), valid or not"""
    style = rng.below(7)
    if style == 0:
        head = b"FILE 7 "
    elif style == 1:
        head = b"INFO "
    elif style == 2:
        head = b"PUBLIC 10 0 "
    elif style == 3:
        head = b"FUNC 1000 10 0 "
    elif style == 4:
        head = b"STACK CFI INIT 2000 10 "
    elif style == 5:
        head = b""              # garbage
    else:
        head = b"FILE 8"        # long run of separators
        if content_len > len(head) + 2:
            return head + b" " * (content_len - len(head) - 1) + b"x"
    fillb = rng.choice([b"a", b"a", b"Z", b"1", b"\xc3\xa9", b"\x80"])
    if len(fillb) > 1 and content_len > 3000:
        fillb = b"q"            # keep the case line short: long fillers must be runs of one byte
    if content_len <= len(head):
        return (head + b"x" * content_len)[:content_len]
    body = (fillb * (content_len // len(fillb) + 1))[: content_len - len(head)]
    if fillb == b"\xc3\xa9" and len(body) % 2 == 1:
        body = body[:-1] + b"a"
    return head + body


def around(rng, t, spread=3):
    return max(0, t + rng.range(-spread, spread))


def sched_random(rng, total, style=None):
    """a schedule (list of tokens) for an input of `total` bytes"""
    style = rng.below(8) if style is None else style
    if style == 0:
        return []
    if style == 1:
        c = rng.choice([1000, 4096, 65536, 10239, 10240, 10241, 5120, 5121, 20480, 40960, 81920, 81921, 163840, 163841, 7, 100])
        if total // c > 4000:      # every read re-scans the buffer: keep tiny chunks for small inputs
            c = 4096
        return ["%d*%d" % (c, total // c + 2)]
    toks, left = [], total
    n = 0
    while left > 0 and n < 400:
        if style in (2, 3):
            c = around(rng, rng.choice(THRESH + [2560, 5119, 15360, 30720, 61440, 122880]), 5)
        elif style == 4:
            c = 1 + rng.below(64)
        elif style == 5:
            c = 1 + rng.below(20000)
        else:
            c = rng.choice([1, 2, 13, 1000, 4096, 10240, 65536, 200000])
        c = max(1, c)
        toks.append(str(c))
        left -= c
        n += 1
    return toks


# --------------------------------------------------------------------------- answers
def fields(ans):
    """'R=..;cb=..;;cbok=..' -> dict"""
    d = {}
    for part in ans.split(";"):
        if "=" in part:
            k, v = part.split("=", 1)
            d[k] = v
    return d


def model_part(ans):
    return ans.split(";;", 1)[0]


RECORD_KINDS = ["MODULE", "INFO_CODE_ID", "INFO_URL", "INFO_other", "FILE", "INLINE_ORIGIN", "FUNC", "FUNC_m", "line_record", "INLINE",
                "PUBLIC", "PUBLIC_m", "STACK_CFI_INIT", "STACK_CFI", "STACK_WIN", "blank", "other", "unterminated"]
RESULTS = ["OK", "E1", "E2", "E3", "E4"]
TRANSITIONS = ["grow", "grow_to_160K", "shift", "discard", "recovered", "recovered_twice", "zero_read", "full_buffer_read",
               "eof_partial_line", "eof_after_recovery", "eof_in_discard"]


def feature_distribution(model_ans):
    """What the generated cases exercise, measured on the model's run of each case (the model run is compared with the
    implementation event by event, so its trajectory is the implementation's): number of cases per record kind present,
    per result / error branch, per kind of rejected line, per buffer transition.  -> (dict, list of holes)"""
    d = {}

    def inc(k):
        d[k] = d.get(k, 0) + 1

    n = 0
    for a in model_ans or []:
        if not a:
            continue
        f = fields(a)
        if "X" not in f:
            continue
        n += 1
        for k in f.get("K", "").split(","):
            if k:
                inc("record_kind:" + k)
        r = f["R"].split(":")[0]
        inc("result:" + r)
        if f.get("EK", "-") != "-":
            inc("rejected_line:%s:%s" % (r, f["EK"]))
        g, sh, di, rec, z, fu = [int(x) for x in f["X"].split(",")]
        dropped = int(f.get("dropped", "0"))
        if g:
            inc("buffer:grow")
        if f.get("cap") == str(MAXCAP):
            inc("buffer:grow_to_160K")
        if sh:
            inc("buffer:shift")
        if di:
            inc("buffer:discard")
        if rec:
            inc("buffer:recovered")
        if rec >= 2:
            inc("buffer:recovered_twice")
        if z:
            inc("buffer:zero_read")
        if fu:
            inc("buffer:full_buffer_read")
        if r == "E4":
            inc("buffer:eof_partial_line")
        if rec and r == "OK":
            inc("buffer:eof_after_recovery")
        if di and not rec and dropped == 0:
            inc("buffer:eof_in_discard")
    holes = (["record_kind:" + k for k in RECORD_KINDS if ("record_kind:" + k) not in d] +
             ["result:" + k for k in RESULTS if ("result:" + k) not in d] +
             ["buffer:" + k for k in TRANSITIONS if ("buffer:" + k) not in d] +
             ["rejected_line:E1:" + k for k in RECORD_KINDS if k not in ("blank", "unterminated") and ("rejected_line:E1:" + k) not in d])
    d["measured_cases"] = n
    return dict(sorted(d.items())), holes


TRUSTED = [
    "Coq 8.16.1 kernel (vm_compute only in the non-vacuity Examples)",
    "driver model C09/Model.v written by hand from SymbolFile::parse (mod.rs) and circular 0.3.0; line recogniser C09/Grammar.v "
    "with record payloads and finish()/finish_item written by hand from parser.rs / types.rs / nom 7.1.3 (range maps: C08/Model.v, record "
    "types: C11/Model.v); tied to the code by the correspondence run (full symbol table text; every read() as (space offered, bytes returned) and "
    "every callback slice length, as an event hash) and, for the loop of parse / parse_async and circular's index arithmetic, by "
    "translate/symfile_loop.py + C09/Pins.v (conditions and flag assignments regenerated from the source, statement skeleton matched)",
    "circular::Buffer's contents are not modelled: data() is taken to be the input window that starts at total_consumed "
    "(FIFO contract); the harness checks the callback bytes against the input on every case",
    "extraction: ExtrOcamlBasic only; ocaml/zconv.ml + ocaml/c09|c10/main.ml; harness/src/symcase.rs (ChunkReader)",
    "u64/usize counters (total_consumed, parser.lines) are unbounded Z in the model; c09_counters_fit_u64 proves them <= |input| at every "
    "loop head, so for inputs of fewer than 2^64 bytes no addition overflows in either profile",
    "translate/symfile_loop.py: regex/brace-matching translator (template with holes for the conditions; a small Rust-expression parser); "
    "the circular crate is read from the cargo registry at the version and checksum Cargo.lock pins",
]


# --------------------------------------------------------------------------- numeric boundaries, exhaustively
TEMPLATES = [
    "FILE {d} name", "INLINE_ORIGIN {d} name", "PUBLIC {h64} {h32} name", "PUBLIC m {h64} {h32} name",
    "FUNC {h64} {h32} {h32} name", "FUNC m {h64} {h32} {h32} name",
    "STACK WIN 4 {h64} {h32} {h32} {h32} {h32} {h32} {h32} {h32} 1 $eip 4 + ^ =",
    "STACK WIN 0 {h64} {h32} {h32} {h32} {h32} {h32} {h32} {h32} 0 1",
    "STACK CFI INIT {h64} {h32} .cfa: $rsp 8 +",
    "FUNC 1 1 0 f\n{h64} {h32} {d} {d}",
    "FUNC 1 1 0 f\nINLINE {d} {d} {d} {d} {h64} {h32}",
    "FUNC 1 1 0 f\nINLINE 0 1 2 3 10 20 {h64} {h32}",
    "FUNC 1 1 0 f\nINLINE_ORIGIN {d} g",
    "STACK CFI INIT 1 1 r\nSTACK CFI {h64} .cfa: $rsp 16 +",
]
BOUND = {
    "d": ["0", "4294967295", "4294967296", "9999999999", "0000000000", "00000000001", "12345678901", "99999999999", "", "f"],
    "h32": ["0", "ffffffff", "FFFFFFFF", "100000000", "000000000", "fffffffff", "00000000", "", "g"],
    "h64": ["0", "ffffffffffffffff", "10000000000000000", "00000000000000000", "fffffffffffffffff", "0000000000000000", "", "g"],
}


def field_valid(kind, v):
    """is v a well-formed value of a numeric field of the Breakpad format? d: decimal, fits u32 (at most 10 digits);
    h32 / h64: 1..8 / 1..16 hex digits.  (The expectation comes from the format, not from the implementation.)"""
    if kind == "d":
        return bool(re.fullmatch(r"[0-9]{1,10}", v)) and int(v) <= 0xFFFFFFFF
    return bool(re.fullmatch(r"[0-9a-fA-F]{1,%d}" % (8 if kind == "h32" else 16), v))


def boundary_files_tagged():
    """(file, 'ok' | 'bad'): 'ok' = every record is well formed (the parse must succeed), 'bad' = one numeric field is
    malformed or out of range (the parse must fail)"""
    out = []
    for t in TEMPLATES:
        parts = re.split(r"(\{d\}|\{h32\}|\{h64\})", t)
        slots = [i for i, p in enumerate(parts) if p.startswith("{")]
        for si in slots:
            kind = parts[si][1:-1]
            for v in BOUND[kind]:
                ps = [("1" if (p.startswith("{") and i != si) else (v if i == si else p)) for i, p in enumerate(parts)]
                out.append((("MODULE Linux x86 ABC name\n" + "".join(ps) + "\nFILE 5 after\n").encode(),
                            "ok" if field_valid(kind, v) else "bad"))
    return out


CR_LINES = [b"INFO CODE_ID ABC\rDEF", b"INFO URL http://x\ry", b"INFO GENERATOR x\ry", b"FILE 1 a\rb", b"INLINE_ORIGIN 1 a\rb",
            b"PUBLIC 10 0 a\rb", b"PUBLIC m 10 0 a\rb", b"FUNC 10 4 0 a\rb", b"FUNC m 10 4 0 a\rb", b"FUNC 10 4 0 f\n10 4 1\r 1",
            b"FUNC 10 4 0 f\nINLINE 0 1 1 1 10\r 4", b"STACK CFI INIT 10 4 .cfa:\r $esp", b"STACK CFI INIT 10 4 r\nSTACK CFI 12 .cfa:\r x",
            b"STACK WIN 4 10 4 0 0 0 0 0 0 1 $eip\r =", b"STACK WIN 0 10 4 0 0 0 0 0 0 0 1\r1", b"MODULE Linux x86 AB\rC name"]


def cr_inside_files():
    """(file, offset of the CR): a carriage return that is not part of the line ending, inside every record kind"""
    out = []
    for l in CR_LINES:
        if l.startswith(b"MODULE"):
            data = l + b"\nFILE 5 after\n"
        else:
            data = b"MODULE Linux x86 ABC name\n" + l + b"\nFILE 5 after\n"
        out.append((data, data.index(b"\r")))
    return out


def boundary_files():
    """every numeric field of every record kind at every boundary value, the other fields being 1"""
    out = []
    for t in TEMPLATES:
        parts = re.split(r"(\{d\}|\{h32\}|\{h64\})", t)
        slots = [i for i, p in enumerate(parts) if p.startswith("{")]
        for si in slots:
            kind = parts[si][1:-1]
            for v in BOUND[kind]:
                ps = [("1" if (p.startswith("{") and i != si) else (v if i == si else p)) for i, p in enumerate(parts)]
                out.append(("MODULE Linux x86 ABC name\n" + "".join(ps) + "\nFILE 5 after\n").encode())
    return out


# --------------------------------------------------------------------------- blank lines in and between groups
def blank_group_files():
    """(data, offsets of interest): blank lines (LF / CRLF / CRCRLF, runs of 1..3) after a FUNC header, after a line
    record, after STACK CFI INIT, after a STACK CFI delta, and between top-level records"""
    out = []
    body = [b"FUNC 1000 10 0 f", b"1000 4 1 1", b"1004 4 2 1", b"STACK CFI INIT 1000 10 .cfa: $esp 4 +",
            b"STACK CFI 1004 .cfa: $esp 8 +", b"STACK CFI 1008 .cfa: $esp 12 +", b"FILE 1 a.c", b"PUBLIC 2000 0 g"]
    for eol in (b"\n", b"\r\n", b"\r\r\n"):
        for pos in range(len(body)):
            for run in (1, 2, 3):
                data = bytearray(b"MODULE Linux x86 ABC name" + eol)
                marks = []
                for i, l in enumerate(body):
                    data += l + eol
                    if i == pos:
                        marks.append(len(data))
                        data += eol * run
                        marks.append(len(data))
                out.append((bytes(data), marks))
    return out


def sched_line_starts(data, group=1):
    """every read ends exactly at a line end (group lines per read): each line starts at a chunk boundary"""
    toks, cur, k = [], 0, 0
    for i, b in enumerate(data):
        cur += 1
        if b == 10:
            k += 1
            if k % group == 0:
                toks.append(str(cur))
                cur = 0
    if cur:
        toks.append(str(cur))
    return toks


# --------------------------------------------------------------------------- round 3
def text_pool():
    """free-text values with multi-byte UTF-8 characters at every offset class around 64 / 256 / 4096 bytes, so that
    any fixed byte cut lands inside a character for some of them; plus plain ASCII of the same lengths"""
    out = []
    for target in (64, 256, 4096):
        for ch in ("é", "€", "\U0001F600"):          # 2, 3, 4 bytes
            w = len(ch.encode())
            for off in range(w):
                n = (target + 8 - off) // w + 1
                out.append(b"a" * off + (ch * n).encode())
        out.append(b"x" * (target + 3))
    out.append("é".encode() * 40 + b" tail with spaces ")
    return out


FREE_TEXT_TEMPLATES = [
    "MODULE Linux x86 ABC {t}", "INFO URL {t}", "INFO CODE_ID {t}", "FILE 1 {t}", "INLINE_ORIGIN 2 {t}",
    "PUBLIC 1000 0 {t}", "PUBLIC m 1000 0 {t}", "FUNC 1000 10 0 {t}", "FUNC m 1000 10 0 {t}",
    "STACK CFI INIT 1000 10 {t}", "STACK CFI INIT 1000 10 .cfa: $esp 4 +\nSTACK CFI 1004 {t}",
    "FUNC 1000 10 0 f\nINLINE_ORIGIN 3 {t}",
    # STACK WIN: consistent, and the tolerated-but-discarded combinations of type and has_program_string
    "STACK WIN 4 1000 10 0 0 0 0 0 0 1 {t}", "STACK WIN 0 1000 10 0 0 0 0 0 0 0 {t}",
    "STACK WIN 4 1000 10 0 0 0 0 0 0 0 {t}", "STACK WIN 0 1000 10 0 0 0 0 0 0 1 {t}",
    "STACK WIN 1 1000 10 0 0 0 0 0 0 1 {t}", "STACK WIN a 1000 10 0 0 0 0 0 0 0 {t}",
    "STACK WIN 4 1000 0 0 0 0 0 0 0 1 {t}", "STACK WIN 0 ffffffffffffffff 10 0 0 0 0 0 0 0 {t}",
]


def free_text_files():
    """every free-text field of every record kind (and every tolerated-malformed STACK WIN shape) x the text pool"""
    out = []
    pool = text_pool()
    for t in FREE_TEXT_TEMPLATES:
        for txt in pool:
            body = t.encode().replace(b"{t}", txt)
            if t.startswith("MODULE"):
                out.append(body + b"\nFILE 5 after\n")
            else:
                out.append(b"MODULE Linux x86 ABC name\n" + body + b"\nFILE 5 after\n")
    return out


def _pad_lines(total):
    """complete FILE lines adding up to exactly `total` bytes (total >= 12)"""
    out, left, i = [], total, 0
    while left > 0:
        n = 1000 if left >= 1012 else left        # a line of n bytes: "FILE <i> " + filler + "\n"
        if 0 < left - n < 12:
            n = left - 12
        head = b"FILE %d " % (i % 10)
        out.append(head + b"p" * (n - len(head) - 1))
        left -= n
        i += 1
    return out


def aligned_files():
    """(data, schedule, label): the complete lines at the front of a full buffer window end exactly at capacity/2
    (and 1 byte before / after it), followed by a line that does not fit the rest of the window. Every line is a valid
    record, so the expected result is Ok (over-long lines are dropped, they are never the first line)."""
    out = []
    mod = b"MODULE Linux x86 ABC name"                      # 26 bytes with its '\n'
    for cap in (10240, 20480, 40960, 81920, 163840):
        half = cap // 2
        # bring the buffer to capacity `cap` and empty it: a line A that needs exactly that capacity
        if cap == 10240:
            pre_lines, sched, used = [mod], [], 26
        else:
            reads = [10214]
            c = 10240
            while c * 2 < cap:
                reads.append(c * 2 - sum(reads) if len(reads) == 1 else c)
                c *= 2
            la = sum(reads) + 1000
            a = b"FILE 3 " + b"A" * (la - 8)
            pre_lines, sched, used = [mod, a], ["26"] + [str(r) for r in reads] + ["1000"], 0
        for delta in (-1, 0, 1):
            for longc in (6000, 71680, 200000, 1 << 20):
                if longc + 1 <= cap - (half + delta - used):
                    longc = cap          # must not fit the rest of the window
                front = _pad_lines(half + delta - used)
                lines = pre_lines + front + [b"FILE 7 " + b"L" * (longc - 7), b"FILE 9 z"]
                data = b"\n".join(lines) + b"\n"
                out.append((data, sched, "cap%d%+d" % (cap, delta)))
    # the first window (capacity 10240, nothing scripted, so the alignment does not depend on how the code under test
    # grows its buffer): more lengths of the line that does not fit, and the prefix delivered in one, two or three reads
    for delta in (-1, 0, 1):
        front = _pad_lines(5120 + delta - 26)
        for longc in (5121, 6000, 8000, 10239, 20000, 40000, 71680, 81919, 163840, 200000, 1 << 20):
            lines = [mod] + front + [b"PUBLIC 10 0 " + b"L" * (longc - 12), b"FILE 9 z"]
            data = b"\n".join(lines) + b"\n"
            for sched in ([], ["26"], ["26", str(len(front[0]) + 1)]):
                out.append((data, sched, "first%+d" % delta))
    return out


def module_again_files():
    """a second MODULE record at every position of a small file with every record kind (after each record, inside
    the FUNC and CFI groups, after leading blank lines, two .sym files concatenated)"""
    base = [b"MODULE Linux x86 ABC name", b"INFO CODE_ID 1 n", b"FILE 1 a.c", b"PUBLIC 10 0 p", b"FUNC 20 8 0 f", b"20 4 1 1",
            b"INLINE 0 1 1 1 20 4", b"24 4 2 1", b"STACK WIN 4 20 8 0 0 0 0 0 0 1 $eip", b"STACK CFI INIT 20 8 .cfa: $esp",
            b"STACK CFI 24 .cfa: $esp 4 +", b"INLINE_ORIGIN 1 g"]
    out = []
    m2 = b"MODULE mac arm64 DEF other"
    for pos in range(1, len(base) + 1):
        out.append(b"\n".join(base[:pos] + [m2] + base[pos:]) + b"\n")
    out.append(b"\n" + b"\n".join(base) + b"\n")               # MODULE after a leading blank line
    out.append(b"\r\n\r\n" + b"\r\n".join(base) + b"\r\n")
    out.append(b"\n".join(base + base) + b"\n")                # two files concatenated
    out.append(b"\n".join([base[0], base[0]] + base[1:]) + b"\n")   # duplicated first line
    return out


def orphan_files(rng, n):
    """the over-long line is the header of a group (FUNC / STACK CFI INIT) that has sub-lines, and the record in front
    of it is of another kind: every other line is a valid record"""
    out = []
    for i in range(n):
        pre = rng.choice([[b"FILE 1 a.c"], [b"PUBLIC 10 0 p"], [b"INFO x"], [b"STACK CFI INIT 20 8 .cfa: $esp", b"STACK CFI 24 .cfa: $esp 4 +"]])
        big = 163840 + rng.choice([0, 1, 1000, 200000])
        if rng.chance(1, 2) and pre[0][:9] != b"STACK CFI":
            grp = [b"FUNC 1000 10 0 " + b"N" * (big - 15), b"1000 4 1 1"] + [b"1004 4 2 1"] * rng.below(3)
        else:
            pre = [b"FILE 1 a.c"] if pre[0][:9] == b"STACK CFI" else pre
            grp = [b"STACK CFI INIT 1000 10 " + b"R" * (big - 23), b"STACK CFI 1004 .cfa: $esp 8 +"]
        data = b"\n".join([b"MODULE Linux x86 ABC name"] + pre + grp + [b"FILE 9 z"]) + b"\n"
        out.append(data)
    return out


def record_features(prop, ctx):
    """put the measured distribution into the evidence (input_distribution.features / .holes)"""
    if ctx.get("replay") or not ctx.get("model"):
        return
    feats, holes = feature_distribution(ctx["model"])
    dist = getattr(prop, "_dist", None)
    if dist is not None:
        dist["features"] = feats
        dist["holes"] = holes
