"""C02 — parsed streams reproduce exactly what the dump encodes, in either byte order.

Two-stage check: gen_cases() builds dump models, has the *extracted Coq serializer* (encode_dump)
turn each into bytes, and emits case lines `<hex> <S|N> <model tokens>`.  The model driver then
runs the extracted decode_dump on those bytes, the harness runs Minidump::read + get_stream on the
same bytes; answers are diffed by the runner.  The oracle recomputes, in Python and independently
of the Coq model, what reading must return for the model in the case line and compares it with the
implementation's answer (and, for `S` cases, with what the implementation reads from the same model
written by minidump-synth).  extra() compares the little- and big-endian renderings of one model."""
import os
import subprocess

import vlib
from runner import PropBase
from vlib import Rng

U64 = (1 << 64) - 1
U32 = (1 << 32) - 1
ST = {"sys": 7, "thr": 3, "mod": 4, "mem": 5, "m64": 9, "exc": 6, "tnm": 24, "unl": 14, "mi": 16, "misc": 15,
      "bp": 0x47670001, "asr": 0x47670002, "ti": 17, "lxcpu": 0x47670003, "lxstatus": 0x47670004, "lxlsb": 0x47670005,
      "lxenv": 0x47670007, "lxmaps": 0x47670009, "lxlim": 0x4d7a0003, "hnd": 12}
CV_PDB70, CV_PDB20, CV_ELF = 0x53445352, 0x3031424e, 0x4270454c
VS_SIG, VS_VER = 0xfeef04bd, 0x00010000
MISC_NINTS = {1: 6, 2: 11, 3: 15 + (1 + 32 + 8 + 1 + 32 + 8 + 1), 4: 15 + 83 + 300, 5: 15 + 83 + 300 + 3 + 128 + 1}
MISC_SIGNED = {3: {15, 15 + 41, 15 + 82}}
SECTIONS = ["hdr", "sys", "thr", "mod", "mem", "memq", "m64", "m64q", "exc", "tnm", "unl", "mi", "misc",
            "bp", "asr", "ti", "lxcpu", "lxstatus", "lxlsb", "lxenv", "lxmaps", "lxlim", "hnd", "dir", "unk", "serr", "boot", "cpad", "hinfo", "unimp", "mci"]
RAW_KEYS = ["lxcpu", "lxstatus", "lxlsb", "lxenv", "lxmaps", "lxlim"]
KV_SEP = {"lxcpu": b":", "lxstatus": b":", "lxlsb": b"=", "lxenv": b"="}


# every stream-type number with a name (minidumpapiset.h 0..24, Windows CE 0x8000..0x800c, LastReservedStream,
# Breakpad 0x47670001..a, Crashpad 0x43500001, Mozilla 0x4d7a0001..4): written down here independently of format.rs
NAMED = set(range(0, 25)) | set(range(0x8000, 0x800d)) | {0xffff} | set(range(0x47670001, 0x4767000b)) | {0x43500001} | set(range(0x4d7a0001, 0x4d7a0005))
# named, but no typed reader is exercised by this check (raw access only)
NAMED_RAW_ONLY = [0, 0, 1, 2, 8, 10, 10, 11, 13, 18, 19, 20, 21, 22, 23, 0x8000, 0x8001, 0x8005, 0x800c, 0xffff, 0x47670006, 0x47670008, 0x4767000a]
UNKNOWN_TYPES = [0x4d7a0b0b, 0x4d7a0b0b, 0x4d7a0005, 0x4d7a0000, 0x47670000, 0x4767000b, 0x4767ffff, 0x43500002, 0x43500000, 25, 26, 0x7fff, 0x800d,
                 0x10000, 0x10001, 0xfffffffe, 0xffffffff, 0x80000000, 0x12345678]


# stream types some typed reader (`impl MinidumpStream`) serves, written down here independently of minidump.rs; every other NAMED
# type is what unimplemented_streams() must list
WITH_READER = {3, 4, 5, 6, 7, 9, 12, 14, 15, 16, 17, 24, 0x47670001, 0x47670002, 0x47670003, 0x47670004, 0x47670005, 0x47670007, 0x47670009,
               0x43500001, 0x4d7a0001, 0x4d7a0002, 0x4d7a0003, 0x4d7a0004}


def stream_vendor(ty):
    if ty <= 0xffff:
        return 0
    return {0x47670000: 1, 0x4d7a0000: 2}.get(ty & 0xffff0000, 3)


def expected_dir(h, big):
    """the directory as a whole, recomputed from the bytes of the case: one entry per type (ascending), the LAST of the
    type (index, size, rva), its bytes when the location lies within the file; the entries of unnamed types"""
    b = bytes.fromhex(h)
    last = {}
    for i, (ty, size, rva) in enumerate(dir_entries(h, big)):
        last[ty] = (i, size, rva)
    items, unk, unimp = [], [], []
    for ty in sorted(last):
        i, size, rva = last[ty]
        it = [ty, i, size, rva]
        it += ([2] + blob4(b[rva:rva + size])) if rva + size <= len(b) else [1]
        items.append(it)
        if ty not in NAMED:
            unk.append([ty, size, rva, stream_vendor(ty)])
        elif ty not in WITH_READER:
            unimp.append([ty, size, rva, stream_vendor(ty)])
    return {"dir": (2, items), "unk": (2, unk), "unimp": (2, unimp)}


# ----------------------------------------------------------------------------- round 4 streams (written by the plugin itself)
# MozSoftErrors / MozMacosBootargsStream / CrashpadInfoStream are serialized HERE, in the documented format, appended to the
# Coq-serialized dump and announced by (leading) directory entries.  The extracted Coq serializers enc_bootargs / enc_crashpad
# must produce the same bytes (checked in gen_cases), the extracted readers and the real readers read them back.
T_SERR, T_BOOT, T_CPAD = 0x4d7a0004, 0x4d7a0002, 0x43500001
T_MCI = 0x4d7a0001
TAIL_TYPE = {1: T_SERR, 2: T_BOOT, 3: T_CPAD, 4: 12, 5: T_MCI}
TAIL_SEC = {1: "serr", 2: "boot", 3: "cpad", 4: "hnd", 5: "mci"}


def _u(n, v, big):
    return int(v).to_bytes(n, "big" if big else "little")


NUL_AT = []       # file offsets of the NUL terminators written by the last ser_crashpad (for the "missing NUL" cases)


def utf8z(s, big, at=None):
    if at is not None:
        NUL_AT.append(at + 4 + len(s))
    return _u(4, len(s), big) + bytes(s) + b"\0"


def ser_counted(items, esize, entry, off, big):
    """u32 count, the fixed-size entries, then each entry's out-of-line data in order -> (size of the list proper, bytes)"""
    ssize = 4 + len(items) * esize
    ents, aux = b"", b""
    for it in items:
        e, a = entry(it, off + ssize + len(aux))
        assert len(e) == esize
        ents += e
        aux += a
    return ssize, _u(4, len(items), big) + ents + aux


def ser_dict(kvs, off, big):
    return ser_counted(kvs, 8, lambda kv, o: (_u(4, o, big) + _u(4, o + 5 + len(kv[0]), big), utf8z(kv[0], big, o) + utf8z(kv[1], big, o + 5 + len(kv[0]))), off, big)


def ser_strlist(l, off, big):
    return ser_counted(l, 4, lambda x, o: (_u(4, o, big), utf8z(x, big, o)), off, big)


def ser_annots(l, off, big):
    def entry(a, o):
        name, ty, rs, val = a
        if isinstance(val, bytes):
            return (_u(4, o, big) + _u(2, ty, big) + _u(2, rs, big) + _u(4, o + 5 + len(name), big), utf8z(name, big, o) + _u(4, len(val), big) + val)
        return (_u(4, o, big) + _u(2, ty, big) + _u(2, rs, big) + _u(4, val, big), utf8z(name, big, o))
    return ser_counted(l, 12, entry, off, big)


def ser_cmodule(cm, off, big):
    o1 = off + 28
    z1, b1 = ser_strlist(cm["list"], o1, big)
    o2 = o1 + len(b1)
    z2, b2 = ser_dict(cm["simple"], o2, big)
    o3 = o2 + len(b2)
    z3, b3 = ser_annots(cm["objs"], o3, big)
    return _u(4, cm["ver"], big) + b"".join(_u(4, x, big) for x in (z1, o1, z2, o2, z3, o3)) + b1 + b2 + b3


def ser_guid(g, big):
    return _u(4, g[0], big) + _u(2, g[1], big) + _u(2, g[2], big) + bytes(g[3:11])


def ser_crashpad(c, off, big):
    o1 = off + 52
    z1, b1 = ser_dict(c["simple"], o1, big)
    o2 = o1 + len(b1)
    z2, b2 = ser_counted(c["mods"], 12, lambda cm, o: (_u(4, cm["idx"], big) + _u(4, 28, big) + _u(4, o, big), ser_cmodule(cm, o, big)), o2, big)
    return 52, _u(4, c["ver"], big) + ser_guid(c["report"], big) + ser_guid(c["client"], big) + _u(4, z1, big) + _u(4, o1, big) + _u(4, z2, big) + _u(4, o2, big) + b1 + b2


def ser_bootargs(x, off, big):
    ty, args = x
    if args is None:
        return 12, _u(4, ty, big) + _u(8, U32, big)
    return 12, _u(4, ty, big) + _u(8, off + 12, big) + _u(4, 2 * len(args), big) + b"".join(_u(2, c, big) for c in args)


def ser_handles(x, off, big):
    """handle data stream whose 40-byte descriptors carry object-information chains; the records of a chain are stored in
    the order given by the handle's permutation (chain order, last record first, scattered)"""
    esize = 40 if x["v2"] else 32
    hs = x["handles"]
    ssize = 16 + len(hs) * esize
    ents, aux = b"", b""
    for h in hs:
        o = off + ssize + len(aux)
        a = b""
        trva = orva = irva = 0
        if h["type"] is not None:
            trva = o + len(a)
            a += _u(4, 2 * len(h["type"]), big) + b"".join(_u(2, c, big) for c in h["type"])
        if h["obj"] is not None:
            orva = o + len(a)
            a += _u(4, 2 * len(h["obj"]), big) + b"".join(_u(2, c, big) for c in h["obj"])
        n = len(h["infos"])
        if n and x["v2"]:
            base = o + len(a)
            recs = [b""] * n
            for k, (ty, size) in enumerate(h["infos"]):
                nxt = base + 12 * h["perm"][k + 1] if k + 1 < n else 0
                recs[h["perm"][k]] = _u(4, nxt, big) + _u(4, ty, big) + _u(4, size, big)
            irva = base + 12 * h["perm"][0]
            a += b"".join(recs)
        e = _u(8, h["h"], big) + _u(4, trva, big) + _u(4, orva, big) + b"".join(_u(4, v, big) for v in h["ints"])
        if x["v2"]:
            e += _u(4, irva, big) + _u(4, 0, big)
        ents += e
        aux += a
    return ssize, _u(4, 16, big) + _u(4, esize, big) + _u(4, len(hs), big) + _u(4, 0, big) + ents + aux


def mci_fixed(ver):
    """documented variants of the Mac crash info record: (number of u64 fields, number of C strings) by version"""
    return (5, 5) if ver >= 5 else (4, 5) if ver >= 4 else (2, 0) if ver >= 1 else None


def ser_mci_record(r, big):
    b = b"".join(_u(8, v, big) for v in r["ints"]) + bytes(r["gap"])
    for k, z in enumerate(r["strings"]):
        b += bytes(z) + (b"" if (r["nonul"] and k == len(r["strings"]) - 1) else b"\0")
    return b + bytes(r["trail"])


def ser_maccrash(x, off, big):
    """MINIDUMP_MAC_CRASH_INFO: stream type, record count, record_start_size, 20 location descriptors; the records follow the
    header in the storage order x["perm"] (any order), location i points at record i"""
    recs = [ser_mci_record(r, big) for r in x["recs"]]
    at = {}
    o = off + 172
    body = b""
    for k in x["perm"]:
        at[k] = o
        body += recs[k]
        o += len(recs[k])
    locs = []
    for k, r in enumerate(x["recs"]):
        locs.append((U32, U32 - 7) if r["oob"] else (len(recs[k]), at[k]))
    locs += [tuple(f) for f in x["fill"]]
    assert len(locs) == 20
    return 172, _u(4, x["stype"], big) + _u(4, x["count"], big) + _u(4, x["start"], big) + b"".join(_u(4, a, big) + _u(4, b2, big) for a, b2 in locs) + body


def mci_expect(x):
    """the documented reading of the stream: the first `count` records in header order, each with the fields and strings of
    the variant its version selects; None = outside what the property fixes (only model and implementation are compared)"""
    n = len(x["recs"])
    if x["count"] != n:
        return None
    vers = set(r["ints"][1] for r in x["recs"])
    if len(vers) > 1:
        return (1, [])                       # records of different versions cannot share record_start_size
    if any(r["oob"] for r in x["recs"]):
        return (1, [])
    items = []
    for r in x["recs"]:
        ver = r["ints"][1]
        fx = mci_fixed(ver)
        if fx is None:
            return None                      # version 0
        nf, ns = fx
        if len(r["ints"]) != nf or len(r["strings"]) != ns:
            return None
        if x["start"] < 8 * nf:
            return (1, [])
        if ns:
            if x["start"] != 8 * nf + len(r["gap"]) or any(0 in z for z in r["strings"]) or (r["nonul"] and 0 in r["trail"]):
                return None
            if r["nonul"] or not all(is_utf8(z) for z in r["strings"]):
                return (1, [])               # a string that is not UTF-8 / has no terminator inside the record
        it = [nf] + list(r["ints"]) + [ns]
        for z in r["strings"]:
            it += bl(z)
        acc = [(r["ints"][k] if k < nf and r["ints"][k] != 0 else -1) for k in (1, 2, 3, 4)]
        sacc = [(len(r["strings"][k]) if k < ns and len(r["strings"][k]) else -1) for k in range(5)]
        items.append(it + acc + sacc)
    return (2, items)


def ser_tail(kind, x, off, big, corrupt=True):
    if kind == 5:
        return ser_maccrash(x, off, big)
    if kind == 1:
        return len(x), bytes(x)
    if kind == 2:
        return ser_bootargs(x, off, big)
    if kind == 4:
        return ser_handles(x, off, big)
    del NUL_AT[:]
    z, b = ser_crashpad(x, off, big)
    k = x.get("nonul", -1)
    if corrupt and k >= 0 and NUL_AT:           # one string loses its terminator: the reader must refuse the stream
        b = bytearray(b)
        b[NUL_AT[k % len(NUL_AT)] - off] = 0x41
        b = bytes(b)
    return z, b


def has_strings(c):
    return bool(c["simple"]) or any(cm["list"] or cm["simple"] or cm["objs"] for cm in c["mods"])


def bstr_toks(b):
    return [len(b)] + list(b)


def tail_toks(kind, x):
    if kind == 1:
        return bstr_toks(x)
    if kind == 5:
        t = [x["stype"], x["count"], x["start"], len(x["recs"])]
        for r in x["recs"]:
            t += [len(r["ints"])] + list(r["ints"]) + bstr_toks(r["gap"]) + [len(r["strings"])]
            for z in r["strings"]:
                t += bstr_toks(z)
            t += bstr_toks(r["trail"]) + [r["nonul"], r["oob"]]
        t += list(x["perm"])
        for f in x["fill"]:
            t += list(f)
        return t
    if kind == 4:
        t = [x["v2"], len(x["handles"])]
        for h in x["handles"]:
            t += [h["h"]] + ([-1] if h["type"] is None else str_toks(h["type"])) + ([-1] if h["obj"] is None else str_toks(h["obj"])) + list(h["ints"])
            t += [len(h["infos"])] + [v for i in h["infos"] for v in i] + list(h["perm"])
        return t
    if kind == 2:
        return [x[0]] + ([-1] if x[1] is None else str_toks(x[1]))
    t = [x["ver"]] + list(x["report"]) + list(x["client"])

    def kvs(l):
        r = [len(l)]
        for k, v in l:
            r += bstr_toks(k) + bstr_toks(v)
        return r
    t += kvs(x["simple"]) + [len(x["mods"])]
    for cm in x["mods"]:
        t += [cm["idx"], cm["ver"], len(cm["list"])]
        for z in cm["list"]:
            t += bstr_toks(z)
        t += kvs(cm["simple"]) + [len(cm["objs"])]
        for name, ty, rs, val in cm["objs"]:
            t += bstr_toks(name) + [ty, rs] + ([0] + bstr_toks(val) if isinstance(val, bytes) else [1, val])
    t.append(x.get("nonul", -1))            # after everything the Coq parser reads
    return t


def parse_tail(r, kind):
    def bs():
        return bytes(r.ints(r.int()))

    def kvs():
        return [(bs(), bs()) for _ in range(r.int())]
    if kind == 1:
        return bs()
    if kind == 5:
        x = {"stype": r.int(), "count": r.int(), "start": r.int(), "recs": []}
        n = r.int()
        for _ in range(n):
            rec = {"ints": r.ints(r.int()), "gap": bs()}
            rec["strings"] = [bs() for _ in range(r.int())]
            rec["trail"] = bs()
            rec["nonul"], rec["oob"] = r.int(), r.int()
            x["recs"].append(rec)
        x["perm"] = r.ints(n)
        x["fill"] = [tuple(r.ints(2)) for _ in range(20 - n)]
        return x
    if kind == 4:
        def ostr4():
            n = r.int()
            return None if n == -1 else r.ints(n)
        x = {"v2": r.int(), "handles": []}
        for _ in range(r.int()):
            h = {"h": r.int(), "type": ostr4(), "obj": ostr4(), "ints": r.ints(4)}
            n = r.int()
            h["infos"] = [tuple(r.ints(2)) for _ in range(n)]
            h["perm"] = r.ints(n)
            x["handles"].append(h)
        return x
    if kind == 2:
        ty = r.int()
        n = r.int()
        return (ty, None if n == -1 else r.ints(n))
    c = {"ver": r.int(), "report": r.ints(11), "client": r.ints(11), "simple": kvs(), "mods": []}
    for _ in range(r.int()):
        cm = {"idx": r.int(), "ver": r.int(), "list": [bs() for _ in range(r.int())], "simple": kvs(), "objs": []}
        for _ in range(r.int()):
            name, ty, rs, k = bs(), r.int(), r.int(), r.int()
            cm["objs"].append((name, ty, rs, bs() if k == 0 else r.int()))
        c["mods"].append(cm)
    c["nonul"] = r.int()
    return c


def is_utf8(b):
    try:
        bytes(b).decode("utf-8")
        return True
    except UnicodeDecodeError:
        return False


def bl(b):
    return [len(b)] + list(b)


def chain_expect(x, h):
    """(info_type, size) of the chain in chain order; a record of an unknown type ends the walk"""
    out = []
    if x["v2"]:
        for ty, size in h["infos"]:
            if not 0 <= ty <= 9:
                break
            out += [ty, size]
    return [len(out) // 2] + out


def tail_expect(kind, x):
    """what reading the stream must give: (status, items)"""
    if kind == 5:
        return mci_expect(x)
    if kind == 4:
        return (2, [[2 if x["v2"] else 1, h["h"]] + list(h["ints"]) + ([-1] if h["type"] is None else str_toks(h["type"]))
                    + ([-1] if h["obj"] is None else str_toks(h["obj"])) for h in x["handles"]])
    if kind == 1:
        return (2, [bl(x)]) if is_utf8(x) else (1, [])
    if kind == 2:
        ty, args = x
        return (2, [[ty] + ([-1] if args is None or not valid_utf16(args) else str_toks(args))])
    c = x
    strings = [s for kv in c["simple"] for s in kv]
    for cm in c["mods"]:
        strings += cm["list"] + [s for kv in cm["simple"] for s in kv]
        for name, ty, rs, val in cm["objs"]:
            strings.append(name)
            if ty == 1:
                if not isinstance(val, bytes):
                    return None          # a string annotation with a dangling value: outside what the property fixes
                strings.append(val)
    if c["ver"] == 0 or not all(is_utf8(z) for z in strings) or (c.get("nonul", -1) >= 0 and has_strings(c)):
        return (1, [])
    items = [[0, c["ver"]] + list(c["report"]) + list(c["client"])]
    for k, v in sorted(dict(c["simple"]).items()):
        items.append([1] + bl(k) + bl(v))
    for i, cm in enumerate(c["mods"]):
        sm = sorted(dict(cm["simple"]).items())
        ob = sorted({a[0]: a for a in cm["objs"]}.items())
        items.append([2, i, cm["idx"], cm["ver"], len(cm["list"]), len(sm), len(ob)])
        items += [[3, i] + bl(z) for z in cm["list"]]
        items += [[4, i] + bl(k) + bl(v) for k, v in sm]
        for k, (name, ty, rs, val) in ob:
            if ty == 1:
                o = [1] + bl(val)
            elif ty == 0:
                o = [0]
            else:
                o = [2 if ty >= 0x8000 else 3, ty, rs, val]
            items.append([5, i] + bl(k) + o)
    return (2, items)


# ----------------------------------------------------------------------------- blobs / tokens
def pattern(n, seed):
    return bytes(((seed + i * (2 * seed + 1)) % 256) for i in range(n))


class Blob:
    """explicit bytes or (n, seed) pattern; .b = the bytes"""

    def __init__(self, b=None, n=None, seed=None):
        if b is not None:
            self.b, self.pat = bytes(b), None
        else:
            self.b, self.pat = pattern(n, seed), (n, seed)

    def toks(self):
        if self.pat:
            return [1, self.pat[0], self.pat[1]]
        return [0, len(self.b)] + list(self.b)


def optblob_toks(o):
    return [-1] if o is None else o.toks()


def str_toks(u):
    return [len(u)] + list(u)


def cv_toks(cv):
    k = cv[0]
    if k == 0:
        return [0]
    if k == 1:
        _, d1, d2, d3, d4, age, f = cv
        return [1, d1, d2, d3] + list(d4) + [age] + f.toks()
    if k == 2:
        _, off, sig, age, f = cv
        return [2, off, sig, age] + f.toks()
    return [k] + cv[1].toks()


def model_tokens(m):
    t = [m["endian"], m["version"], m["checksum"], m["time"], m["flags"], m["pad"], len(m["extra"])]
    for e in m["extra"]:
        t += list(e)

    def opt(key, f):
        if m.get(key) is None:
            t.append(0)
        else:
            t.append(1)
            f(m[key])

    def sysinfo(s):
        t.extend(s["ints"] + list(s["cpu"]))
        t.extend([-1] if s["csd"] is None else str_toks(s["csd"]))

    def lst(f):
        def g(l):
            t.append(len(l))
            for x in l:
                f(x)
        return g

    opt("sys", sysinfo)
    opt("thr", lst(lambda x: t.extend(x["ints"] + [x["sbase"]] + optblob_toks(x["stack"]) + optblob_toks(x["ctx"]))))
    opt("mod", lst(lambda x: t.extend([x["base"], x["size"], x["ck"], x["time"]] + str_toks(x["name"]) + x["ver"] + cv_toks(x["cv"]) + x["misc"] + x["res"])))
    opt("mem", lst(lambda x: t.extend([x[0]] + x[1].toks())))
    opt("m64", lst(lambda x: t.extend([x[0]] + x[1].toks())))
    opt("exc", lambda x: t.extend(x["ints"] + x["info"] + optblob_toks(x["ctx"])))
    opt("tnm", lst(lambda x: t.extend([x[0]] + str_toks(x[1]))))
    opt("unl", lst(lambda x: t.extend([x["base"], x["size"], x["ck"], x["time"]] + str_toks(x["name"]))))
    opt("mi", lst(lambda x: t.extend(x)))
    opt("misc", lambda x: t.extend([x[0], len(x[1])] + x[1]))
    opt("bp", lambda x: t.extend(x))
    opt("asr", lambda x: t.extend(x))
    opt("ti", lst(lambda x: t.extend(x)))
    for k in RAW_KEYS:
        opt(k, lambda x: t.extend(x.toks()))

    def ostr(o):
        return [-1] if o is None else str_toks(o)

    opt("hnd", lambda x: (t.append(x[0]), lst(lambda h: t.extend([h["h"]] + ostr(h["type"]) + ostr(h["obj"]) + h["ints"]))(x[1])))
    # round 4 streams written by the plugin (the Coq token parser stops before them)
    tail = m.get("tail") or []
    t.append(len(tail))
    for kind, x in tail:
        t.append(kind)
        t.extend(tail_toks(kind, x))
    return t


class TokReader:
    def __init__(self, toks):
        self.t, self.i = toks, 0

    def int(self):
        v = self.t[self.i]
        self.i += 1
        return v

    def ints(self, n):
        v = self.t[self.i:self.i + n]
        if len(v) != n:
            raise ValueError("short")
        self.i += n
        return v

    def blob_k(self, k):
        n = self.int()
        if k == 0:
            return Blob(b=self.ints(n))
        return Blob(n=n, seed=self.int())

    def blob(self):
        return self.blob_k(self.int())

    def optblob(self):
        k = self.int()
        return None if k == -1 else self.blob_k(k)

    def str(self):
        return self.ints(self.int())


def parse_model(toks):
    r = TokReader(toks)
    m = {"endian": r.int(), "version": r.int(), "checksum": r.int(), "time": r.int(), "flags": r.int(), "pad": r.int()}
    m["extra"] = [tuple(r.ints(3)) for _ in range(r.int())]

    def opt(f):
        return f() if r.int() != 0 else None

    def lst(f):
        return lambda: [f() for _ in range(r.int())]

    def sysinfo():
        s = {"ints": r.ints(11), "cpu": r.ints(24)}
        n = r.int()
        s["csd"] = None if n == -1 else r.ints(n)
        return s

    def cv():
        k = r.int()
        if k == 1:
            d = r.ints(3)
            d4 = r.ints(8)
            return (1, d[0], d[1], d[2], d4, r.int(), r.blob())
        if k == 2:
            d = r.ints(3)
            return (2, d[0], d[1], d[2], r.blob())
        if k in (3, 4):
            return (k, r.blob())
        return (0,)

    def module():
        b = r.ints(4)
        x = {"base": b[0], "size": b[1], "ck": b[2], "time": b[3], "name": r.str(), "ver": r.ints(13), "cv": cv()}
        x["misc"] = r.ints(2)
        x["res"] = r.ints(4)
        return x

    def unl():
        b = r.ints(4)
        return {"base": b[0], "size": b[1], "ck": b[2], "time": b[3], "name": r.str()}

    m["sys"] = opt(sysinfo)
    m["thr"] = opt(lst(lambda: {"ints": r.ints(5), "sbase": r.int(), "stack": r.optblob(), "ctx": r.optblob()}))
    m["mod"] = opt(lst(module))
    m["mem"] = opt(lst(lambda: (r.int(), r.blob())))
    m["m64"] = opt(lst(lambda: (r.int(), r.blob())))
    m["exc"] = opt(lambda: {"ints": r.ints(8), "info": r.ints(15), "ctx": r.optblob()})
    m["tnm"] = opt(lst(lambda: (r.int(), r.str())))
    m["unl"] = opt(lst(unl))
    m["mi"] = opt(lst(lambda: r.ints(9)))
    m["misc"] = opt(lambda: (r.int(), r.ints(r.int())))
    m["bp"] = opt(lambda: r.ints(3))
    m["asr"] = opt(lambda: r.ints(386))
    m["ti"] = opt(lst(lambda: r.ints(10)))
    for k in RAW_KEYS:
        m[k] = opt(r.blob)

    def ostr():
        n = r.int()
        return None if n == -1 else r.ints(n)

    m["hnd"] = opt(lambda: (r.int(), lst(lambda: {"h": r.int(), "type": ostr(), "obj": ostr(), "ints": r.ints(4)})()))
    m["tail"] = []
    if r.i < len(r.t):
        for _ in range(r.int()):
            kind = r.int()
            m["tail"].append((kind, parse_tail(r, kind)))
    return m


# ----------------------------------------------------------------------------- independent expectation
def valid_utf16(u):
    i = 0
    while i < len(u):
        c = u[i]
        if 0xD800 <= c <= 0xDBFF:
            if i + 1 >= len(u) or not (0xDC00 <= u[i + 1] <= 0xDFFF):
                return False
            i += 2
        elif 0xDC00 <= c <= 0xDFFF:
            return False
        else:
            i += 1
    return True


def blob_hash(b):
    h = 0
    for x in b:
        h = (h * 257 + x + 1) % 1000000007
    return h


def blob4(b):
    return [len(b), blob_hash(b), b[0] if b else -1, b[-1] if b else -1]


def chars(s):
    return [len(s)] + [ord(c) for c in s]


def ochars(s):
    return [-1] if s is None else chars(s)


def os_class(m):
    if m.get("sys") is None:
        return "other"
    p = m["sys"]["ints"][8]
    if p in (2, 3):
        return "win"
    if p in (0x8101, 0x8102):
        return "mac"
    return "other"


def debug_id(cv, big):
    """documented derivation: PDB70 -> GUID (as text) + age, nil GUID -> none; PDB20 -> timestamp + age;
    ELF -> first 16 bytes of the build id (zero padded) taken as a GUID stored in the dump's byte
    order, age 0; empty / all-zero build id -> none"""
    k = cv[0]
    if k == 1:
        _, d1, d2, d3, d4, age, _ = cv
        if d1 == 0 and d2 == 0 and d3 == 0 and not any(d4):
            return None
        return "%08X%04X%04X%s%x" % (d1, d2, d3, "".join("%02X" % x for x in d4), age)
    if k == 2:
        return "%08X%x" % (cv[2], cv[3])
    if k == 3:
        b = cv[1].b
        if not any(b):
            return None
        g = (b + bytes(16))[:16]
        order = "big" if big else "little"
        d1 = int.from_bytes(g[0:4], order)
        d2 = int.from_bytes(g[4:6], order)
        d3 = int.from_bytes(g[6:8], order)
        return "%08X%04X%04X%s0" % (d1, d2, d3, "".join("%02X" % x for x in g[8:]))
    return None


def code_id(cv, os_, time, size):
    k = cv[0]
    ts = "%08x%x" % (time, size)
    if k == 1:
        if os_ == "mac":
            return ("%08X%04X%04X%s" % (cv[1], cv[2], cv[3], "".join("%02X" % x for x in cv[4]))).lower()
        return ts
    if k == 2:
        return ts
    if k == 3:
        return cv[1].b.hex() if any(cv[1].b) else None
    if k == 0 and os_ == "win":
        return ts
    return None


def debug_file_units(cv, name):
    k = cv[0]
    if k in (1, 2):
        raw = cv[-1].b.split(b"\0")[0]
        s = raw.decode("utf-8", errors="replace")
        return list(_utf16(s))
    if k == 3:
        return list(name)
    return None


def _utf16(s):
    b = s.encode("utf-16-le")
    return [b[i] | (b[i + 1] << 8) for i in range(0, len(b), 2)]


def version_str(ver, os_):
    if ver[0] != VS_SIG or ver[1] != VS_VER:
        return None
    if os_ in ("win", "mac"):
        return "%d.%d.%d.%d" % (ver[2] >> 16, ver[2] & 0xffff, ver[3] >> 16, ver[3] & 0xffff)
    return "%d.%d.%d.%d" % (ver[2], ver[3], ver[4], ver[5])


def cv_obs(cv):
    k = cv[0]
    if k == 0:
        return [0]
    if k == 1:
        return [1, cv[1], cv[2], cv[3]] + list(cv[4]) + [cv[5], len(cv[6].b)] + list(cv[6].b)
    if k == 2:
        return [2, cv[1], cv[2], cv[3], len(cv[4].b)] + list(cv[4].b)
    return [k, len(cv[1].b)] + list(cv[1].b)


def cv_wf(cv, big):
    k = cv[0]
    if k == 4:
        b = cv[1].b
        if len(b) < 4:
            return False
        sig = int.from_bytes(b[:4], "big" if big else "little")
        return sig not in (CV_PDB70, CV_PDB20, CV_ELF)
    if k in (1, 2):
        try:
            cv[-1].b.split(b"\0")[0].decode("utf-8")
        except UnicodeDecodeError:
            return False
    return True


def region_range(base, n):
    if n == 0 or base + n > U64:
        return None
    return (base, base + n - 1)


def lookup(regions, x):
    """-> ('none',) | ('one', i) | ('ambiguous',)"""
    rngs = [region_range(b, len(bl.b)) for b, bl in regions]
    cov = [i for i, r in enumerate(rngs) if r and r[0] <= x <= r[1]]
    if not cov:
        return ("none",)
    if len(cov) == 1:
        r = rngs[cov[0]]
        if all(j == cov[0] or q is None or q[1] < r[0] or r[1] < q[0] for j, q in enumerate(rngs)):
            return ("one", cov[0])
    return ("ambiguous",)


def queries(regions):
    out = []
    for b, bl in regions:
        n = len(bl.b)
        for x in (b - 1, b, b + n - 1, b + n):
            if 0 <= x <= U64:
                out.append(x)
    return out


def query_expect(regions, x):
    r = lookup(regions, x)
    if r[0] == "none":
        return [x, -1]
    if r[0] == "one":
        b, bl = regions[r[1]]
        return [x, b, len(bl.b), bl.b[x - b]]
    return None      # not judged: overlapping regions



# ----------------------------------------------------------------------------- CPU contexts (documented layouts)
# field widths in declaration order (winnt.h CONTEXT for x86/amd64/arm64, Breakpad's MDRawContextARM)
CTX_X86 = [4] * 7 + ([4] * 7 + [1] * 80 + [4]) + [4] * 16 + [1] * 512
CTX_AMD64 = [8] * 6 + [4, 4] + [2] * 6 + [4] + [8] * 6 + [8] * 17 + [1] * 512 + [16] * 26 + [8] * 6
CTX_ARM = [4] + [4] * 16 + [4] + [8] + [8] * 32 + [4] * 8
CTX_ARM64 = [4, 4] + [8] * 31 + [8, 8] + [16] * 32 + [4, 4] + [4] * 8 + [8] * 8 + [4] * 2 + [8] * 2
CTX_CPU_MASK = 0xffffff00
CTX_ALL = 0x80000 | 0xc0 | 0x40 | 0x20000 | 0x100000 | 0x40000000 | 0x400000 | 0x80000000 | 0x40000 | 0x80000 | 0x20000000 | 0x1000000 | 0x10000000 | 0x10000
# Breakpad's minidump_cpu_{arm64,mips,ppc,ppc64,sparc}.h
CTX_ARM64_OLD = [8] + [8] * 31 + [8, 8] + [4, 4, 4] + [16] * 32
CTX_MIPS = [4, 4] + [8] * 32 + [8, 8] + [4] * 3 + [4] * 3 + [4, 4] + [8, 8] + [4, 4] + ([8] * 32 + [4, 4])
_PPC_FLOAT = [8] * 32 + [4, 4]
_PPC_VECTOR = [16] * 32 + [16] + [4] * 4 + [4] + [4] * 7
CTX_PPC = [4, 4, 4] + [4] * 32 + [4] * 6 + _PPC_FLOAT + _PPC_VECTOR
CTX_PPC64 = [8, 8, 8] + [8] * 32 + [8] * 5 + _PPC_FLOAT + _PPC_VECTOR
CTX_SPARC = [4, 4] + [8] * 32 + [8] * 6 + ([8] * 32 + [8, 8])
CTX = {0: (CTX_X86, 0, 0x10000), 10: (CTX_X86, 0, 0x10000), 9: (CTX_AMD64, 6, 0x100000), 5: (CTX_ARM, 0, 0x40000000), 12: (CTX_ARM64, 0, 0x400000),
       0x8003: (CTX_ARM64_OLD, 0, 0x80000000), 1: (CTX_MIPS, 0, 0x40000), 3: (CTX_PPC, 0, 0x20000000), 0x8002: (CTX_PPC64, 0, 0x1000000),
       0x8001: (CTX_SPARC, 0, 0x10000000)}


def ctx_size(arch):
    return sum(CTX[arch][0])


def ctx_expect(m, blob):
    if m.get("sys") is None:
        return [-3]
    arch = m["sys"]["ints"][0]
    if arch not in CTX:
        return [-2]
    if blob is None:
        return [-1]
    widths, idx, const = CTX[arch]
    b = blob.b
    if len(b) < sum(widths):
        return [-1]
    order = "big" if m["endian"] == 1 else "little"
    out, o = [], 0
    for w in widths:
        v = int.from_bytes(b[o:o + w], order)
        o += w
        if w == 16:
            out += [v >> 64, v & U64]
        else:
            out.append(v)
    if (out[idx] & 0xffffffff & CTX_CPU_MASK & CTX_ALL) != const:
        return [-1]
    return [1] + out


def expected(m):
    """section name -> (status, items) or None when the model is outside what the property fixes
    (then only the Coq model is compared with the implementation). items may contain None = not judged."""
    big = m["endian"] == 1
    os_ = os_class(m) if (m.get("sys") is None or sys_wf(m["sys"])) else None
    E = {}
    E["hdr"] = (2, [[m["endian"], m["version"], m["checksum"], m["time"], m["flags"]]])

    def sec(key, wf, items):
        v = m.get(key)
        if v is None:
            return (0, [])
        if not wf(v):
            return None
        return (2, items(v))

    E["sys"] = sec("sys", sys_wf, lambda s: [s["ints"] + list(s["cpu"]) + [len(s["csd"])] + list(s["csd"])])
    # the memory list served by get_memory(): Memory64List when present, else MemoryList
    if m.get("m64") is not None:
        unified = m["m64"]
    elif m.get("mem") is not None and all(len(b.b) > 0 for _, b in m["mem"]):
        unified = m["mem"]
    elif m.get("mem") is not None:
        unified = None
    else:
        unified = []

    def thr_items(l):
        out = []
        for t in l:
            it = t["ints"] + [t["sbase"]]
            if t["stack"] is not None:
                it += [t["sbase"]] + blob4(t["stack"].b)
            elif unified is None:
                it = None
            else:
                r = lookup(unified, t["sbase"])
                if r[0] == "none":
                    it += [-1]
                elif r[0] == "one":
                    b, bl = unified[r[1]]
                    it += [b] + blob4(bl.b)
                else:
                    it = None
            if it is not None:
                it = it + ctx_expect(m, t["ctx"])
            out.append(it)
        return out

    E["thr"] = sec("thr", lambda l: all(t["stack"] is None or len(t["stack"].b) > 0 for t in l), thr_items)

    def mod_wf(l):
        return os_ is not None and all(x["size"] != 0 and x["base"] + x["size"] <= U64 and valid_utf16(x["name"]) and cv_wf(x["cv"], big) for x in l)

    def mod_items(l):
        out = []
        for x in l:
            it = [x["base"], x["size"], x["ck"], x["time"]] + x["ver"] + x["misc"] + x["res"] + str_toks(x["name"]) + cv_obs(x["cv"])
            it += ochars(debug_id(x["cv"], big)) + ochars(code_id(x["cv"], os_, x["time"], x["size"]))
            df = debug_file_units(x["cv"], x["name"])
            it += [-1] if df is None else [9, len(df)] + df
            it += ochars(version_str(x["ver"], os_))
            out.append(it)
        return out

    E["mod"] = sec("mod", mod_wf, mod_items)
    E["mem"] = sec("mem", lambda l: all(len(b.b) > 0 for _, b in l), lambda l: [[b] + blob4(bl.b) for b, bl in l])
    E["memq"] = sec("mem", lambda l: all(len(b.b) > 0 for _, b in l), lambda l: [query_expect(l, x) for x in queries(l)])
    E["m64"] = sec("m64", lambda l: True, lambda l: [[b] + blob4(bl.b) for b, bl in l])
    E["m64q"] = sec("m64", lambda l: True, lambda l: [query_expect(l, x) for x in queries(l)])
    E["exc"] = sec("exc", lambda x: True, lambda x: [x["ints"] + x["info"] + ctx_expect(m, x["ctx"])])

    def tn_items(l):
        d = {}
        for i, n in l:
            d[i] = n
        return [[i, len(d[i])] + list(d[i]) for i in sorted(d)]

    E["tnm"] = sec("tnm", lambda l: all(valid_utf16(n) for _, n in l), tn_items)
    E["unl"] = sec("unl", lambda l: all(x["size"] != 0 and x["base"] + x["size"] <= U64 and valid_utf16(x["name"]) for x in l),
                   lambda l: [[x["base"], x["size"], x["ck"], x["time"]] + str_toks(x["name"]) + chars("%08x%x" % (x["time"], x["size"])) for x in l])
    E["mi"] = sec("mi", lambda l: True, lambda l: [list(x) for x in l])
    E["misc"] = sec("misc", lambda x: True, lambda x: [[x[0]] + list(x[1])])
    E["bp"] = sec("bp", lambda x: True, lambda x: [[x[1] if x[0] & 1 else -1, x[2] if x[0] & 2 else -1]])

    def zstr(u):
        u = list(u)
        if 0 in u:
            u = u[:u.index(0)]
        return [len(u)] + u if valid_utf16(u) else [-1]

    E["asr"] = sec("asr", lambda x: True, lambda x: [list(x) + zstr(x[0:128]) + zstr(x[128:256]) + zstr(x[256:384])])
    E["ti"] = sec("ti", lambda l: True, lambda l: [list(x) for x in l])
    for k in RAW_KEYS:
        E[k] = sec(k, lambda b: True, (lambda kk: lambda b: [[len(b.b)] + list(b.b)] + (kv_expect(b.b, KV_SEP[kk]) if kk in KV_SEP else []))(k))
    # maps: the raw bytes, then the regions a reader of proc(5) text must find (Ellipsis: the rest is left to the model)
    E["lxmaps"] = sec("lxmaps", lambda b: True, lambda b: [[len(b.b)] + list(b.b)] + (maps_expect(b.b) or [Ellipsis]))
    def onm(o):
        return [-1] if o is None else [len(o)] + list(o)

    for kind in (1, 2, 3, 5):
        l = [x for k2, x in (m.get("tail") or []) if k2 == kind]
        E[TAIL_SEC[kind]] = tail_expect(kind, l[-1]) if l else (0, [])
    th = [x for k2, x in (m.get("tail") or []) if k2 == 4]
    E["hnd"] = sec("hnd", lambda x: all(valid_utf16(h["type"] or []) and valid_utf16(h["obj"] or []) for h in x[1]),
                   lambda x: [[2 if x[0] else 1, h["h"]] + h["ints"] + onm(h["type"]) + onm(h["obj"]) for h in x[1]])
    E["hinfo"] = sec("hnd", lambda x: True, lambda x: [[0] for _ in x[1]])
    if th and m.get("hnd") is None:          # the plugin-written handle stream (with object-information chains) is the one served
        E["hnd"] = tail_expect(4, th[-1])
        E["hinfo"] = (2, [chain_expect(th[-1], h) for h in th[-1]["handles"]])
    return E



# ----------------------------------------------------------------------------- Linux maps: the documented reading (proc(5))
import re
MAPS_RE = re.compile(rb"^([0-9a-f]{1,16})-([0-9a-f]{1,16}) ([r-])([w-])([x-])([sp-]) ([0-9a-f]{1,16}) ([0-9a-f]{1,7}):([0-9a-f]{1,7}) ([0-9]{1,20}) +([^ ].*)?$")
SMAPS_RE = re.compile(rb"^(VmFlags:( [a-z]{2})* ?|[A-Z][A-Za-z_]*: +[0-9]{1,15}( kB)?)$")
MAPS_SPECIAL = {b"[heap]": 1, b"[stack]": 2, b"[vdso]": 4, b"[vvar]": 5, b"[vsyscall]": 6, b"[rollup]": 7}
NAME_EDGE = set(range(0x21, 0x7f))          # the first / last byte of a name the oracle judges: graphic ASCII


def maps_expect(data):
    """items a reader of /proc/<pid>/maps (or smaps) text must produce: [2], then per mapping the two addresses, permission bits,
    offset, device, inode, "first address <= second", kind of name.  None = the text is not in the documented shape (or uses a form
    whose reading the documentation does not fix): then only the Coq model is compared with the implementation."""
    lines = data.split(b"\n")
    if lines and lines[-1] == b"":
        lines.pop()
    out = [[2]]
    for i, ln in enumerate(lines):
        if SMAPS_RE.match(ln):
            if i == 0:
                return None
            continue
        mt = MAPS_RE.match(ln)
        if not mt:
            return None
        lo, hi, off, maj, mi = (int(mt.group(k), 16) for k in (1, 2, 7, 8, 9))
        ino = int(mt.group(10))
        if ino > U64:
            return None
        perms = (1 if mt.group(3) == b"r" else 0) | (2 if mt.group(4) == b"w" else 0) | (4 if mt.group(5) == b"x" else 0) | \
                {b"s": 8, b"p": 16, b"-": 0}[mt.group(6)]
        name = mt.group(11) or b""
        it = [lo, hi, perms, off, maj, mi, ino, 1 if lo <= hi else 0]
        if name == b"":
            it += [8]
        else:
            if name[0] not in NAME_EDGE or name[-1] not in NAME_EDGE or not is_utf8(name):
                return None
            if name in MAPS_SPECIAL:
                it += [MAPS_SPECIAL[name]]
            elif name.startswith(b"[stack:"):
                mm = re.match(rb"^\[stack:([0-9]{1,9})\]$", name)
                if not mm:
                    return None
                it += [3, int(mm.group(1))]
            elif name[:1] == b"[" and name[-1:] == b"]":
                it += [10, len(name) - 2] + list(name[1:-1])
            elif name.startswith(b"/SYSV"):
                mm = re.match(rb"^/SYSV([0-9a-f]{8})( \(deleted\))?$", name)
                if not mm:
                    return None
                v = int(mm.group(1), 16)
                it += [9, v - (1 << 32) if v >= (1 << 31) else v]
            else:
                it += [0, len(name)] + list(name)
        out.append(it)
    return out


def maps_stats(models):
    """how the LinuxMaps texts of a run divide: judged by the proc(5) oracle / left to the model, regions judged, odd forms"""
    texts = [m["lxmaps"].b for m in models if m.get("lxmaps") is not None]
    judged = [e for e in (maps_expect(b) for b in texts) if e is not None]
    return {"texts": len(texts), "judged_by_oracle": len(judged), "regions_judged": sum(len(e) - 1 for e in judged),
            "with_smaps_lines": sum(1 for b in texts if re.search(rb"(^|\n)[A-Z]", b)),
            "with_slice_panic_site_line": sum(1 for b in texts if b" 00:00 0 /SYSV" in b or b" 00:00 0 [stack:" in b),
            "with_kb_overflow_line": sum(1 for b in texts if b"Pss: 18014398509481984 kB" in b or b"Pss: 18446744073709551615 kB" in b)}


WS = b" \t\n\x0c\r"


def strip_quotes(b):
    b = b.strip(WS)
    if len(b) >= 2 and b[:1] == b'"' and b[-1:] == b'"':
        return b[1:-1]
    return b


def kv_expect(data, sep):
    """the documented reading of /proc-style text: one `key<sep>value` per line, both sides trimmed of
    blanks and of one pair of surrounding double quotes; lines without the separator are skipped"""
    out = []
    for line in data.split(b"\n"):
        k, s_, v = line.partition(sep)
        if not s_:
            continue
        k, v = strip_quotes(k), strip_quotes(v)
        out.append([len(k)] + list(k) + [len(v)] + list(v))
    return out


def sys_wf(s):
    return s["csd"] is not None and valid_utf16(s["csd"])


def parse_answer(a):
    """-> list of (status, [items]) or None"""
    if a in ("READFAIL", "") or a.startswith("P;;"):
        return None
    out = []
    for s in a.split(";"):
        st, _, body = s.partition(":")
        items = [[int(x) for x in it.split(",")] for it in body.split("|")] if body else []
        out.append((int(st), items))
    return out


def fmt_item(it):
    return ",".join(map(str, it))


def compare(E, got, only=None, what="reading"):
    if got is None:
        return "%s the serialized dump failed (Minidump::read returned an error)" % what
    if len(got) != len(SECTIONS):
        return "unparseable answer"
    for name, (st, items) in zip(SECTIONS, got):
        if only is not None and name not in only:
            continue
        exp = E.get(name)
        if exp is None:
            continue
        est, eitems = exp
        if eitems and eitems[-1] is Ellipsis:        # the items after these are not judged
            eitems = eitems[:-1]
            items = items[:len(eitems)]
        if st != est:
            return "%s: stream %s status %d, the model has %s" % (what, name, st, {0: "no such stream", 1: "a stream the reader must refuse", 2: "a well-formed stream"}[est])
        if len(items) != len(eitems):
            return "%s: stream %s yields %d items, the model has %d" % (what, name, len(items), len(eitems))
        for k, (a, b) in enumerate(zip(eitems, items)):
            if a is not None and a != b:
                return "%s: stream %s item %d differs from the model: expected %s got %s" % (what, name, k, fmt_item(a)[:160], fmt_item(b)[:160])
    return None


# what minidump-synth can express of a model (everything else is left at the writer's fixed value)
def synth_view(m):
    s = dict(m)
    s["version"], s["checksum"], s["time"], s["pad"], s["extra"] = 42899, 0, 1262805309, 0, []
    if m.get("sys") is not None:
        s["sys"] = dict(m["sys"], csd=None)
    if m.get("thr") is not None:
        s["thr"] = [dict(t, ints=[t["ints"][0], 0, 0, 0, 0]) for t in m["thr"]]
    if m.get("mod") is not None:
        s["mod"] = [dict(x, misc=[0, 0], res=[0, 0, 0, 0]) for x in m["mod"]]
    if m.get("exc") is not None:
        x = m["exc"]
        s["exc"] = dict(x, ints=[x["ints"][0], 0] + x["ints"][2:7] + [0], ctx=Blob(b=b""))   # (0, 0) location: empty
    if m.get("mi") is not None:
        s["mi"] = [[r[0], r[1], r[2], 0, r[4], r[5], r[6], r[7], 0] for r in m["mi"]]
    s["misc"] = None
    s["tail"] = []
    return s


def synth_ok(m):
    """models the synth writer can express (it drops empty lists, needs valid UTF-16, non-empty stacks...)"""
    for key in ("thr", "mod", "mem", "m64", "tnm", "unl", "mi"):
        if m.get(key) is not None and len(m[key]) == 0:
            return False
    if m.get("thr") is not None and any(t["stack"] is None or t["ctx"] is None or len(t["stack"].b) == 0 for t in m["thr"]):
        return False
    if m.get("mod") is not None and any(not valid_utf16(x["name"]) for x in m["mod"]):
        return False
    if m.get("tnm") is not None and any(not valid_utf16(n) for _, n in m["tnm"]):
        return False
    if m.get("unl") is not None and any(not valid_utf16(x["name"]) for x in m["unl"]):
        return False
    if m.get("mem") is not None and any(len(b.b) == 0 for _, b in m["mem"]):
        return False
    if m.get("sys") is not None and (m["sys"]["csd"] is None or not valid_utf16(m["sys"]["csd"])):
        return False
    if m.get("hnd") is not None and (m["hnd"][0] != 0 or not m["hnd"][1] or
                                     any(not valid_utf16(h["type"] or []) or not valid_utf16(h["obj"] or []) for h in m["hnd"][1])):
        return False
    if m.get("ti") is not None and not m["ti"]:
        pass
    return True


# ----------------------------------------------------------------------------- generator
class Gen:
    def __init__(self, rng, tier):
        self.r = rng
        self.tier = tier
        self.big_budget = 66000

    def u(self, bits):
        r = self.r
        st = r.below(6)
        top = (1 << bits) - 1
        if st == 0:
            return r.choice([0, 1, top, top - 1, 1 << (bits - 1)])
        if st == 1:
            return r.below(256)
        return r.below(1 << bits)

    def units(self):
        """a UTF-16 name.  Regularly: only units xx00 (look like ASCII in the other byte order), only 00xx
        (ASCII), only xxxx, surrogate pairs, mixtures; sometimes an unpaired surrogate"""
        r = self.r
        st = r.below(10)
        n = r.choice([0, 1, 1, 2, 3, 5, 8, 13, 40]) if r.chance(1, 2) else r.range(1, 12)
        out = []
        if st == 0:       # every unit xx00 with xx < 0x80: U+0100, U+4E00, U+7F00 ...
            out = [r.range(1, 0x7f) << 8 for _ in range(max(n, 1))]
        elif st == 1:     # every unit xx00, any xx outside the surrogate range
            out = [r.choice([r.range(1, 0xd7), r.range(0xe0, 0xff)]) << 8 for _ in range(max(n, 1))]
        elif st == 2:     # plain ASCII 00xx
            out = [r.range(0x20, 0x7e) for _ in range(n)]
        elif st == 3:     # both bytes non-zero
            out = [(r.choice([r.range(1, 0xd7), r.range(0xe0, 0xff)]) << 8) | r.range(1, 0xff) for _ in range(n)]
        elif st == 4:     # surrogate pairs only
            for _ in range(max(1, n // 2)):
                out += [r.range(0xd800, 0xdbff), r.range(0xdc00, 0xdfff)]
        else:
            for _ in range(n):
                k = r.below(12)
                if k < 4:
                    out.append(r.range(0x20, 0x7e))
                elif k < 6:
                    out.append(r.range(1, 0x7f) << 8)
                elif k < 7:
                    out.append(r.choice([0, 0xff, 0x100, 0xfffe, 0xffff, 0xd7ff, 0xe000, 0x2028, 0x0a, 0x4e00, 0x7f00, 0x8000]))
                elif k < 9:
                    out += [r.range(0xd800, 0xdbff), r.range(0xdc00, 0xdfff)]
                else:
                    out.append(r.choice([r.range(0, 0xd7ff), r.range(0xe000, 0xffff)]))
        if r.chance(1, 10) and out:       # plant an unpaired surrogate
            out[r.below(len(out))] = r.choice([0xd800, 0xdbff, 0xdc00, 0xdfff])
        return out

    def blob(self, maxn, budget):
        r = self.r
        st = r.below(10)
        if st < 5:
            n = r.below(min(maxn, 24) + 1)
            return Blob(b=[r.below(256) if r.chance(3, 4) else r.choice([0, 255]) for _ in range(n)])
        if st < 8:
            n = r.below(min(maxn, 600) + 1)
        else:
            n = r.choice([4096, 65536, 65535, 1, 0, 1000, 16384])
        n = max(0, min(n, maxn, budget[0]))
        budget[0] -= n
        return Blob(n=n, seed=r.below(256))

    def context(self, arch, budget):
        """a context blob for the dump's architecture: mostly the right size with valid flags"""
        r = self.r
        if arch not in CTX or r.chance(1, 5):
            return self.blob(1400, budget)
        widths, idx, const = CTX[arch]
        size = sum(widths)
        b = bytearray(r.below(256) if r.chance(1, 3) else 0 for _ in range(size))
        st = r.below(10)
        flags = const | r.choice([0, 1, 0x3f, 0x7f, 0x40])
        if st == 0:
            flags = r.choice([0, 0x10000, 0x100000, 0x400000, 0x40000000, 0x80000000, const | 0x20000, r.below(1 << 32)])
        off = sum(widths[:idx])
        fw = widths[idx]
        if fw == 8 and r.chance(1, 4):
            flags |= r.below(1 << 32) << 32               # the upper half of a u64 flag word is ignored
        b[off:off + fw] = flags.to_bytes(fw, "little")    # stored in the dump's byte order by with_endian()
        if st == 1:
            b = b[:r.below(size)]
        elif st == 2:
            b += bytes(r.below(64))
        budget[0] -= len(b)
        bl = Blob(b=bytes(b))
        bl.flags_at = (off, fw) if len(b) >= off + fw else None
        return bl

    def addr(self):
        r = self.r
        st = r.below(8)
        if st == 0:
            return r.choice([0, 1, U64, U64 - 1, 1 << 63, U32, U32 + 1])
        if st == 1:
            return U64 - r.below(70000)
        if st == 2:
            return r.below(1 << 16)
        if st == 3:
            return 0x10000 * r.below(64)
        return r.below(1 << 64)

    def count(self):
        r = self.r
        return r.choice([0, 1, 1, 2, 2, 3, 4, 5, 8, 16, 40]) if r.chance(1, 3) else r.range(0, 4)

    def filename(self):
        r = self.r
        st = r.below(8)
        n = r.below(16)
        s = bytes(r.range(0x21, 0x7e) for _ in range(n))
        if st == 0:
            s += "é☃𝄞".encode("utf-8")
        if st in (1, 2, 3):
            s += b"\0"
        if st == 2:
            s += b"trailing\0\0"
        if st == 4:
            s = b"\0" + s
        return Blob(b=s)

    def cv(self):
        r = self.r
        k = r.choice([0, 1, 1, 1, 2, 3, 3, 3, 4])
        if k == 1:
            if r.chance(1, 6):
                d = (0, 0, 0, [0] * 8)
            elif r.chance(1, 6):
                d = (r.choice([0, 1]), 0, 0, [0] * 7 + [r.below(2)])
            else:
                d = (self.u(32), self.u(16), self.u(16), [r.below(256) for _ in range(8)])
            return (1, d[0], d[1], d[2], d[3], self.u(32), self.filename())
        if k == 2:
            return (2, self.u(32), self.u(32), self.u(32), self.filename())
        if k == 3:
            n = r.choice([0, 1, 4, 8, 15, 16, 17, 20, 32, 64]) if r.chance(2, 3) else r.range(0, 64)
            if r.chance(1, 6):
                b = [0] * n
            else:
                b = [r.below(256) for _ in range(n)]
            return (3, Blob(b=b))
        if k == 4:
            n = r.choice([0, 1, 3, 4, 5, 24, 30])
            b = [r.below(256) for _ in range(n)]
            if n >= 4 and r.chance(1, 4):     # a known signature in the OTHER byte order
                b[:4] = list(r.choice([CV_PDB70, CV_ELF]).to_bytes(4, "big" if r.chance(1, 2) else "little"))
            return (4, Blob(b=b))
        return (0,)

    def image(self):
        r = self.r
        base = self.addr()
        st = r.below(10)
        if st == 0:
            size = 0
        elif st == 1:
            size = min(U32, U64 - base + r.range(-1, 1)) if U64 - base <= U32 + 1 else U32
            size = max(0, size)
        else:
            size = r.choice([1, 0x1000, 0x10000, U32]) if r.chance(1, 3) else r.range(1, 1 << 24)
        return base, size

    def ver(self):
        r = self.r
        v = [self.u(32) for _ in range(13)]
        if r.chance(2, 3):
            v[0], v[1] = VS_SIG, VS_VER
        elif r.chance(1, 2):
            v[0] = VS_SIG
        return v

    def model(self, well_formed):
        r = self.r
        # bytes of large blobs (regions, stacks) per model: the whole 64 KiB in one model in six of the quick tier and in one model in
        # three of the thorough tier (the cost of a run is the number of bytes the extracted decoder walks), 5000 bytes in the others
        budget = [self.big_budget if r.chance(1, 6 if self.tier == "quick" else 3) else 5000]
        m = {"endian": 0, "version": 42899 | (self.u(16) << 16), "checksum": self.u(32), "time": self.u(32), "flags": self.u(64),
             "pad": r.below(2), "extra": []}
        present = {k: r.chance(2, 3) for k in ST}
        if present["mem"] and present["m64"] and r.chance(2, 3):
            present[r.choice(["mem", "m64"])] = False
        wf = well_formed

        def units():
            while True:
                u = self.units()
                if not wf or valid_utf16(u):
                    return u

        if present["sys"]:
            plat = r.choice([2, 3, 0x8101, 0x8102, 0x8201, 0x8203, 0x8202, 1, 0, 0x8000, self.u(32)])
            m["sys"] = {"ints": [r.choice([0, 9, 9, 5, 12, 12, 0, 3, 0x8001, 0x8002, 0x8003, 1, 10, 0x8004, self.u(16)]), self.u(16), self.u(16), self.u(8), self.u(8),
                                 self.u(32), self.u(32), self.u(32), plat, self.u(16), self.u(16)],
                        "cpu": [r.below(256) for _ in range(24)], "csd": units() if (wf or r.chance(5, 6)) else None}
        regions = None
        for key in ("mem", "m64"):
            if present[key]:
                n = self.count()
                l = []
                for _ in range(n):
                    b = self.blob(65536, budget)
                    if key == "mem" and wf and len(b.b) == 0:
                        b = Blob(b=[r.below(256)])
                    base = self.addr()
                    if l and r.chance(1, 4):      # adjacent / overlapping / identical
                        pb, pbl = r.choice(l)
                        base = max(0, min(U64, pb + r.choice([0, len(pbl.b), -len(b.b), 1, len(pbl.b) - 1])))
                    l.append((base, b))
                m[key] = l
                regions = l
        if present["thr"]:
            l = []
            for _ in range(self.count()):
                st = r.below(6)
                stack = self.blob(65536, budget)
                sbase = self.addr()
                if st == 0:
                    stack = None
                    if regions and r.chance(3, 4):
                        pb, pbl = r.choice(regions)
                        sbase = max(0, min(U64, pb + r.choice([0, 0, len(pbl.b) - 1, len(pbl.b), -1, 1])))
                elif len(stack.b) == 0 and wf:
                    stack = Blob(b=[1, 2, 3])
                arch = m["sys"]["ints"][0] if m.get("sys") else None
                ctx = self.context(arch, budget) if (wf or r.chance(7, 8)) else None
                l.append({"ints": [self.u(32) if r.chance(1, 2) else r.below(5), self.u(32), self.u(32), self.u(32), self.u(64)],
                          "sbase": sbase, "stack": stack, "ctx": ctx})
            m["thr"] = l
        if present["mod"]:
            l = []
            for _ in range(self.count()):
                base, size = self.image()
                if wf and (size == 0 or base + size > U64):
                    base, size = r.below(1 << 48), r.range(1, 1 << 20)
                l.append({"base": base, "size": size, "ck": self.u(32), "time": self.u(32), "name": units(), "ver": self.ver(),
                          "cv": self.cv(), "misc": [self.u(32), self.u(32)] if r.chance(1, 3) else [0, 0],
                          "res": [self.u(32) for _ in range(4)] if r.chance(1, 3) else [0, 0, 0, 0]})
            m["mod"] = l
        if present["exc"]:
            m["exc"] = {"ints": [self.u(32), self.u(32), self.u(32), self.u(32), self.u(64), self.u(64), r.below(16) if r.chance(3, 4) else self.u(32), self.u(32)],
                        "info": [self.u(64) for _ in range(15)],
                        "ctx": self.context(m["sys"]["ints"][0] if m.get("sys") else None, budget) if r.chance(7, 8) else None}
        if present["tnm"]:
            m["tnm"] = [(r.below(6) if r.chance(1, 2) else self.u(32), units()) for _ in range(self.count())]
        if present["unl"]:
            l = []
            for _ in range(self.count()):
                base, size = self.image()
                if (wf or r.chance(3, 4)) and (size == 0 or base + size > U64):
                    base, size = r.below(1 << 48), r.range(1, 1 << 20)
                l.append({"base": base, "size": size, "ck": self.u(32), "time": self.u(32), "name": units()})
            m["unl"] = l
        if present["mi"]:
            m["mi"] = [[self.addr(), self.addr(), self.u(32), self.u(32), self.u(64), self.u(32), self.u(32), self.u(32), self.u(32)] for _ in range(self.count())]
        if present["misc"]:
            k = r.range(1, 5)
            ints = []
            for i in range(MISC_NINTS[k]):
                if k >= 3 and i in MISC_SIGNED[3]:
                    ints.append(r.choice([0, -1, -(1 << 31), (1 << 31) - 1, r.range(-720, 720)]))
                elif k >= 3 and 15 < i < 15 + 83 or k >= 4 and 98 <= i < 398:
                    ints.append(self.u(16))
                elif k == 5 and i == 400:
                    ints.append(self.u(64))
                else:
                    ints.append(self.u(32))
            m["misc"] = (k, ints)
        if r.chance(1, 3):
            m["bp"] = [r.choice([0, 1, 2, 3, 3, self.u(32)]), self.u(32), self.u(32)]
        if r.chance(1, 4):
            def fixed():
                u = self.units()[:128]
                st = r.below(4)
                if st == 0:
                    return (u + [0] * 128)[:128]
                if st == 1:
                    return (u + [0] + [self.u(16) for _ in range(128)])[:128]
                return (u + [self.u(16) if st == 2 else 0x41 for _ in range(128)])[:128]
            m["asr"] = fixed() + fixed() + fixed() + [self.u(32), self.u(32)]
        if r.chance(1, 3):
            m["ti"] = [[self.u(32), self.u(32), self.u(32), self.u(32), self.u(64), self.u(64), self.u(64), self.u(64), self.u(64), self.u(64)]
                       for _ in range(self.count())]
        for k in RAW_KEYS:
            if r.chance(1, 4):
                m[k] = self.text(KV_SEP.get(k, b":"))
        if r.chance(1, 3):
            m["lxmaps"] = self.maps()
        if r.chance(1, 3):
            def oname():
                if r.chance(1, 3):
                    return None
                return units()
            m["hnd"] = (r.below(2), [{"h": self.u(64), "type": oname(), "obj": oname(), "ints": [self.u(32) for _ in range(4)]}
                                     for _ in range(self.count())])
        self.cur_no_hnd = m.get("hnd") is None
        m["tail"] = self.tail(wf)
        return m

    def bstr(self, wf):
        """a UTF-8 string: short ASCII from a small alphabet (so that keys repeat), multi-byte, empty; not wf: sometimes broken"""
        r = self.r
        st = r.below(10)
        if st < 5:
            b = bytes(r.choice(b"abAB01_") for _ in range(r.below(4)))
        elif st < 7:
            b = "".join(r.choice(["a", "é", "☃", "𝄞", "\u07ff", "\ud7ff", "\ue000", "\U0010ffff", "~", "\x7f", "\x01"]) for _ in range(r.below(5))).encode("utf-8")
        elif st < 9:
            b = bytes(r.range(0x20, 0x7e) for _ in range(r.below(24)))
        else:
            b = b""
        if not wf and r.chance(1, 6):
            b += r.choice([b"\xff", b"\xc0\x80", b"\xed\xa0\x80", b"\xe2\x98", b"\xf4\x90\x80\x80", b"\x80", b"\xf0\x8f\xbf\xbf", b"\xc3"])
        return b

    def maccrash(self, wf):
        """Mac crash info: 0-20 records of one version (1..7, large), fields incl. zero, strings incl. empty / multi-byte, unknown
        fields before the strings, trailing bytes, any storage order; not wf: mixed versions, version 0, record_start_size too
        small, broken UTF-8, a missing terminator, a location outside the file, a record count that is not the number of records"""
        r = self.r
        n = r.choice([0, 1, 1, 2, 2, 3, 5, 20])
        ver = r.choice([1, 2, 3, 4, 4, 5, 5, 5, 6, 7, self.u(64) | 8])
        bad = r.below(8) if not wf else -1
        nf, ns = mci_fixed(ver)
        start = 8 * nf + r.choice([0, 0, 8, 16, 3])
        if bad == 2 and n:
            start = r.choice([0, 8, 8 * nf - 1, 8 * nf - 8])
        recs = []
        for k in range(n):
            v = ver
            if bad == 0 and k == n - 1 and n > 1:
                v = r.choice([1, 4, 5, 6])
            if bad == 1 and r.chance(1, 2):
                v = 0
            fx = mci_fixed(v) or (2, 0)
            ints = [r.choice([T_MCI, T_MCI, 0, self.u(64)]), v] + [r.choice([0, 1, self.u(64), U64]) for _ in range(fx[0] - 2)]
            gap = bytes(r.below(256) for _ in range(max(0, start - 8 * fx[0])))
            if fx[1] == 0 and r.chance(1, 3):
                gap = b""                                   # a base record may end before record_start_size: it has no strings to read
            strings = [bytes(z for z in self.bstr(bad != 3) if z != 0) for _ in range(fx[1])]
            trail = bytes(r.below(256) for _ in range(r.choice([0, 0, 1, 9])))
            recs.append({"ints": ints, "gap": gap, "strings": strings, "trail": trail,
                         "nonul": 1 if (bad == 4 and fx[1] and k == n - 1) else 0, "oob": 1 if (bad == 5 and r.chance(1, 2)) else 0})
            if recs[-1]["nonul"]:
                recs[-1]["trail"] = b"" if r.chance(1, 2) else bytes(r.range(1, 255) for _ in range(3))
        perm = list(range(n))
        st = r.below(3)
        if st == 1:
            perm.reverse()
        elif st == 2:
            for i in range(n - 1, 0, -1):
                j = r.below(i + 1)
                perm[i], perm[j] = perm[j], perm[i]
        count = n
        if bad == 6:
            count = r.choice([n + 1, 21, U32, max(0, n - 1)])
        fill = [r.choice([(0, 0), (0, 0), (self.u(32), self.u(32)), (16, 0)]) for _ in range(20 - n)]
        return {"stype": r.choice([T_MCI, T_MCI, 0, self.u(32)]), "count": count, "start": start, "recs": recs, "perm": perm, "fill": fill}

    def tail(self, wf):
        r = self.r
        out = []
        if r.chance(1, 3):
            for _ in range(r.choice([1, 1, 1, 2])):
                st = r.below(4)
                if st == 0:
                    out.append((1, b'{"errors":[' + self.bstr(wf) + b"]}"))
                elif st == 1:
                    out.append((1, b"".join(self.bstr(wf) for _ in range(r.below(4)))))
                else:
                    out.append((1, self.text(b":").b if wf or r.chance(1, 2) else bytes(r.below(256) for _ in range(r.below(12)))))
                    if wf and not is_utf8(out[-1][1]):
                        out[-1] = (1, b"{}")
        if r.chance(1, 3):
            for _ in range(r.choice([1, 1, 1, 2])):
                while True:
                    u = self.units()
                    if not wf or valid_utf16(u):
                        break
                out.append((2, (r.choice([T_BOOT, T_BOOT, 0, self.u(32)]), u if (wf or r.chance(5, 6)) else None)))
        if r.chance(1, 2):
            cwf = [wf]

            def kvs():
                return [(self.bstr(cwf[0]), self.bstr(cwf[0])) for _ in range(r.choice([0, 1, 2, 3, 5]))]

            def annot():
                ty = r.choice([1, 1, 1, 0, 2, 0x7fff, 0x8000, 0x8001, 0xffff, self.u(16)])
                return (self.bstr(cwf[0]), ty, r.choice([0, 0, self.u(16)]), self.bstr(cwf[0]) if ty == 1 else self.u(32))
            for _ in range(r.choice([1, 1, 1, 1, 2])):
                # one stream in ten: every string valid, but one of them loses its NUL terminator (the reader must refuse it)
                nonul = r.below(1000) if r.chance(1, 10) else -1
                cwf[0] = wf or nonul >= 0
                ver = r.choice([1, 1, 1, 2, self.u(32)]) if (cwf[0] or r.chance(5, 6)) else 0
                if cwf[0] and ver == 0:
                    ver = 1
                out.append((3, {"nonul": nonul, "ver": ver, "report": [self.u(32), self.u(16), self.u(16)] + [r.below(256) for _ in range(8)],
                                "client": [self.u(32), self.u(16), self.u(16)] + [r.below(256) for _ in range(8)],
                                "simple": kvs(),
                                "mods": [{"idx": self.u(32) if r.chance(1, 3) else r.below(8), "ver": r.choice([1, 0, self.u(32)]),
                                          "list": [self.bstr(cwf[0]) for _ in range(r.choice([0, 1, 2, 4]))], "simple": kvs(),
                                          "objs": [annot() for _ in range(r.choice([0, 1, 2, 4]))]}
                                         for _ in range(r.choice([0, 1, 1, 2, 3]))]}))
        if r.chance(1, 3):
            out.append((5, self.maccrash(wf)))
        if self.cur_no_hnd and r.chance(1, 2):
            def oname():
                if r.chance(1, 3):
                    return None
                while True:
                    u = self.units()
                    if valid_utf16(u):
                        return u
            hs = []
            for _ in range(r.choice([0, 1, 2, 3, 5])):
                n = r.choice([0, 1, 2, 2, 3, 3, 4, 6])
                infos = [(r.range(0, 9) if (wf or r.chance(7, 8)) else r.choice([10, 11, self.u(32)]), self.u(32)) for _ in range(n)]
                st = r.below(3)
                perm = list(range(n))
                if st == 1:
                    perm.reverse()                      # last record first: every link points to a lower offset
                elif st == 2:
                    for i in range(n - 1, 0, -1):
                        j = r.below(i + 1)
                        perm[i], perm[j] = perm[j], perm[i]
                hs.append({"h": self.u(64), "type": oname(), "obj": oname(), "ints": [self.u(32) for _ in range(4)], "infos": infos, "perm": perm})
            out.append((4, {"v2": 1 if r.chance(5, 6) else 0, "handles": hs}))
        # any order of the streams in the file
        for i in range(len(out) - 1, 0, -1):
            j = r.below(i + 1)
            out[i], out[j] = out[j], out[i]
        return out

    def maps_name(self, odd):
        r = self.r
        k = r.choice([11, 12, 12, 13, 13, 14, 15] + list(range(11))) if odd else r.below(11)
        word = lambda: bytes(r.choice(b"abcxyzLIB019_.-+") for _ in range(r.range(1, 9)))
        if k == 0:
            return b""
        if k == 1:
            return b"/" + b"/".join(word() for _ in range(r.range(1, 4)))
        if k == 2:
            return b"/" + word() + b" " + word() + r.choice([b"", b" (deleted)"])
        if k == 3:
            return r.choice([b"[heap]", b"[stack]", b"[vdso]", b"[vvar]", b"[vsyscall]", b"[rollup]"])
        if k == 4:
            return b"[stack:%d]" % r.choice([0, 1, r.below(100000), 999999999])
        if k == 5:
            return r.choice([b"[anon:" + word() + b"]", b"[anon_shmem:" + word() + b"]", b"[]", b"[" + word() + b"]", b"[heap ]", b"[stack" + word() + b"]"])
        if k == 6:
            return b"/SYSV%08x" % self.u(32) + r.choice([b"", b" (deleted)"])
        if k == 7:
            return b"/" + word() + "é☃𝄞".encode("utf-8")[: r.choice([2, 5, 9])] + word()
        if k == 8:
            return word() + r.choice([b":", b"]", b"[", b" x"]) + word()
        if k == 9:
            return r.choice([b"/SYSVx", b"SYSV00000000", b"[Heap]", b"anon_inode:[eventfd]", b"socket:[123]", b"/memfd:x (deleted)"])
        if k == 10:
            return b"//" + word()
        # ---- forms whose reading proc(5) does not fix: model vs implementation only
        if k == 11:     # Unicode white space around the name
            wsp = lambda: r.choice(["\u00a0", "\u2003", "\u3000", "\t", "\u0085", "\u1680", "\u2028", "\u205f", "\x0b", "\x0c", "\u200b", "\u00a1"]).encode("utf-8")
            return wsp() + r.choice([b"", word(), b"[heap]"]) + wsp()
        if k == 12:     # thread stacks: bad / huge ids, no closing bracket, a multi-byte last character (the slice panics)
            return r.choice([b"[stack:x]", b"[stack:]", b"[stack:", b"[stack:4294967295]", b"[stack:4294967296]", b"[stack:+7]", b"[stack:-7]", b"[stack:5:6]",
                             b"[stack:12", "[stack:5é".encode("utf-8"), "[stack:é]".encode("utf-8"), b"[stack:12]x"])
        if k == 13:     # SysV segments: short (the slice panics), bad digits, a character across byte 13
            return r.choice([b"/SYSV12", b"/SYSV", b"/SYSV1234567", b"/SYSVzzzzzzzz", b"/SYSV+1234567", b"/SYSV-1234567", b"/SYSVABCDEF01 (deleted)",
                             "/SYSV1234567é".encode("utf-8"), "/SYSV12345678é".encode("utf-8"), b"/SYSV123456789"])
        if k == 14:
            return r.choice([b"[", b"]", b"[x", "[é]".encode("utf-8"), "[☃".encode("utf-8"), b" ", b"\t[heap]", b"[heap]\r"])
        return bytes(r.below(256) for _ in range(r.below(6)))

    def maps_line(self, odd):
        r = self.r
        w = r.choice([1, 8, 8, 12, 16])
        lo = r.choice([self.u(64), self.u(32), r.below(1 << 47)])
        hi = lo + r.choice([0x1000, 0x21000, 1, 0]) if r.chance(5, 6) else self.u(64)
        hi = min(hi, U64)
        f = [b"%0*x-%0*x" % (w, lo, w, hi), r.choice([b"r-xp", b"rw-p", b"---p", b"r--s", b"rwxp", b"rw-s", b"r---", b"-w-p"]),
             b"%08x" % r.choice([0, 0x1000, self.u(32), self.u(64)]),
             b"%02x:%02x" % (r.choice([0, 8, 0xfd, r.below(0x1000)]), r.choice([0, 1, r.below(0x100000)])),
             b"%d" % r.choice([0, r.below(1 << 22), self.u(64)])]
        if odd:
            k = r.below(14)
            if k == 0:
                f[0] = f[0].upper()                                   # a line that opens with A-F is taken for an smaps key
            elif k == 1:
                f[r.choice([0, 2, 3, 4])] = r.choice([b"", b"+", b"-", b"+1f", b"-1", b"1ffffffffffffffff", b"0x10", b"g"])
            elif k == 2:
                f[0] = r.choice([b"%x" % lo, b"%x-" % lo, b"-%x" % hi, b"%x-%x-%x" % (lo, hi, lo), b"+%x-+%X" % (lo, hi), b"%x-%x" % (hi, lo)])
            elif k == 3:
                f[1] = r.choice([b"", b"rwxsp", b"r?x-", b"pppp", b"xwr", b"RWXP", "ré".encode("utf-8")])
            elif k == 4:
                f[3] = r.choice([b"8", b"8:", b":1", b"-1:ff", b"+3:4", b"80000000:0", b"-80000000:0", b"-80000001:0", b"7fffffff:7FFFFFFF", b"1:2:3", b"fd:g"])
            elif k == 5:
                f[4] = r.choice([b"18446744073709551615", b"18446744073709551616", b"+5", b"-5", b"1f", b"00000000000000000000000000007"])
            elif k == 6:
                del f[r.below(5)]
            elif k == 7:
                f[r.below(4)] += r.choice([b"\t", b" "])
        line = b" ".join(f)
        name = self.maps_name(odd and r.chance(1, 2))
        if name or r.chance(2, 3) or odd:
            line += b" " + b" " * r.choice([0, 0, 1, 7, 20]) + name
        if odd and r.chance(1, 10):
            line += r.choice([b" ", b"\t", b"\xff", b"\xc2"])
        return line

    def maps(self):
        """/proc/<pid>/maps (smaps) text: mostly as documented (judged by the oracle), one text in three with odd lines"""
        r = self.r
        st = r.below(12)
        if st == 0:
            return self.text(b":")
        odd = st in (1, 2, 3, 4)
        crlf = odd and r.chance(1, 4)
        out = []
        for i in range(r.choice([0, 1, 1, 2, 3, 5, 9])):
            out.append(self.maps_line(odd and r.chance(1, 2)))
            if r.chance(1, 5):
                for _ in range(r.range(1, 3)):
                    out.append(r.choice([b"Rss:                   4 kB", b"Size: 132 kB", b"VmFlags: rd ex mr mw me", b"VmFlags:", b"KernelPageSize: 4 kB",
                                         b"ProtectionKey:         0", b"THPeligible:    0"]))
            if odd and r.chance(1, 6):
                out.append(r.choice([b"Pss: 18014398509481984 kB", b"Pss: 18014398509481983 kB", b"Pss: 18446744073709551615 kB", b"Pss: 18446744073709551616",
                                     b"Size: x kB", b"Name:", b"Name", b"Key 5", b"Key 5 6 7", b"Rss:\t4\tkB", b"VmFlagsX 1", b"Vmflags: x", b"", b" ", b"X"]))
        if odd and r.chance(1, 5):             # the reader's two string-slice panic sites, on an otherwise well-formed line
            out.insert(r.below(len(out) + 1), b"%x-%x r-xp 00000000 00:00 0 " % (r.below(1 << 32), self.u(64)) +
                       r.choice([b"/SYSV12", b"/SYSV", b"/SYSV1234567", "/SYSV1234567é".encode("utf-8"), "[stack:5é".encode("utf-8"), "[stack:é".encode("utf-8")]))
        if odd and r.chance(1, 6):
            out.insert(0, r.choice([b"Rss: 4 kB", b"VmFlags: rd", b"", b"\r"]))
        sep = b"\r\n" if crlf else b"\n"
        b = sep.join(out)
        if out and r.chance(5, 6):
            b += sep
        if odd and r.chance(1, 8):
            b += r.choice([b"\r", b"\n", b"\x00", b"\xe2\x80"])
        return Blob(b=b)

    def text(self, sep):
        """/proc-style text: key/value lines with blanks, quotes, missing separators, odd bytes"""
        r = self.r
        st = r.below(8)
        if st == 0:
            return Blob(b=b"")
        if st == 1:
            return Blob(b=bytes(r.below(256) for _ in range(r.below(40))))
        lines = []
        for _ in range(r.below(7)):
            def word():
                w = bytes(r.choice(b"abcXYZ019_ ./-") for _ in range(r.below(8)))
                q = r.below(8)
                if q == 0:
                    w = b'"' + w + b'"'
                elif q == 1:
                    w = b'"' + w
                elif q == 2:
                    w = r.choice([b" ", b"\t", b"  ", b"\r", b"\x0c", b"\x0b"]) + w + r.choice([b" ", b"\t", b"\r"])
                elif q == 3:
                    w = b' "' + w + b'" '
                elif q == 4:
                    w = b'"'
                return w
            k = r.below(10)
            if k == 0:
                lines.append(word())
            elif k == 1:
                lines.append(b"")
            elif k == 2:
                lines.append(word() + sep + word() + sep + word())
            else:
                lines.append(word() + sep + word())
        b = b"\n".join(lines)
        if r.chance(1, 2):
            b += b"\n"
        if r.chance(1, 8):
            b += b"\x00"
        return Blob(b=b)


def with_endian(m, en):
    """the same model for the other byte order: context blobs keep their register VALUES, so the
    context_flags word planted by the generator is stored in the dump's byte order"""
    mm = dict(m, endian=en)

    def fix(bl):
        off = getattr(bl, "flags_at", None) if bl is not None else None
        if en == 0 or off is None:
            return bl
        b = bytearray(bl.b)
        off, fw = off
        b[off:off + fw] = bytes(reversed(b[off:off + fw]))
        nb = Blob(b=bytes(b))
        return nb

    if mm.get("thr") is not None:
        mm["thr"] = [dict(t, ctx=fix(t["ctx"])) for t in mm["thr"]]
    if mm.get("exc") is not None:
        mm["exc"] = dict(mm["exc"], ctx=fix(mm["exc"]["ctx"]))
    return mm


def hexline(h, tag, toks):
    return "%s %s %s" % (h, tag, " ".join(map(str, toks)))


def parse_case(line):
    h, tag, rest = line.split(" ", 2)
    return h, tag, parse_model([int(x) for x in rest.split()])


def dir_entries(h, big):
    b = bytes.fromhex(h)
    o = "big" if big else "little"
    n = int.from_bytes(b[8:12], o)
    rva = int.from_bytes(b[12:16], o)
    out = []
    for i in range(n):
        e = b[rva + 12 * i: rva + 12 * i + 12]
        out.append((int.from_bytes(e[0:4], o), int.from_bytes(e[4:8], o), int.from_bytes(e[8:12], o)))
    return out


class C02(PropBase):
    pid = "C02"
    coq_dirs = ["Base", "C02", "C08"]
    translators = ["format_layouts.py", "c02_reader.py"]
    bins = ["c02"]
    impl_mem_gb = 4
    # wall-clock limits of one shard of cases: generous, so that a heavily loaded machine does not turn a slow run into an alarm
    # (a hanging implementation case is caught by the harness's own per-case CPU-time watchdog; the model driver is total)
    model_timeout = 3600
    impl_timeout = 2400
    rule = ("a case = one dump model (header fields, 0..40 items per list, UTF-16 names incl. unpaired surrogates, CodeView records of "
            "every kind, build ids 0..64 bytes, regions 0..64 KiB anywhere in u64, list padding on/off; a directory with 2-4 entries of "
            "types the dump has, of named types without a reader (CommentStreamA, UnusedStream, Windows CE, LinuxCmdLine/Auxv ...) and of "
            "vendor / unknown types (0x4d7a0b0b, 0xffff.., Breakpad/Crashpad ranges), locations inside / outside the file; a LinuxMaps stream of "
            "/proc/<pid>/maps (smaps) text in one model in three (0-9 mappings, every kind of name, any zero padding / blanks, smaps attribute lines; "
            "one text in three with odd lines: signs, overflowing numbers, missing fields, CRLF, Unicode white space, invalid UTF-8, short /SYSV and "
            "[stack:..] names, `kB` values that overflow); plus "
            "MozSoftErrors, Mac boot args, Crashpad info and Mac crash info streams (0-20 records of one version, any storage order, unknown fields, "
            "trailing bytes; not well-formed: mixed versions, version 0, short record_start_size, broken UTF-8, missing terminator, location "
            "outside the file, wrong record count) written by the plugin) serialized by the extracted Coq encode_dump, once "
            "little- and once big-endian; the implementation and the extracted decoders read the same bytes; the oracle recomputes the "
            "expected reading from the model (and the directory from the bytes) in Python. "
            "Non-trivial = the dump carries at least three streams and at least one list with >= 2 items; distinct = distinct case lines")
    trusted_base = [
        "Coq 8.16.1 kernel (vm_compute only in the non-vacuity Examples and the layout pin)",
        "translate/format_layouts.py: regex/bracket-matching translator from format.rs to coq/Gen/Layouts.v (aborts on unrecognised syntax); "
        "scroll's derive(Pread) assumed to read fields in declaration order without padding (exercised by the correspondence run); "
        "derive(FromPrimitive) assumed to accept exactly the declared enum values",
        "translate/c02_reader.py: regex/bracket-matching translator from minidump.rs to coq/Gen/C02Reader.v (STREAM_TYPE of every impl MinidumpStream, "
        "UNIMPLEMENTED_STREAMS, stream_vendor limit/mask/arms, read_stream_list padding arms, the do_read! version table of the Mac crash info reader, "
        "the statements of Minidump::read in order; the bodies of get_stream / get_raw_stream / location_slice / get_memory / all_streams / "
        "unknown_streams / read_cstring_utf8 are compared with their expected text; aborts on anything else)",
        "hand-written model C02/Model.v + C02/ModelR5.v + C02/ModelR6.v (reader side mirrors minidump.rs and, for the LinuxMaps text, procfs-core 0.17's "
        "MemoryMaps::from_read; serializer side = the documented format), tied to the code by the "
        "correspondence run on identical bytes and by the synth cross-check; C08 range-table model for memory_at_address",
        "the plugin's own writer of the MozSoftErrors / boot args / Crashpad streams (checked byte for byte against the extracted Coq serializers "
        "enc_bootargs / enc_crashpad on every case) and of the Mac crash info stream (no Coq serializer: its theorem is placement-agnostic; the bytes "
        "are read by the extracted dec_maccrash and by the real reader, and judged by the oracle from the model)",
        "extraction: ExtrOcamlBasic only; ocaml/zconv.ml + ocaml/c02/main.ml; harness/src/bin/c02.rs",
    ]
    assumptions = ["partial: MozLinuxLimits is a raw stream (its reader keeps the bytes; the table accessors are not part of this property); LinuxCmdLine / LinuxAuxv / "
                   "LinuxDsoDebug have no typed reader: they are covered as raw streams by the directory theorem and as entries of unimplemented_streams()",
                   "Mac crash info: the theorem (c02_maccrash_any_placement) covers records of version >= 1 that share one version, wherever they are stored; "
                   "records of version 0 (passed over), mixed versions, short record_start_size, bad strings are compared with the model and, where the format "
                   "fixes the outcome, judged by the oracle",
                   "the key/value syntax of cpuinfo/status/lsb-release/environ has a round-trip theorem for lines that need no trimming (c02_kv_roundtrip); "
                   "trimming / quote stripping / lines without a separator are compared against the same Coq function on every case",
                   "MozSoftErrors, Mac boot args and Crashpad info have stream-level round-trip theorems (any offset, any surrounding file) composed with the "
                   "directory theorem (c02_stream_served); they are not fields of the 20-stream model of c02_dump_roundtrip",
                   "Linux text streams are byte-exact raw streams in the 20-stream dump theorem; the LinuxMaps text has its own reader model "
                   "(ModelR6.parse_maps) with a round-trip theorem for listings as the kernel writes them (c02_maps_roundtrip, composed with the dump theorem in "
                   "c02_maps_in_dump); texts outside that shape (signs, overflow, missing fields, CRLF, Unicode white space, smaps lines, the three panic "
                   "sites) are compared with the same Coq function on every case; the smaps attribute VALUES (extension map, VmFlags) are not observed",
                   "lossy UTF-8 decoding of PDB file names and UTF-16 -> String conversion are exercised (Python re-derives them), not modelled in Coq; "
                   "UTF-8 validity (std::str::from_utf8) is modelled (valid_utf8) and compared on malformed strings"]
    manifest = {
        "text": "partial: Theorems (Coq, all values in range, both byte orders, any number of items): the generic layout codec round-trips every struct layout "
                "regenerated from format.rs (all 74 parseable structs, pinned against the documented layouts); list framing (count header, 0-or-4 padding), "
                "UTF-16 strings, CodeView records and the whole dump of 20 streams (header, directory with arbitrary leading duplicates, system info, threads, "
                "modules, MemoryList/Memory64List, exception, thread names, unloaded modules, memory info, misc info, Breakpad info, assertion info, thread "
                "info list, handle data, six Linux text streams as raw bytes) decode to exactly the encoded model; little- and big-endian encodings decode to the same model; "
                "the directory as a whole: for EVERY u32 stream type (named or not) the map Minidump::read builds holds the last entry of the type (index and "
                "location), get_raw_stream is location_slice of it, all_streams()/unknown_streams() are exactly these entries, and the directory of a serialized "
                "model reads back entry by entry; MozSoftErrors, Mac boot args and the Crashpad info stream (simple annotations, module list with list / simple / "
                "object annotations) round-trip at any offset of any file and are served through any directory whose last entry of the type points at them; "
                "Mac crash info: if the header's first record_count locations slice to well-formed records of one version (fixed u64 fields of the variant "
                "the regenerated version table selects, unknown fields up to record_start_size, NUL-terminated UTF-8 strings, trailing bytes) - wherever "
                "they lie in the file - the stream reads back as exactly these records, through any directory whose last entry of the type points at the header; "
                "every u32 stream type is of exactly one kind (a typed reader serves it, no two readers claim one type / unimplemented_streams() lists it / "
                "unknown), unimplemented_streams() = the served entries of the regenerated table, all_streams() = the union of the three kinds; the model's "
                "stream_vendor and 0-or-4 list padding rule are proved equal to the expressions regenerated from minidump.rs, the statements of Minidump::read "
                "are pinned in order; linux_list_iter reads `key<sep>value` lines back as exactly the pairs written; a /proc/<pid>/maps listing as the kernel "
                "writes it (any zero padding, blanks, every kind of name; smaps attribute lines between the mappings) reads back through "
                "MinidumpLinuxMaps::read as exactly its mappings, also as the LinuxMaps stream of a whole serialized dump; on ALL inputs the reader's debug and "
                "release builds agree except for one debug-only multiplication trap, and it ends in regions, an error or one of three known panic sites; "
                "a handle data stream of 40-byte descriptors yields the object-information chain of every descriptor wherever the records lie; "
                "every address of an isolated region reads back its byte (C08); CPU contexts of nine "
                "architectures read back their registers iff context_flags match; debug/code identifiers are the documented functions of the CodeView record. "
                "The model is tied to the code by reading the same serialized bytes with the real Minidump::read/get_stream/get_raw_stream/all_streams/unknown_streams/unimplemented_streams "
                "and with the extracted decoders, by a cross-check against minidump-synth, and by an independent Python oracle.",
        "note": "Trusted: Coq kernel; the two translators (layouts from format.rs, reader tables / expressions / statement order from minidump.rs); hand-written "
                "reader model (correspondence-checked; the regenerated parts are proved equal to it); extraction + OCaml/Rust glue; the plugin's writer of "
                "four streams (three cross-checked against the Coq serializers); the LinuxMaps reader model follows procfs-core 0.17 (an external crate, not "
                "regenerated). Not modelled: MozLinuxLimits table syntax; smaps attribute values; the data bytes behind an "
                "object-information record.",
    }

    # ---- stage 1: models -> bytes through the extracted serializer
    def encode_all(self, token_lists):
        exe = vlib.ocaml_build(self.pid)
        lines = ["E " + " ".join(map(str, t)) for t in token_lists]
        ans, dead = vlib.run_lines([exe], lines, timeout=self.model_timeout, mem_gb=8)
        if dead:
            raise vlib.CheckFailure("model serializer died: %s" % (dead[:1],))
        return ans

    def gen_models(self, tier, seed):
        rng = Rng(seed)
        g = Gen(rng, tier)
        n = 460 if tier == "quick" else 1200
        if os.environ.get("VERIF_REPO") and os.environ.get("VERIF_C02_MODELS"):      # developer runs (mutation experiments) only
            n = int(os.environ["VERIF_C02_MODELS"])
        models = []
        for i in range(n):
            models.append(g.model(well_formed=(i % 3 != 2)))
        return models, rng

    def gen_cases(self, tier, seed):
        models, rng = self.gen_models(tier, seed)
        dist = {"models": len(models), "with_duplicate_directory_entries": 0, "synth_cross_checked": 0, "bytes_total": 0,
                "streams": {k: 0 for k in ST}}
        dist["linux_maps"] = maps_stats(models)
        # pass 1 (little-endian, no extra entries) to learn where the streams are, then add duplicates
        first = self.encode_all([model_tokens(m) for m in models])
        for m, h in zip(models, first):
            if h in ("ENCFAIL", None):
                raise vlib.CheckFailure("serializer refused a generated model")
            for k in ST:
                if m.get(k) is not None:
                    dist["streams"][k] += 1
            tail = m.get("tail") or []
            sizes = [len(ser_tail(kind, x, 0, False)[1]) for kind, x in tail]          # independent of offset and byte order
            extra = []
            if rng.chance(2, 3) or tail:
                extra = self.gen_extras(rng, dir_entries(h, False), len(h) // 2 + sum(sizes), len(tail), [TAIL_TYPE[k2] for k2, _ in tail])
                dist["with_duplicate_directory_entries"] += 1
            # the plugin-written streams follow the Coq-serialized dump; their directory entries come after the decoys
            base = len(h) // 2 + 12 * (len(extra) + len(tail))
            m["tail_off"] = []
            for (kind, x), z in zip(tail, sizes):
                m["tail_off"].append(base)
                extra.append((TAIL_TYPE[kind], ser_tail(kind, x, base, False)[0], base))
                base += z
                dist["streams"][TAIL_SEC[kind]] = dist["streams"].get(TAIL_SEC[kind], 0) + 1
            m["extra"] = extra
            dist["extra_directory_entries"] = dist.get("extra_directory_entries", 0) + len(extra)
        toks = []
        for m in models:
            for en in (0, 1):
                mm = with_endian(m, en)
                toks.append((mm, model_tokens(mm)))
        hexes = self.encode_all([t for _, t in toks])
        # append the plugin-written streams; the extracted Coq serializers of the same streams must agree byte for byte
        xlines, xwant = [], []
        for i, ((mm, t), h) in enumerate(zip(toks, hexes)):
            big = mm["endian"] == 1
            for (kind, x), off in zip(mm.get("tail") or [], mm.get("tail_off") or []):
                if len(h) // 2 != off:
                    raise vlib.CheckFailure("plugin-written stream would not land at its recorded offset (%d != %d)" % (len(h) // 2, off))
                b = ser_tail(kind, x, off, big)[1]
                h = (h if h != "-" else "") + b.hex()
                if kind in (2, 3):
                    xlines.append("T %d %d %d %s" % (kind, mm["endian"], off, " ".join(map(str, tail_toks(kind, x)))))
                    xwant.append(ser_tail(kind, x, off, big, corrupt=False)[1].hex() or "-")
            hexes[i] = h
        if xlines:
            exe = vlib.ocaml_build(self.pid)
            got, dead = vlib.run_lines([exe], xlines, timeout=self.model_timeout, mem_gb=8)
            bad = [(l, g) for l, g, w in zip(xlines, got, xwant) if g != w]
            if dead or bad:
                raise vlib.CheckFailure("the extracted Coq serializer of a round-4 stream and the plugin's writer disagree: %s" % (str((dead or bad)[:1])[:600],))
            dist["stream_serializers_cross_checked"] = len(xlines)
        cases = []
        for (mm, t), h in zip(toks, hexes):
            tag = "S" if synth_ok(mm) else "N"
            dist["synth_cross_checked"] += tag == "S"
            dist["bytes_total"] += len(h) // 2
            cases.append(hexline(h, tag, t))
        return cases, dist, False

    @staticmethod
    def gen_extras(rng, ents, flen, ntail=0, tail_types=()):
        """leading directory entries: 2-4 entries (counting the real one) of types the dump has, 2-4 of named types without a
        reader, 2-4 of vendor / unknown types, singletons; locations inside the file (distinct bytes), empty, out of bounds"""
        groups = []
        for _ in range(rng.below(3)):                       # duplicates of a stream the dump really has (the real one stays last)
            if ents:
                groups.append((rng.choice(ents)[0], rng.range(1, 3), True))
        for _ in range(rng.below(3)):                       # named, raw access only
            groups.append((rng.choice(NAMED_RAW_ONLY), rng.choice([1, 2, 2, 3, 4]), False))
        for _ in range(rng.range(0, 3)):                    # vendor / unknown
            ty = rng.choice(UNKNOWN_TYPES) if rng.chance(3, 4) else rng.below(1 << 32)
            if ty in NAMED:
                ty = 0x4d7a0b0b
            groups.append((ty, rng.choice([1, 2, 2, 3, 3, 4]), False))
        for ty in tail_types:                               # decoys of the plugin-written streams (their real entry comes last)
            if rng.chance(1, 2):
                groups.append((ty, rng.range(1, 3), True))
        k = sum(g[1] for g in groups) + ntail
        total = flen + 12 * k                               # the directory grows by 12 bytes per extra entry
        extra = []
        for ty, n, real in groups:
            for _ in range(n):
                st = rng.below(10)
                if st == 0 and ents:                        # the location of a real stream
                    e = rng.choice(ents)
                    loc = (e[1], e[2] + 12 * k)
                elif st == 1:
                    loc = (0, rng.choice([0, total, rng.below(total + 1)]))
                elif st == 2:                               # out of bounds / overflowing
                    loc = rng.choice([(rng.range(1, 64), total - rng.below(min(total, 32))), (1, U32), (U32, U32), (U32, 1), (total + 1, 0), (1, total)])
                elif st == 3:                               # the whole file / the header
                    loc = rng.choice([(total, 0), (32, 0), (total - 1, 1)])
                else:
                    rva = rng.below(total)
                    loc = (rng.range(1, min(48, total - rva)), rva)
                extra.append((ty, loc[0], loc[1]))
        # any interleaving; the relative order of the entries decides which one is the last of its type
        for i in range(len(extra) - 1, 0, -1):
            j = rng.below(i + 1)
            extra[i], extra[j] = extra[j], extra[i]
        return extra

    def canon_impl(self, case, ans, profile):
        return ans.split(" ## ")[0]

    def canon_model(self, case, ans):
        # debug_file: the model prints raw PDB-name bytes (tag 0) or module-name units (tag 1); the reader
        # returns a String: bring the model's answer to the harness form (tag 9 + UTF-16 units)
        # maps: the model prints the reader's outcome in a debug and in a release build (`v * 1024` of an smaps line traps only in
        # debug); where they agree it is THE outcome, where they differ the case is left to the oracle
        secs = ans.split(";")
        if len(secs) == len(SECTIONS):
            mi_ = SECTIONS.index("lxmaps")
            its = secs[mi_].split("|")
            if len(its) >= 2:
                d_, _, r_ = its[1].partition(",")
                if d_ != r_:
                    return None
                its[1] = d_
                secs[mi_] = "|".join(its)
                ans = ";".join(secs)
        got = parse_answer(ans)
        if got is None:
            return ans
        st, items = got[3]
        if st != 2:
            return ans
        new_items = []
        for it in items:
            new_items.append(self.fix_module_item(it))
        got[3] = (st, new_items)
        return ";".join("%d:%s" % (s, "|".join(fmt_item(i) for i in its)) for s, its in got)

    @staticmethod
    def mask_debug_id(it):
        """ELF modules: the debug id is the build id read as a GUID in the dump's byte order (by design)"""
        i = 4 + 13 + 2 + 4
        i += 1 + it[i]
        if it[i] != 3:
            return it
        i += 1
        i += 1 + it[i]
        n = 1 if it[i] == -1 else 1 + it[i]
        return it[:i] + [-9] + it[i + n:]

    @staticmethod
    def fix_module_item(it):
        i = 4 + 13 + 2 + 4
        i += 1 + it[i]                      # name
        k = it[i]
        i += 1
        if k == 1:
            i += 3 + 8 + 1
            i += 1 + it[i]
        elif k == 2:
            i += 3
            i += 1 + it[i]
        elif k in (3, 4):
            i += 1 + it[i]
        for _ in range(2):                  # debug id, code id
            i += 1 if it[i] == -1 else 1 + it[i]
        if it[i] == -1:
            return it
        tag, n = it[i], it[i + 1]
        body = it[i + 2:i + 2 + n]
        rest = it[i + 2 + n:]
        if tag == 0:
            s = bytes(body).decode("utf-8", errors="replace")
            body = _utf16(s)
        return it[:i] + [9, len(body)] + list(body) + rest

    def oracle(self, case, ans, profile):
        if ans.startswith("P;;"):
            return "panic while reading a serialized dump: " + ans[3:200]
        try:
            h, tag, m = parse_case(case)
        except Exception as e:       # corpus / replay lines that are not model-derived: nothing to judge
            return None
        main, _, syn = ans.partition(" ## ")
        E = expected(m)
        E.update(expected_dir(h, m["endian"] == 1))
        bad = compare(E, parse_answer(main))
        if bad:
            return bad
        if tag == "S":
            if not syn:
                return "synth cross-check answer missing"
            if syn.startswith("P;;"):
                return "synth cross-check panicked: " + syn[:200]
            Es = expected(synth_view(m))
            bad = compare(Es, parse_answer(syn), what="reading the same model written by minidump-synth")
            if bad:
                return bad
        return None

    def nontrivial(self, case, ans):
        got = parse_answer(ans.split(" ## ")[0])
        if got is None:
            return False
        present = sum(1 for st, _ in got[1:] if st == 2)
        return present >= 3 and any(len(items) >= 2 for _, items in got[2:])

    # ---- LE answer == BE answer for one model (adjacent case lines)
    def extra(self, ctx):
        out = []
        cases = ctx["cases"]
        if ctx.get("replay") and len(cases) == 1:
            return self.replay_twin(ctx, cases[0])
        for prof, ans in ctx["impl"].items():
            pairs = []
            heads = []
            for c in cases:
                try:
                    h, tag, rest = c.split(" ", 2)
                    heads.append((rest.split(" ", 6)[:6], rest.count(" ")))
                except ValueError:
                    heads.append(None)
            for i in range(len(cases) - 1):
                a0, b0 = heads[i], heads[i + 1]
                # adjacent lines = one model in both byte orders (same header fields, same token count)
                if a0 and b0 and a0[0][0] == "0" and b0[0][0] == "1" and a0[0][1:] == b0[0][1:] and a0[1] == b0[1]:
                    pairs.append({"0": i, "1": i + 1})
            ctx["info"]["le_be_pairs_compared"] = len(pairs)
            for d in pairs:
                if ans[d["0"]] is None or ans[d["1"]] is None:
                    continue
                a = self.endian_neutral(cases[d["0"]], ans[d["0"]])
                b = self.endian_neutral(cases[d["1"]], ans[d["1"]])
                if a != b:
                    k = next((i for i, (x, y) in enumerate(zip(a, b)) if x != y), -1)
                    out.append({"case": cases[d["1"]], "profile": prof, "found_input": True,
                                "what": "the same model written little- and big-endian parses differently in section %s: LE %s / BE %s"
                                        % (SECTIONS[k] if 0 <= k < len(SECTIONS) else "?", str(a[k])[:200] if k >= 0 else "", str(b[k])[:200] if k >= 0 else "")})
        return out

    def replay_twin(self, ctx, case):
        """--replay of a single case: serialize the same model in the other byte order and compare"""
        out = []
        try:
            h, tag, rest = case.split(" ", 2)
            toks = [int(x) for x in rest.split()]
            parse_model(toks)
        except Exception:
            return out
        toks[0] = 1 - toks[0]
        h2 = self.encode_all([toks])[0]
        m2 = parse_model(toks)
        tail = m2.get("tail") or []
        for (kind, x), ent in zip(tail, m2["extra"][len(m2["extra"]) - len(tail):]):
            h2 += ser_tail(kind, x, ent[2], toks[0] == 1)[1].hex()
        twin = hexline(h2, "N", toks)
        for prof, ans in ctx["impl"].items():
            if not ans or ans[0] is None:
                continue
            exe = ctx["exes"][(self.bins[0], prof)]
            tans, dead = vlib.run_lines([exe], [twin], timeout=self.impl_timeout, mem_gb=self.impl_mem_gb)
            if dead or tans[0] is None:
                out.append({"case": twin, "profile": prof, "found_input": True, "what": "implementation died on the other byte order of this model"})
                continue
            a = self.endian_neutral(case, ans[0])
            b = self.endian_neutral(twin, tans[0])
            if a != b:
                k = next((i for i, (x, y) in enumerate(zip(a, b)) if x != y), -1)
                out.append({"case": case, "profile": prof, "found_input": True,
                            "what": "the same model written little- and big-endian parses differently in section %s: this %s / other %s"
                                    % (SECTIONS[k] if 0 <= k < len(SECTIONS) else "?", str(a[k])[:200] if k >= 0 else "", str(b[k])[:200] if k >= 0 else "")})
        return out

    def endian_neutral(self, case, ans):
        got = parse_answer(ans.split(" ## ")[0])
        if got is None:
            return ["READFAIL"]
        got[0] = (got[0][0], [it[1:] for it in got[0][1]])
        # CPU contexts are byte blobs in the model: the same bytes are different register values in the
        # other byte order, so the parsed registers are not part of the LE/BE comparison
        got[2] = (got[2][0], [it[:7] if len(it) > 6 and it[6] == -1 else it[:11] for it in got[2][1]])
        got[8] = (got[8][0], [it[:23] for it in got[8][1]])
        # raw stream bytes are byte-order dependent: the directory is compared by type, index, location, status and length
        di = SECTIONS.index("dir")
        got[di] = (got[di][0], [it[:6] for it in got[di][1]])
        try:
            _, _, m = parse_case(case)
        except Exception:
            return got
        # byte-order dependent by design: the ELF debug id (GUID read in the dump's byte order) and
        # raw CodeView blobs whose signature is only recognised in one byte order
        if m.get("mod") is not None and any(x["cv"][0] == 4 for x in m["mod"]):
            got[3] = "raw CodeView blob of unknown kind: not compared"
        elif m.get("mod") is not None and any(x["cv"][0] == 3 for x in m["mod"]) and got[3][0] == 2:
            got[3] = (2, [self.mask_debug_id(it) for it in got[3][1]])
        return got


PROP = C02()
