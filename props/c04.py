"""C04 — stack walking recovers the true call chain of well-formed stacks.

Cases are C05 case lines (same harness binary, same walker model) with one extra trailing token
  E:<instr>,<resume>,<sp>,<trust>[,<fp>]|...        the generated call chain (callers of the context frame)
which the harness and the model driver ignore and the oracle compares with the implementation's frames.
Sources of cases:
  (a) scan-findable stacks laid out by the Coq builder C04.Model.scan_layout (the object of theorem
      c04_recovers_chain_partial_scan), requested from the extracted model (`L` lines); the Coq chain
      (scan_chain) must equal the chain computed here in Python;
  (b) frame-pointer chains, scan-findable stacks and CFI-described stacks built in Python
      (props/c05.py::build_chain) for every CPU x OS, depth 1..64, also at the top of the address space;
  (c) stacks mixing CFI and scan per frame (Python-built), and stacks mixing CFI, frame-pointer and scan frames laid out
      by the Coq builder C04.Model.mix_layout, the object of theorem c04_recovers_chain: words (incl. saved frame
      pointers), chain and precondition from the model;
  (d)-(f) x86 STACK WIN stacks: frame data / FPO / STACK CFI mixed, direct recursion, and scan / STACK WIN / CFI mixes
      with grand-callee parameter sizes."""
import subprocess

import vlib
from props.c05 import ARCH, build_chain, c05_oracle, fmt_case, fp_supported, le_bytes, parse_case, parse_frames, sym, win_stack
from runner import PropBase
from vlib import Rng

WINDOWS = {0: (160, 40, 0), 1: (160, 40, 0), 2: (160, 40, 0), 3: (160, 40, 0), 6: (160, 40, 0), 4: (256, 252, 4), 5: (128, 128, 0)}


def fmt_exp(exp):
    def one(e):
        f = [e["instr"], e["resume"], e["sp"], e["trust"]]
        if "valid" in e:
            f += [e.get("fp", "-"), e["valid"]]
        elif "fp" in e:
            f += [e["fp"]]
        return ",".join(str(x) for x in f)
    return "E:" + "|".join(one(e) for e in exp) if exp else "E:-"


def parse_exp(case):
    tok = case.rsplit(" ", 1)[-1]
    if not tok.startswith("E:"):
        return None
    if tok == "E:-":
        return []
    out = []
    for f in tok[2:].split("|"):
        p = f.split(",")
        e = dict(instr=int(p[0]), resume=int(p[1]), sp=int(p[2]), trust=p[3])
        if len(p) > 4 and p[4] != "-":
            e["fp"] = int(p[4])
        if len(p) > 5:
            e["valid"] = p[5]
        out.append(e)
    return out


# the documented register sets (ABI callee-saved registers each unwinder forwards through a CFI frame; the names a scan
# / the CFI walker marks valid) -- written down here, NOT read from the sources
CALLEE_SAVED = {0: ["ebp", "ebx", "edi", "esi"], 1: ["rbx", "rbp", "r12", "r13", "r14", "r15"],
                2: ["r4", "r5", "r6", "r7", "r8", "r9", "r10", "fp"],
                3: ["x%d" % i for i in range(19, 29)] + ["fp"], 4: ["s%d" % i for i in range(8)] + ["gp", "sp", "fp"]}
CALLEE_SAVED[5] = CALLEE_SAVED[4]
CALLEE_SAVED[6] = CALLEE_SAVED[3]
CFI_SP_IP = {0: ["esp", "eip"], 1: ["rsp", "rip"]}
SCAN_VALID = {0: ["eip", "esp"], 1: ["rip", "rsp"], 2: ["r15", "r13"]}
FP_VALID = {0: ["eip", "esp", "ebp"], 1: ["rip", "rsp", "rbp"], 3: ["pc", "sp", "x29"], 6: ["pc", "sp", "x29"]}
# other spellings of a callee-saved register (ARM r11 = fp, ARM64 x29 = fp): a register is recovered whichever spelling marked it
ALIASES = {2: {"fp": ["r11"]}, 3: {"fp": ["x29"]}, 6: {"fp": ["x29"]}}


def add_expected_validity(arch, exp):
    """validity set of every generated call of a CFI / scan stack whose context has all registers valid: a CFI frame
    keeps the callee-saved registers that were valid in its callee and adds sp and pc; a scanned frame has pc and sp only"""
    v = None        # None = all valid
    for e in exp:
        if e["trust"] == "cfi":
            v = set(n for n in CALLEE_SAVED[arch]
                    if v is None or n in v or any(x in v for x in ALIASES.get(arch, {}).get(n, []))) | set(CFI_SP_IP.get(arch, ["sp", "pc"]))
        elif e["trust"] == "frame_pointer":
            v = set(FP_VALID[arch])
        else:
            v = set(SCAN_VALID.get(arch, ["pc", "sp"]))
        e["valid"] = "+".join(sorted(v))
    return exp


def mixed_stack(rng, arch, os_, depth):
    """frames alternate between a module with CFI (+FUNC) symbols and one without symbols (scan)."""
    A = ARCH[arch]
    pw, bits, adj = A["pw"], A["bits"], A["adj"]
    if arch == 2 and os_ == 2:
        os_ = 0     # ARM on iOS: a valid fp of 0 ends the walk by design (frame-pointer technique's terminator), no scan
    m0 = 0x40000000
    m1 = 0x50000000
    n_words = rng.range(2, 6) * (2 if arch in (3, 6) else 1)
    mods = [(m0, 0x10000, sym(0, 0x10000, 0, 0x10000, n_words * pw, 0, pw, None)), (m1, 0x10000, "-")]
    win_ctx, win, skip = WINDOWS[arch]
    base = 0x80000000 if bits == 32 else 0x00007ffd00000000
    techs = [rng.choice(["cfi", "scan"]) for _ in range(depth)]
    ip0 = (m0 if techs[0] == "cfi" else m1) + 0x50
    data, exp = [], []
    sp = base
    for i, t in enumerate(techs):
        nxt = techs[i + 1] if i + 1 < depth else rng.choice(["cfi", "scan"])
        ra = (m0 if nxt == "cfi" else m1) + 0x100 + 0x10 * (i % 100)
        decoy = lambda: le_bytes(rng.choice([m1 + 0x300 + 4 * rng.below(64), m0 + 0x300 + 4 * rng.below(64), 0]), pw)
        if t == "cfi":
            # CFI never looks at the frame's other words: fill them with return-address look-alikes
            for _ in range(n_words - 1):
                data += decoy()
            data += le_bytes(ra, pw)
            sp += n_words * pw
        else:
            lo = skip if i > 0 else 0
            gap = rng.range(lo, lo + rng.choice([0, 1, 5, (win_ctx if i == 0 else win) - 1 - lo]))
            # mips32: the first MIN_ARGS words of a non-context frame (outgoing argument area) are skipped by the
            # scan -- plant code-looking values exactly there
            for w in range(gap):
                data += decoy() if w < lo else [0] * pw
            data += le_bytes(ra, pw)
            sp += (gap + 1) * pw
        exp.append(dict(instr=ra - adj, resume=ra, sp=sp, trust=t))
    case = fmt_case(arch, os_, ip0, base, 0, 0, [0] * A["ngp"], "*", base, data, mods)
    return case, add_expected_validity(arch, exp)


WIN_PROGRAM_KEEP_EBP = "$T0 .raSearchStart = $eip $T0 ^ = $esp $T0 4 + = $ebp $ebp ="


def win_recursion_stack(rng, depth):
    """x86 thread, every function described by ONE STACK WIN record (FPO type 0, or frame data type 4), some functions
    covered by STACK WIN only (no FUNC/PUBLIC record: StackFrame::parameter_size stays None, such functions take no stack
    parameters), with DIRECT RECURSION FROM A SINGLE CALL SITE: `depth` >= 3 activations of one function whose return
    addresses are all the same address, so the word at esp+frame_size of an activation equals that activation's own eip.
    The leftover-return-address heuristic of FPO unwinding applies to the context frame only; every caller must come out
    by the plain formula.  Layout per frame as win_stack: [arguments pushed for the callee][locals][saved regs][return address].
    Returns (case line, expected callers)."""
    A = ARCH[0]
    mb = 0x40000000
    base = 0x80000000
    n_inner = rng.choice([1, 1, 2])            # frames below the recursion (context frame first)
    n_outer = rng.choice([0, 1, 2])            # frames above it
    kinds = ["fpo", "fpo", "fd", "fpo_bp"]

    def mkfun(i):
        kind = rng.choice(kinds)
        saved = rng.choice([8, 12]) if kind == "fpo_bp" else rng.choice([0, 4, 8])
        has_func = rng.chance(1, 2)
        return dict(off=0x1000 + 0x200 * i, kind=kind, saved=saved, locals=4 * rng.range(0 if saved else 1, 6),
                    has_func=has_func, params=rng.choice([0, 4, 8, 12]) if has_func else 0, fpsize=rng.choice([0, 4, 8]))
    inner = [mkfun(i) for i in range(n_inner)]
    rec = mkfun(n_inner)
    if rng.chance(2, 3):
        rec["has_func"], rec["params"] = False, 0       # the recursing function is STACK WIN-only
    if rng.chance(2, 3):
        rec["kind"] = rng.choice(["fpo", "fpo", "fpo_bp"])
        if rec["kind"] == "fpo_bp" and rec["saved"] < 8:
            rec["saved"] = 8
    outer = [mkfun(n_inner + 1 + i) for i in range(n_outer)]
    acts = inner + [rec] * depth + outer               # one entry per frame, innermost first
    rr = mb + rec["off"] + 0x50                        # THE call site's return address inside the recursing function
    site = lambda f: mb + f["off"] + 0x10 + 4 * rng.below(12)
    decoys = [rr, mb + rec["off"] + 0x20, base + 4 * rng.below(64), 0x11110000 + rng.below(100)] + [mb + f["off"] + 0x30 for f in inner + outer]
    data, exp = [], []
    sp = base
    fp0 = rng.choice([0, base + 64])
    fp = fp0
    for i, f in enumerate(acts):
        gcps = acts[i - 1]["params"] if i > 0 else 0
        fsize = gcps + f["locals"] + f["saved"]
        if i + 1 >= len(acts):
            ra = 0
        elif acts[i + 1] is rec:
            # into the recursing function: its single recursive call site, or (from an inner function, sometimes) another site
            ra = rr if (f is rec or rng.chance(1, 2)) else site(rec)
        else:
            ra = site(acts[i + 1])
        words_ = [rng.choice(decoys) for _ in range(fsize // 4)]
        for w in words_:
            data += le_bytes(w, 4)
        data += le_bytes(ra, 4)
        sp += fsize + 4
        # the caller's %ebp: passed through (FPO without base pointer, frame data program `$ebp $ebp =`), or the word the
        # function saved at esp + (arguments for the callee) + saved registers - 8
        if f["kind"] == "fpo_bp":
            fp = words_[(gcps + f["saved"] - 8) // 4]
        if ra:
            exp.append(dict(instr=ra - 1, resume=ra, sp=sp, trust="cfi", fp=fp))
    data += le_bytes(0, 4) * 2
    lines, seen = [], set()
    for f in acts:
        if f["off"] in seen:
            continue
        seen.add(f["off"])
        if f["has_func"]:
            lines.append("FUNC %x 100 %x f%x" % (f["off"], f["fpsize"], f["off"]))
        if f["kind"] == "fd":
            lines.append("STACK WIN 4 %x 100 0 0 %x %x %x 0 1 %s" % (f["off"], f["params"], f["saved"], f["locals"], WIN_PROGRAM_KEEP_EBP))
        else:
            lines.append("STACK WIN 0 %x 100 0 0 %x %x %x 0 0 %d" % (f["off"], f["params"], f["saved"], f["locals"],
                                                                     1 if f["kind"] == "fpo_bp" else 0))
    sym_t = "T|" + "|".join(l.replace(" ", "~") for l in lines)
    gp = [rng.choice([0x0b0b0b0b, 0, mb + 0x1234])] + [0] * (A["ngp"] - 1)
    ip0 = mb + acts[0]["off"] + 0x14 + 4 * rng.below(8)
    case = fmt_case(0, rng.choice([1, 1, 0]), ip0, base, fp0, 0, gp, "*", base, data, [(mb, 0x10000, sym_t)])
    return case, exp


WIN_PROGRAM_PLAIN = "$T0 .raSearchStart = $eip $T0 ^ = $esp $T0 4 + ="


def win_scan_mix_stack(rng, depth):
    """x86 thread with the technique chosen PER FRAME among: stack scanning (the function has a FUNC record with a
    parameter size but no unwind data, and %ebp is 0 / unknown, so the frame-pointer technique gives up), STACK WIN frame
    data, STACK WIN FPO, both kinds with different parameter sizes, STACK CFI.  Frame i holds
    [arguments pushed for its callee = parameter size of function i-1][locals][saved regs][return address]: the arguments
    are there whatever technique recovered frame i, so the function i+1 must come out by the plain formula also when
    frame i was found by scanning and function i-1 takes stack parameters (FUNC or STACK WIN parameter size).
    Words of a scanned frame never look like return addresses; the word below a scanned return address is a saved %ebp
    the scan recovers; every slot skipped by STACK WIN / CFI holds look-alikes.  Returns (case line, expected callers)."""
    A = ARCH[0]
    mb = 0x40000000
    base = 0x80000000
    os_ = rng.choice([1, 1, 0])
    nfun = depth + 1
    funs = []
    for i in range(nfun):
        kind = rng.choice(["none", "none", "fd", "fd", "fpo", "both", "cfi"])
        if i == 0 and rng.chance(1, 2):
            kind = "none"
        saved = rng.choice([0, 4, 8])
        funs.append(dict(off=0x1000 + 0x200 * i, kind=kind, params=rng.choice([0, 4, 8, 12]), stale=rng.choice([0, 4, 16]),
                         fpsize=rng.choice([0, 4, 8, 12]), saved=saved if kind != "none" else 0, locals=4 * rng.range(0, 8)))

    def eff_params(f):      # what fill_symbol records for a frame in this function: frame data > FPO > FUNC
        return f["params"] if f["kind"] in ("fd", "both", "fpo") else f["fpsize"]
    code = lambda i: mb + funs[i]["off"] + 0x10 + 4 * rng.below(32)
    lookalike = lambda: rng.choice([mb + funs[rng.below(nfun)]["off"] + 0x20, base + 4 * rng.below(64), rng.below(1 << 32), 0x11110000 + rng.below(100)])
    inert = lambda: rng.choice([0, 0, base + 4 * rng.below(64), 0x11110000 + rng.below(100), 1 + rng.below(4000)])
    data, exp, lines, patch = [], [], [], []
    sp = base
    for i in range(nfun):
        f = funs[i]
        gcps = eff_params(funs[i - 1]) if i > 0 else 0
        fsize = gcps + f["locals"] + f["saved"]
        ra = code(i + 1) if i + 1 < nfun else 0
        nw = fsize // 4
        if f["kind"] == "none":
            if nw == 0:
                f["locals"], nw = 4, 1            # room for the saved-%ebp slot below the return address
            fsize = 4 * nw                        # (at most 3 + 7 + 1 words: inside the 40-word window)
            for w in range(nw):
                if w == nw - 1:
                    patch.append(len(data))
                data += le_bytes(0 if w == nw - 1 else inert(), 4)
        else:
            for _ in range(nw):
                data += le_bytes(lookalike(), 4)
        data += le_bytes(ra, 4)
        sp += fsize + 4
        if ra:
            exp.append(dict(instr=ra - 1, resume=ra, sp=sp, trust="scan" if f["kind"] == "none" else "cfi"))
        lines.append("FUNC %x 100 %x f%d" % (f["off"], f["fpsize"], i))
        if f["kind"] in ("fd", "both"):
            lines.append("STACK WIN 4 %x 100 0 0 %x %x %x 0 1 %s" % (f["off"], f["params"], f["saved"], f["locals"], WIN_PROGRAM_PLAIN))
        if f["kind"] == "both":
            stale = f["stale"] if f["stale"] != f["params"] else f["params"] + 4
            lines.append("STACK WIN 0 %x 100 0 0 %x %x %x 0 0 0" % (f["off"], stale, f["saved"], f["locals"]))
        if f["kind"] == "fpo":
            lines.append("STACK WIN 0 %x 100 0 0 %x %x %x 0 0 0" % (f["off"], f["params"], f["saved"], f["locals"]))
        if f["kind"] == "cfi":
            lines.append("STACK CFI INIT %x 100 .cfa: $esp %d + .ra: .cfa 4 - ^" % (f["off"], fsize + 4))
    data += le_bytes(0, 4) * 2
    # the word below every scanned return address is a saved %ebp = the address of the LAST word of the stack memory:
    # the scan recovers it (STACK WIN frame data needs a valid %ebp), and the frame-pointer technique gives up on it
    # (the return-address slot at %ebp + 4 is outside the stack memory)
    last_word = base + len(data) - 4
    for o in patch:
        data[o:o + 4] = le_bytes(last_word, 4)
    sym_t = "T|" + "|".join(l.replace(" ", "~") for l in lines)
    gp = [rng.choice([0x0b0b0b0b, 0, mb + 0x1234])] + [0] * (A["ngp"] - 1)
    case = fmt_case(0, os_, mb + funs[0]["off"] + 0x10, base, rng.choice([0, last_word]), 0, gp, "*", base, data, [(mb, 0x10000, sym_t)])
    return case, exp


def c04_oracle(case, ans):
    bad = c05_oracle(case, ans)
    if bad:
        return bad
    exp = parse_exp(case)
    if exp is None:
        return None
    fr = parse_frames(ans)[1:]
    for i, e in enumerate(exp):
        if i >= len(fr):
            return "the walk stopped after %d of %d generated calls (next expected: return address %d, sp %d, %s)" % (
                len(fr), len(exp), e["resume"], e["sp"], e["trust"])
        f = fr[i]
        for k in ("instr", "resume", "sp", "trust"):
            if f[k] != e[k]:
                return "call %d: %s is %s, generated chain has %s (frame: ra=%d sp=%d %s; expected ra=%d sp=%d %s)" % (
                    i + 1, k, f[k], e[k], f["resume"], f["sp"], f["trust"], e["resume"], e["sp"], e["trust"])
        if "fp" in e and f["fp"] != e["fp"]:
            return "call %d: recovered frame pointer %d, generated %d" % (i + 1, f["fp"], e["fp"])
        if "valid" in e and "+".join(sorted(f["valid"].split("+"))) != e["valid"]:
            return "call %d (%s): registers marked recovered are %s, the calling convention gives %s" % (
                i + 1, e["trust"], f["valid"], e["valid"])
    if len(fr) > len(exp):
        return "the walk did not stop at the generated end of stack: %d extra frame(s), first has return address %d" % (
            len(fr) - len(exp), fr[len(exp)]["resume"])
    c = parse_case(case)
    for i, f in enumerate(parse_frames(ans)):
        want = None
        for k, (mb, ms, _) in enumerate(c["mods"]):
            if mb <= f["instr"] < mb + ms:
                want = k
                break
        if f["module"] != want:
            return "frame %d: module is %s, the module list puts instruction %d in %s" % (i, f["module"], f["instr"], want)
    return None


class C04(PropBase):
    pid = "C04"
    coq_dirs = ["Base", "Gen", "C08", "C05", "C04"]
    translators = ["unwind_consts.py"]
    bins = ["c05"]
    impl_timeout = 3000     # wall-clock backstop only: a hanging case is ended by the per-case CPU-time watchdog of the harness
    model_timeout = 20000    # wall-clock backstop only: at load 170+ the thorough tier's Coq-built layouts took more than 3000 s of wall time (round 5)
    rule = ("cases = well-formed synthetic threads: (a) scan-findable stacks laid out by the Coq builder scan_layout, depth 1..64, gaps up "
            "to the window edge (159 / 39 words; MIPS64 127); (a') stacks with the technique chosen per frame (CFI / frame pointer / scan) laid out by the Coq "
            "builder mix_layout (words incl. the saved frame pointers and the context's frame pointer, expected chain mix_chain and the boolean "
            "precondition mix_wf_layout all from the extracted model; two CFI "
            "modules with different frame sizes, look-alike return addresses in every CFI frame, in frame-pointer frames and in the skipped mips32 "
            "argument words; frame-pointer frames on x86 / amd64 / arm64 in half of the stacks of depth >= 2, placed where the precondition allows: "
            "while the frame pointer is valid, amd64 without a later scan frame; arm64 mixes frame-pointer and CFI frames like x86 since the repair of F-C04a); "
            "(b) frame-pointer chains, scan-findable and CFI-described stacks for every CPU "
            "(x86, amd64, arm, arm64, arm64_old, mips32, mips64) x OS (other, windows, ios), depth 1..64, 1-3 modules, also at the top of the "
            "address space; (c) stacks mixing CFI and scan per frame; (d) x86 stacks whose functions are described by STACK WIN frame-data / "
            "FPO records and STACK CFI mixed per frame, depth 3..40; (e) x86 STACK WIN stacks (FPO type 0 with and without "
            "allocates_base_pointer, frame data type 4) with direct recursion from a single call site, depth 3..16 activations, where functions "
            "(in two thirds of the stacks the recursing one) have no FUNC/PUBLIC record; (f) x86 stacks mixing per frame: scanned frames (FUNC with a "
            "parameter size, no unwind data, saved-%ebp slot), STACK WIN frame data, FPO, STACK CFI, depth 2..40, the frame above a scanned frame "
            "holding the arguments of the scanned frame's callee; non-trivial = at least 2 frames; distinct = distinct case lines")
    trusted_base = [
        "Coq 8.16.1 kernel (vm_compute only in the non-vacuity Examples)",
        "walker model C05/Model.v (hand-written, correspondence-checked) and the stack builders of C04/Model.v",
        "c04_recovers_chain_attributed: C08's range-map model / C11's symbolize model and their theorems (module_at_covers, func_sound), checked at C08 / C11",
        "the CFI / mixed theorems are about the abstract *correct* oracles cfi_correct / mix_cfi_correct and about cfi_rules, a hand-written evaluator of one rule family over an abstract rule table (compared with the code only through the Coq-built layouts: its computed walk = the chain = the real walker's frames); parsing and evaluation of real STACK CFI text is C06's",
        "extraction: ExtrOcamlBasic only; ocaml/zconv.ml + ocaml/c04/main.ml; harness/src/bin/c05.rs",
    ]
    manifest = {
        "text": "PARTIAL. Theorems (Coq, unbounded depth by induction on the list of frame specs, both profiles, any module lookup): "
                "c04_recovers_chain — technique chosen PER FRAME among CFI (abstract correct symbol-file oracle, or any oracle agreeing with it on the "
                "frames of the walk), frame pointer ([words][saved fp][ra], x86 / amd64 incl. its sanity checks and the Windows slack scan / arm64) and "
                "scanning, for x86, amd64, arm (not iOS), arm64(+old), mips32, mips64 (c04_mix_archs): every stack satisfying the "
                "boolean precondition mix_wf_layout (scan frames: return address inside the 160/40-word window of its callee after the skipped mips32 "
                "argument words, acceptable to instruction_seems_valid, padding not, the callee's frame pointer not valid or 0; CFI frames: arbitrary "
                "words, callee's lookup address inside a module (a valid frame pointer is carried on as a callee-saved register on every "
                "architecture: mix_arch's fp_carried clause, true for arm / arm64 since the repair of F-C04a); frame-pointer frames: the callee's frame pointer valid and pointing at the saved word, canonical return "
                "address, amd64: saved frame pointer and caller sp readable) is walked to exactly the generated chain — one frame per call with return "
                "address, instruction = ra - adj, sp, trust cfi/frame_pointer/scan, recovered frame pointer, "
                "validity set (callee-saved forwarded through CFI frames, {ip, sp, fp} after a frame-pointer frame, {ip, sp} after a scan), general "
                "registers carried through CFI frames — and the walk stops at the generated end; c04_recovers_chain_rules — the same with the CFI frames evaluated by cfi_rules, the evaluator of the rule "
                "family `.cfa: sp N + .ra: .cfa pw - ^` (sp validity, u64 wrapping, the read of the return address, register-width checks), under the "
                "boolean rules_ok (each CFI frame's callee covered by a record with N = the frame size, each scan frame's callee by none); "
                "c04_recovers_chain_reached — for any oracle agreeing with the correct one on the frames the walk reaches; "
                "c04_recovers_chain_attributed — the recovered chain call by call: lookup address ra - adj, return address, technique label, and the "
                "module (C08's range map over the module list) and function (C11's model of fill_symbol on any well-formed symbol file) attached to "
                "the frame cover that lookup address; c04_callee_saved pins the forwarded register sets, c04_fwd_alias_pinned the comparison "
                "each callee_forwarded_regs makes (literal / register_is_valid, regenerated from the sources) and the spellings involved; c04_recovers_chain_partial_scan / _cfi / _cfi_any / _fp — one technique per walk (scan incl. mips32, "
                "CFI, frame-pointer chains for x86, amd64 with/without the Windows slack scan, arm/iOS, arm64); c04_constants pins the documented "
                "windows / slack. F-C04a (arm64/arm: x29/r11 was not forwarded through a CFI frame behind a frame-pointer frame) is fixed in /repo; "
                "c04_fp_behind_cfi_unfixed_refuted keeps the refutation of the old literal comparison (literal_fwd arm64) next to the recovery of the "
                "same stack by the code as it is now; the witness stays in corpus/C04 as an ordinary case. STACK WIN and real STACK CFI text are covered by the "
                "correspondence run only: "
                "depth 1..64 stacks for every CPU x OS through the real walk_stack and the extracted model (incl. stacks laid out by the Coq builders "
                "of the scan and mixed theorems), with an independent oracle comparing the frames with the generated chain.",
        "note": "Partial: in the mixed theorem a scan frame loses the frame pointer (x86/amd64 %ebp recovery by the scan is not in the mix: scanned "
                "words are 0), ARM/iOS frame pointers and the arm64 leaf rule are in the single-technique theorems / the run only; CFI is the abstract correct oracle in "
                "the theorems (c04_recovers_chain_rules evaluates one rule family over an abstract rule table, not rule text), the evaluation of rule text is C06's / C07's model inside C05's walker in the run. STACK WIN: all-FPO stacks of unbounded "
                "depth are proved at C07 (c07_fpo_recovers_chain, on C07's model of walk_stack's loop with the translated from_ctx_and_args derivation); "
                "frame-data programs, allocates_base_pointer = 1, mixes with STACK CFI and with scanned frames are covered by the run (d, e, f) through "
                "the whole symbol-file model (C09 grammar + C07 evaluation inside C05's walker). "
                "Function names: c04_recovers_chain_attributed is about C11's model of fill_symbol (C11's func_sound, C05's function_covers), the "
                "run of C04 observes the module index only. Trusted: Coq kernel, hand-written walker model (correspondence-checked), extraction + glue.",
    }
    assumptions = ["stack memory little-endian; symbol provider = breakpad Symbolizer over string symbol files",
                   "CFI evaluation abstract in the theorem (correct oracle); concrete rule family `.cfa: SP N + .ra: .cfa w - ^` in the run"]
    _prof = "debug"

    def canon_model(self, case, ans):
        parts = ans.split(" ## ")
        if len(parts) != 2:
            return ans
        return parts[0] if self._prof == "debug" else parts[1]

    def canon_impl(self, case, ans, profile):
        return "P" if ans.startswith("P;;") else ans

    def oracle(self, case, ans, profile):
        self._prof = profile
        return c04_oracle(case, ans)

    def nontrivial(self, case, ans):
        return ans.count("|") >= 1

    chain_diff = []
    rules_broken = []
    not_wf = 0

    def extra(self, ctx):
        out = []
        for case in self.rules_broken[:1]:
            out.append({"case": case, "profile": "model", "found_input": False,
                        "what": "mix_wf_layout and rules_ok hold for this Coq-built layout but the walker model with the rule evaluator cfi_rules "
                                "does not return mix_chain (c04_recovers_chain_rules contradicted by computation)"})
        for case, coq_chain, mine in self.chain_diff[:1]:
            out.append({"case": case, "profile": "model", "found_input": True,
                        "what": "the chain of the Coq builder (scan_chain, constants from the sources) is %s..., the documented chain is %s..." % (coq_chain[:80], mine[:80])})
        return out

    def coq_layouts(self, rng, n):
        """scan stacks laid out by the extracted Coq builder"""
        reqs, exps = [], []
        for _ in range(n):
            arch = rng.choice([0, 1, 2, 3, 5, 6])
            A = ARCH[arch]
            pw, bits, adj = A["pw"], A["bits"], A["adj"]
            os_ = rng.choice([0, 1, 2])
            win_ctx, win, _ = WINDOWS[arch]
            depth = rng.choice([1, 2, 3, 5, 8, 13, 21, 34, 64])
            nmods = rng.range(1, 3)
            mb = 0x40000000 if bits == 32 else rng.choice([0x00007400c0000000, 0x40000000])
            mods = [(mb + i * 0x20000, 0x10000, "-") for i in range(nmods)]
            base = 0x80000000 if bits == 32 else 0x00007ffd00000000
            specs, exp, off = [], [], 0
            for i in range(depth):
                lim = (win_ctx if i == 0 else win) - 1
                gap = rng.choice([0, 1, 2, rng.below(lim + 1), lim])
                ra = mods[i % nmods][0] + 0x100 + 0x10 * (i % 200)
                specs.append((gap, ra))
                off += gap + 1
                exp.append(dict(instr=ra - adj, resume=ra, sp=base + pw * off, trust="scan"))
            ip0 = mods[0][0] + 0x50
            reqs.append("L %d %d %d %d %d %s %d %s" % (arch, os_, base, ip0, depth, " ".join("%d %d" % s for s in specs), nmods,
                                                      " ".join("%d %d %s" % m for m in mods)))
            exps.append(exp)
        exe = vlib.os.path.join(vlib.CACHE, "ocaml", "c04", "model")
        p = subprocess.run([exe], input="\n".join(reqs) + "\n", stdout=subprocess.PIPE, text=True, timeout=20000)
        outs = p.stdout.split("\n")[:len(reqs)]
        if len(outs) != len(reqs) or p.returncode != 0:
            raise vlib.CheckFailure("layout requests to the C04 model failed")
        cases = []
        for req, out, exp in zip(reqs, outs, exps):
            case, chain, wf = out.split(" ## ")
            if wf != "1":
                # the windows in the sources moved away from the documented ones the generator uses: keep the case,
                # the oracle will show the walker missing the generated chain (and c04_constants no longer proves)
                self.not_wf = getattr(self, "not_wf", 0) + 1
            mine = "|".join("%d,%d,%d" % (e["instr"], e["resume"], e["sp"]) for e in exp)
            cases.append(case + " " + fmt_exp(exp))
            if chain != mine:
                # cannot happen on the unchanged tree (the builder's constants are the documented ones); reported by extra()
                self.chain_diff.append((cases[-1], chain[:200], mine[:200]))
        return cases

    def model_exe(self):
        d = vlib.ALT_DIR if getattr(vlib, "ALT", None) else vlib.CACHE
        exe = vlib.os.path.join(d, "ocaml", "c04", "model")
        return exe if vlib.os.path.exists(exe) else vlib.os.path.join(vlib.CACHE, "ocaml", "c04", "model")

    def coq_mixed_layouts(self, rng, n):
        """technique-per-frame (CFI / frame pointer / scan) stacks laid out by the extracted Coq builder mix_layout, the object
        of theorem c04_recovers_chain: stack words (incl. the saved frame pointers and the context's frame pointer), expected
        chain (mix_chain) and the boolean precondition (mix_wf_layout, with the case's own module lookup and
        instruction_seems_valid) all come from the model; the chain is also computed here."""
        reqs, exps = [], []
        for _ in range(n):
            arch = rng.choice([0, 1, 2, 3, 4, 4, 5, 6])
            A = ARCH[arch]
            pw, bits, adj = A["pw"], A["bits"], A["adj"]
            os_ = rng.choice([0, 1, 2])
            if arch == 2 and os_ == 2:
                os_ = 0     # ARM on iOS is outside mix_arch (a valid fp of 0 ends the walk by design)
            win_ctx, win, skip = WINDOWS[arch]
            depth = rng.choice([1, 2, 3, 5, 8, 13, 21, 34, 64])
            k = 2 if arch in (3, 6) else 1
            sizes = [rng.range(1, 6) * k, rng.range(1, 9) * k]       # words per CFI frame in the two CFI modules
            cm = [0x40000000, 0x40020000]
            m1 = 0x50000000
            mods = [(cm[0], 0x10000, sym(0, 0x10000, 0, 0x10000, sizes[0] * pw, 0, pw, None)), (m1, 0x10000, "-"),
                    (cm[1], 0x10000, sym(0, 0x10000, 0, 0x10000, sizes[1] * pw, 0, pw, None))]
            base = 0x80000000 if bits == 32 else 0x00007ffd00000000
            # 0, 2: CFI module 0 / 1; 1: scan; 3: frame pointer.  Frame-pointer frames (x86, amd64, arm64) where the theorem's
            # precondition allows them: while the frame pointer is still valid (a scan loses it); amd64: no scan frame after a
            # frame-pointer frame and not as the outermost frame (its sanity checks want readable addresses).  arm64 mixes
            # frame-pointer and CFI frames like x86 since the repair of F-C04a (x29 is carried through CFI frames)
            techs = [rng.choice([0, 1, 2]) for _ in range(depth + 1)]
            if arch in (0, 1, 3, 6) and depth >= 2 and rng.chance(1, 2):
                if arch in (0, 3, 6):
                    nfp = rng.range(1, depth)
                    for i in range(nfp):
                        techs[i] = rng.choice([0, 2, 3, 3])
                elif arch == 1:
                    for i in range(depth):
                        techs[i] = rng.choice([0, 2, 3, 3])
                    techs[depth - 1] = rng.choice([0, 2])
            modof = lambda t: m1 if t in (1, 3) else cm[t // 2]
            ip0 = modof(techs[0]) + 0x50
            lookalike = lambda: rng.choice([m1 + 0x300 + 4 * rng.below(64), cm[0] + 0x300 + 4 * rng.below(64), cm[1] + 0x300, 0, base + 8 * rng.below(64)])
            specs, exp, off, offs, lens = [], [], 0, [], []
            for i in range(depth):
                t = techs[i]
                ra = modof(techs[i + 1]) + 0x100 + 0x10 * (i % 100)
                if t == 3:
                    fill = [lookalike() for _ in range(rng.range(0, 4))] + [0]      # the last word: the saved frame pointer (placeholder)
                elif t != 1:
                    fill = [lookalike() for _ in range(sizes[t // 2] - 1)]
                else:
                    lo = skip if i > 0 else 0
                    gap = rng.choice([0, 1, 5, (win_ctx if i == 0 else win) - 1])
                    fill = [lookalike() for _ in range(lo)] + [0] * gap
                specs.append("%d %d %s%d" % ({1: 1, 3: 2}.get(t, 0), len(fill), "".join("%d " % w for w in fill), ra))
                offs.append(off)
                lens.append(len(fill))
                off += len(fill) + 1
                exp.append(dict(instr=ra - adj, resume=ra, sp=base + pw * off, trust={1: "scan", 3: "frame_pointer"}.get(t, "cfi")))
            # the frame pointer along the stack: what the callee of record i must hold (the saved-word slot of the next
            # frame-pointer record reached through CFI records, 0 before a scan record, at the end 0 / amd64: the last word)
            term = base + pw * (off - 1) if arch == 1 else 0

            def need(i):
                while i < depth:
                    if techs[i] == 3:
                        return base + pw * (offs[i] + lens[i] - 1)
                    if techs[i] == 1:
                        return 0
                    i += 1
                return term
            st = need(0)
            for i in range(depth):
                if techs[i] == 3:
                    st = need(i + 1)
                elif techs[i] == 1:
                    st = 0
                exp[i]["fp"] = st
            reqs.append("M %d %d %d %d %d %s %d %s" % (arch, os_, base, ip0, depth, " ".join(specs), len(mods),
                                                      " ".join("%d %d %s" % m for m in mods)))
            exps.append(exp)
        # four model processes side by side (each request also computes two walks); no wall-clock limit that a loaded machine could hit
        k = 4
        chunks = [reqs[i::k] for i in range(k)]
        procs = [subprocess.Popen([self.model_exe()], stdin=subprocess.PIPE, stdout=subprocess.PIPE, text=True) for _ in chunks]
        import threading
        res = [None] * k

        def feed(i):
            res[i] = procs[i].communicate("\n".join(chunks[i]) + "\n", timeout=20000)[0]
        ths = [threading.Thread(target=feed, args=(i,)) for i in range(k)]
        for t in ths:
            t.start()
        for t in ths:
            t.join()
        outs = [None] * len(reqs)
        for i in range(k):
            lines = (res[i] or "").split("\n")[:len(chunks[i])]
            if len(lines) != len(chunks[i]) or procs[i].returncode != 0:
                raise vlib.CheckFailure("mixed layout requests to the C04 model failed")
            outs[i::k] = lines
        cases = []
        for out, exp in zip(outs, exps):
            case, chain, wf = out.split(" ## ")
            if wf[:2] != "11":
                self.not_wf = getattr(self, "not_wf", 0) + 1
            elif wf[2] != "1":
                # both boolean preconditions of c04_recovers_chain_rules hold and the computed walk of the model with the rule
                # evaluator is NOT the chain: the theorem (or the extraction) is broken -- cannot happen while the proof checks
                self.rules_broken.append(case)
            mine = "|".join("%d,%d,%d,%s,%d" % (e["instr"], e["resume"], e["sp"], e["trust"], e["fp"]) for e in exp)
            cases.append(case + " " + fmt_exp(add_expected_validity(int(case.split(" ", 1)[0]), exp)))
            if chain != mine:
                self.chain_diff.append((cases[-1], chain[:200], mine[:200]))
        return cases

    def gen_cases(self, tier, seed):
        rng = Rng(seed)
        self.chain_diff = []
        self.rules_broken = []
        self.not_wf = 0
        cases = []
        dist = {"coq_scan_layouts": 0, "python_chains": {}, "mixed": 0}
        n_a = 800 if tier == "quick" else 3000
        cases += self.coq_layouts(rng, n_a)
        dist["coq_scan_layouts"] = n_a
        n_m = 500 if tier == "quick" else 2000
        cases += self.coq_mixed_layouts(rng, n_m)
        dist["coq_mixed_cfi_fp_scan_layouts"] = n_m
        n_b = 4000 if tier == "quick" else 12000
        for _ in range(n_b):
            arch = rng.choice([0, 1, 2, 3, 4, 5, 6])
            os_ = rng.choice([0, 1, 2])
            techs = ["scan", "cfi"] + (["fp", "fp"] if fp_supported(arch, os_) else [])
            tech = rng.choice(techs)
            depth = rng.choice([1, 2, 3, 5, 8, 13, 21, 34, 64])
            case, exp, _ = build_chain(rng, arch, os_, tech, depth, top_of_space=rng.chance(1, 4))
            cases.append(case + " " + fmt_exp(exp))
            key = "%s/%s" % (ARCH[arch]["name"], tech)
            dist["python_chains"][key] = dist["python_chains"].get(key, 0) + 1
        n_c = 1500 if tier == "quick" else 5000
        for _ in range(n_c):
            arch = rng.choice([0, 1, 2, 3, 4, 4, 4, 5, 6])
            case, exp = mixed_stack(rng, arch, rng.choice([0, 1, 2]), rng.choice([1, 2, 3, 5, 8, 13, 21, 34, 64]))
            cases.append(case + " " + fmt_exp(exp))
            dist["mixed"] += 1
        n_d = 1200 if tier == "quick" else 4000
        for _ in range(n_d):
            case, exp = win_stack(rng, rng.choice([3, 4, 4, 5, 6, 8, 12, 20, 40]))
            cases.append(case + " " + fmt_exp(exp))
        dist["stack_win_x86"] = n_d
        n_e = 600 if tier == "quick" else 2000
        for _ in range(n_e):
            case, exp = win_recursion_stack(rng, rng.choice([3, 3, 4, 5, 8, 16]))
            cases.append(case + " " + fmt_exp(exp))
        dist["stack_win_x86_recursion"] = n_e
        n_f = 700 if tier == "quick" else 2500
        for _ in range(n_f):
            case, exp = win_scan_mix_stack(rng, rng.choice([2, 3, 3, 4, 5, 6, 8, 12, 20, 40]))
            cases.append(case + " " + fmt_exp(exp))
        dist["x86_scan_stack_win_cfi_mixed"] = n_f
        # the runner cuts the case list into contiguous shards: deal the cases round-robin so that every shard gets its share of
        # the expensive Coq-built depth-64 layouts (they used to fill the first shards, which then set the wall time)
        k = 16
        cases = [c for i in range(k) for c in cases[i::k]]
        return cases, dist, False


PROP = C04()
