"""C10 — streamed symbol parsing ignores chunking and hands every byte to the callback."""
import os
import re

from runner import PropBase
from vlib import Rng, REPO
from props import symgen as G


def loop_body(src, fn_marker):
    """text of the first `loop { ... }` body after fn_marker"""
    i = src.index(fn_marker)
    j = src.index("loop {", i) + len("loop {")
    depth, k = 1, j
    while depth:
        c = src[k]
        if c == "{":
            depth += 1
        elif c == "}":
            depth -= 1
        k += 1
    return src[j:k - 1]


def normalise_loop(body):
    body = re.sub(r"//[^\n]*", "", body)
    body = re.sub(r"trace!\((?:[^()]|\([^()]*\))*\);", "", body)
    # the only intended difference: how parse_async refills `input_reader` from the HTTP response
    body = re.sub(r"if input_reader\.is_empty\(\) \{.*?input_reader = &mut slice;\s*\}", "", body, flags=re.S)
    return " ".join(body.split())


def prefix_lens(a, d):
    """content lengths of the lines (and of the unterminated rest) of the first d bytes of an analysed input"""
    out, left = [], d
    for n in a["line_lens"]:
        if left >= n + 1:
            out.append(n)
            left -= n + 1
        else:
            break
    if left > 0:
        out.append(left)
    return out


class C10(PropBase):
    pid = "C10"
    coq_dirs = ["Base", "Gen", "C08", "C11", "C09", "C10"]
    translators = ["symfile_loop.py", "c10_stream.py"]
    bins = ["c10"]
    impl_timeout = 600
    rule = ("case = input bytes (run-length encoded) + reader schedule (sizes of successive read() results); exhaustive: every single "
            "split point of generated files <= 2 KiB and of the corpus witnesses, 1-byte trickle; random: chunk sizes around "
            "5/10/20/40/80/160 KiB on files with lines up to 80 KiB-1, fixed chunk sizes, tiny chunks; non-trivial = the schedule "
            "splits the input at least once and the input has >= 3 lines; distinct = distinct case lines; optional third section = body script of "
            "parse_async (chunk sizes, 0 = empty chunk, E = failure); segment tF<k> = the k-th read() of the sync reader fails; family start-of-file state: "
            "files beginning with byte order marks / blank lines / blanks / comment / NUL x first reads of 1..7 bytes (sync and parse_async)")
    trusted_base = [t.replace("vm_compute only in the non-vacuity Examples", "vm_compute in the non-vacuity Examples and in the witness theorems c10_bound_is_tight / c10_band_top_dependent / c10_old_refill_refuted (c10_band_everywhere_dependent is proved symbolically: lia / ring_simplify, no vm_compute)") for t in G.TRUSTED] + ["parse_async: a model of its own since round 5 (C10/Stream.v: the body of the reqwest::Response is a script of chunks of "
                                "any size incl. empty ones and of failures); the harness builds a reqwest::Response whose body is a scripted "
                                "http_body::Body (data frames incl. empty ones, an Err frame) and compares result, table, callback bytes/calls and "
                                "callback slice lengths with run_stream; the refill block is regenerated from its source (translate/c10_stream.py, "
                                "c10_stream_refill_is_source), the conditions of the rest of the loop by translate/symfile_loop.py "
                                "(c10_async_loop_is_source); the textual twin check against parse stays as a guard; trusted: that reqwest's "
                                "Response::chunk() hands over the frames of the body in order (it is run for real in the harness)"]
    manifest = {
        "text": "Theorems (Coq; all inputs, all reader schedules, any line recogniser): the bytes handed to the callback are exactly the "
                "first total_consumed bytes of the input, and all of it when the result is Ok (c10_callback_prefix); if every line has "
                "fewer than 80 KiB the outcome equals a schedule-free specification (fold of the recogniser over the lines, then the EOF "
                "rule), hence is the same for any two schedules (c10_chunk_independent, c10_any_two_schedules). Tied to the code by "
                "running the extracted driver + byte-level line recogniser and SymbolFile::parse(ChunkReader, recording callback) on the "
                "same cases (result, error line, callback bytes/calls, read calls, table summary), debug and release; the oracle "
                "compares chunked with whole-slice parsing (full table equality) and checks the callback bytes against the input. "
                "Round 2: full symbol table in the model and in the comparison (c10_table_chunk_independent); parse_async modelled and "
                "proved equal to parse under the schedule of its reads (c10_async_is_sync); parser contract for the symbol cache "
                "(c10_cached_form_parse). Round 4: the streamed verdict is a table or an error, never a panic of finish() "
                "(c10_streamed_equals_whole_defined); the real parse_async runs in the harness on every case with the schedule as HTTP chunks "
                "and must agree with the model, with the whole-buffer parse (lines < 80 KiB) and with the sync parse (no line in the "
                "80..160 KiB band); c10_async_loop_is_source pins parse_async's conditions to its source. "
                "Round 5: parse_async over ANY body (C10/Stream.v: chunks of any size, empty chunks, a failure at chunk k): total, callback "
                "prefix / everything on Ok for all inputs (c10_stream_total_prefix); lines < 80 KiB => the outcome is spec_stream for every "
                "body: the schedule-free verdict when the body is delivered in full, else the error of the first rejected delivered line or "
                "the load error (c10_stream_chunk_independent, c10_stream_any_two_bodies, c10_stream_table_chunk_independent on the real "
                "table); a failing body never yields a table, for all inputs (c10_stream_failed_body_never_ok); the refill block is the one "
                "in the source (c10_stream_refill_is_source, translate/c10_stream.py). The class cannot be widened: one line of exactly "
                "80 KiB makes the table depend on the chunking (c10_bound_is_tight), and so does one of 160 KiB - 1 (c10_band_top_dependent); "
                "both witnesses replayed on the real code. Defect F-C10c (an empty body chunk ended parse_async early: Ok with a truncated "
                "table) found by this model, reproduced on the real code, fixed in /repo; c10_old_refill_refuted states it on the model of "
                "the old loop. The correspondence runs the real parse_async on scripted bodies (every prefix length x {empty chunk, failure}, "
                "random chunkings with empty chunks) against run_stream; the oracle judges failing bodies without the model. "
                "Second pass: the interior of the 80..160 KiB band is proved: under every reader whose read() calls return at most 80 KiB "
                "(and every body whose chunks are at most 80 KiB) every input with lines < 160 KiB gives the schedule-free verdict "
                "(c10_fine_reads_exact, c10_stream_fine_chunks_exact: a line is dropped only when ONE read of >= 80 KiB + 1 fills the 160 KiB "
                "buffer), and for EVERY line length in the band and every recogniser the file A/B/A'/X (|A| = |A'| = 80 KiB) loses X when read "
                "from a slice and keeps it under every fine reader (c10_band_everywhere_dependent; the 13 loop iterations run symbolically in "
                "the lengths); witnesses at 81921 / 100000 / 163840 bytes replayed on the real code (corpus) and the family sampled across the "
                "band in every run. A sync reader whose k-th read() fails (C10/ReadFail.v): the run is the undisturbed run cut at that read "
                "with the load error (c10_read_error_is_cut), total with callback prefix and never a table from a failed read "
                "(c10_read_error_total_prefix), spec or load error with complete lines only in the callback for lines < 80 KiB "
                "(c10_read_error_chunk_independent); compared with the real SymbolFile::parse over a failing reader for every k on small files.",
        "note": "Trusted: Coq kernel; hand-written models (correspondence-checked); buffer contents abstracted to the FIFO contract of "
                "circular 0.3.0, checked per case; reqwest's Response::chunk() delivering the body's frames in order. Three defects found and "
                "fixed in /repo (F-C10a, F-C10b, F-C10c). Inside the 80..160 KiB band the outcome under readers whose reads exceed 80 KiB has no "
                "closed form (it depends on where the full 160 KiB window starts); what is proved is that such reads are the only cause and that "
                "every length is affected. No axioms.",
    }
    assumptions = ["chunk independence is proved for the line-compositional model; that the real parse_more is line-compositional is what the correspondence run checks",
                   "a reader that returns 0 bytes into a non-empty buffer before the end of the input is outside the schedule model (std::io::Read says 0 = EOF)",
                   "the input of a parse_async run is what the body delivers before it ends or fails (delivered script = input length)",
                   "a failing sync reader is one whose k-th read() call returns Err (calls into an empty slice count); fine_sched: a schedule that does not run out before the input does"]

    def canon_model(self, case, ans):
        return G.model_part(ans)

    def canon_impl(self, case, ans, profile):
        return ans if ans.startswith("P;;") else G.model_part(ans)

    def gen_cases(self, tier, seed):
        rng = Rng(seed * 104729 + 10)
        cases, dist = [], {}
        quick = tier == "quick"

        def add(kind, data, sched=(), tag=None):
            cases.append(G.case(data, sched, tag))
            dist[kind] = dist.get(kind, 0) + 1

        # 1. exhaustive single split points (and 2-point splits near line ends) of small files
        nfiles = 10 if quick else 60
        for fno in range(nfiles):
            pbad = [0, 0, 5][rng.below(3)]
            lines = G.gen_lines(rng, 2 + rng.below(6 if quick else 14), pbad=pbad)
            data = G.join(rng, lines, eol_mode=fno % 3, final_nl=(fno % 5 != 4))
            if len(data) > 2048:
                data = data[:2048]
            add("exh-whole", data)
            add("exh-trickle", data, ["1*%d" % (len(data) + 2)])
            for k in range(1, len(data)):
                add("exh-split", data, [str(k)])
            for _ in range(30 if quick else 200):
                k = 1 + rng.below(max(1, len(data) - 1))
                add("exh-split2", data, [str(k), str(1 + rng.below(3))])
        # 1b. numeric boundary files split at a random point (the digit limits must not depend on chunking)
        for data, tag in G.boundary_files_tagged():
            add("boundary", data, [str(1 + rng.below(len(data) - 1))], tag=tag)
        # 1b'. a CR inside every record kind, split around it; degenerate inputs (empty / no newline at all: "empty SymbolFile")
        for data, k in G.cr_inside_files():
            for j in range(max(1, k - 2), min(len(data) - 1, k + 3)):
                add("cr-inside", data, [str(j)])
        for data in [b"", b"x", b"MODULE a b c d", b"\r", b"MODULE Linux x86 ABC name"]:
            add("degenerate", data)
            add("degenerate", data, ["1*%d" % (len(data) + 2)])
            for j in range(1, len(data)):
                add("degenerate", data, [str(j)])
        # 1c. blank lines inside / between groups: split points around the blank lines (all of them for LF run 1)
        for data, marks in G.blank_group_files():
            add("blank-whole", data)
            lo, hi = max(1, marks[0] - 4), min(len(data) - 1, marks[1] + 3)
            ks = range(1, len(data)) if (b"\r" not in data and marks[1] - marks[0] == 1 and not quick) else range(lo, hi + 1)
            for k in ks:
                add("blank-split", data, [str(k)])
            add("blank-lines", data, G.sched_line_starts(data))
        # 1d. a second MODULE record at every position x every split point (the MODULE-first rule must not depend on chunking)
        for data in G.module_again_files():
            add("module-again", data)
            for k in range(1, len(data)):
                add("module-again-split", data, [str(k)])
            add("module-again-lines", data, G.sched_line_starts(data))
        # 1e. complete lines ending exactly at capacity/2 of a full window (+-1), then a line that does not fit
        for data, sched, label in G.aligned_files():
            add("aligned", data, sched, tag="ok")
        # 1f. long free texts with multi-byte characters, split at a random point
        for i, data in enumerate(G.free_text_files()):
            if i % 2 == (0 if quick else i % 2):
                add("free-text", data, [str(1 + rng.below(len(data) - 1))])
        # 2. grammar files under random small schedules (splits inside CRLF / sub-lines / CFI groups)
        for i in range(600 if quick else 8000):
            pbad = [0, 0, 0, 5, 20][rng.below(5)]
            lines = G.gen_lines(rng, 1 + rng.below(14), pbad=pbad, junk=rng.choice([0, 0, 4]))
            data = G.join(rng, lines, eol_mode=rng.below(3), final_nl=not rng.chance(1, 8))
            if rng.chance(1, 6):
                data = G.corrupt(rng, data, 1 + rng.below(2))
            add("grammar", data, G.sched_random(rng, len(data), style=rng.choice([1, 4, 4, 6])))
            if i % 4 == 0:
                add("grammar-lines", data, G.sched_line_starts(data, group=1 + rng.below(3)))
        # 3. long lines (all < 80 KiB) around the growth thresholds, random chunk sizes around the thresholds
        for i in range(500 if quick else 6000):
            lines = G.gen_lines(rng, rng.below(4))
            for _ in range(1 + rng.below(7)):
                t = rng.choice([G.around(rng, rng.choice([5120, 10240, 20480, 40960, 81920]), 6),
                                rng.range(1, 81919), rng.range(60000, 81919), 81919, 81918, rng.below(3000)])
                lines.append(G.long_line(rng, min(81919, max(0, t))))
                if rng.chance(1, 2):
                    lines += G.gen_lines(rng, rng.below(3))[1:]
            data = G.join(rng, lines, eol_mode=rng.choice([0, 0, 1]), final_nl=not rng.chance(1, 5))
            add("long<80K", data, G.sched_random(rng, len(data), style=rng.choice([1, 1, 2, 3, 5, 6])))
            if i % 3 == 0:      # every line starts at a chunk boundary (one or two lines per read)
                add("long-at-boundary", data, G.sched_line_starts(data, group=1 + rng.below(2)))
            if i % 3 == 1 and not data.endswith(b"\n"):   # chunk boundary right after the last newline of a truncated file
                add("trunc-at-boundary", data, [str(data.rfind(b"\n") + 1)])
        # 3b. "ladder" files, all lines < 80 KiB: a line of 60..80 KiB (whatever the growth ladder of the buffer is, the buffer is
        #     at or near its final capacity afterwards), then 30..110 KiB of short complete records, then another line of
        #     50..80 KiB, under FINE chunkings.  With the code's ladder 10-20-40-80-160 KiB every such line fits under every
        #     chunking; with a smaller final capacity / another ladder the whole-buffer parse (one big read that ends inside
        #     the second long line) drops it while small reads keep it.
        def valid_long(n):
            head = rng.choice([b"FILE 7 ", b"PUBLIC 10 0 ", b"INFO ", b"FUNC 1000 10 0 "])
            return head + rng.choice([b"a", b"Z", b"q"]) * (n - len(head))

        for i in range(100 if quick else 1000):
            lines = [b"MODULE Linux x86 ABC name"]
            for rep in range(1 + rng.below(2)):
                lines.append(valid_long(rng.choice([rng.range(60000, 81919), rng.range(65000, 81919), 81919])))
                total = rng.range(30000, 110000)
                unit = rng.choice([100, 1000, 4000, 10000, 16000])
                k = 0
                while total > 0:
                    n = max(12, min(total, unit + rng.below(unit)))
                    lines.append(b"FILE %d " % (k % 1000) + b"s" * (n - 9))
                    total -= n + 1
                    k += 1
                lines.append(valid_long(rng.choice([rng.range(50000, 81919), rng.range(65537, 81919), 81919])))
                lines.append(b"FILE 9 z")
            data = G.join(rng, lines, eol_mode=0, final_nl=True)
            c = rng.choice([1000, 4096, 10240, 512, 16384, 30000])
            add("ladder", data, ["%d*%d" % (c, len(data) // c + 2)], tag="ok")
        # 4. outside the class (lines >= 80 KiB): only the callback half of the property applies
        for i in range(80 if quick else 800):
            lines = G.gen_lines(rng, rng.below(4))
            for _ in range(1 + rng.below(3)):
                lines.append(G.long_line(rng, G.around(rng, rng.choice([81920, 100000, 163839, 163840, 200000, 400000]), 50)))
                lines += G.gen_lines(rng, rng.below(3))[1:]
            data = G.join(rng, lines, final_nl=not rng.chance(1, 4))
            add("long>=80K", data, G.sched_random(rng, len(data), style=rng.choice([1, 2, 3, 5])))
        # 4b. the family of c10_band_everywhere_dependent, with the band line's length sampled across the whole band
        #     (80 KiB <= content < 160 KiB): A (80 KiB with its newline) / B (short) / A' (80 KiB) / X (band) [/ more records].
        #     Whole-slice reads drop X, readers whose reads return <= 80 KiB keep it (c10_fine_reads_exact), reads of 80 KiB + 1
        #     and more may go either way: the model must agree with the real code on every one of them (no oracle verdict on
        #     the result: the property exempts these lines; the callback half applies).
        def band_file(xlen, good=True, more=0):
            a = b"MODULE Linux x86 0 " + b"m" * 81900
            b = b"FILE 1 " + b"b" * rng.range(1, 2000)
            a2 = b"FILE 2 " + b"c" * 81912
            x = (rng.choice([b"FILE 3 ", b"PUBLIC 10 0 ", b"FUNC 1000 10 0 "]) if good else b"BOGUS ")
            x = x + b"x" * (xlen - len(x))
            tail_lines = [b"FILE %d t%d" % (10 + j, j) for j in range(more)]
            return b"\n".join([a, b, a2, x] + tail_lines) + b"\n"

        band_lens = [81920, 81921, 100000, 120000, 136533, 136534, 163838, 163839]
        for i in range(24 if quick else 150):
            xlen = band_lens[i] if i < len(band_lens) else rng.range(81920, 163839)
            data = band_file(xlen, good=(i % 5 != 4), more=rng.below(3))
            add("band-family-whole", data)
            c = rng.choice([1000, 4096, 10240, 16384, 40960, 81920, 81919])
            add("band-family-fine", data, ["%d*%d" % (c, len(data) // c + 2)])
            if i % 3 == 0:
                c = rng.choice([81921, 90000, 100000, 163840, 200000])
                add("band-family-coarse", data, ["%d*%d" % (c, len(data) // c + 2)])
            if i % 2 == 0:      # parse_async: chunks of at most 80 KiB (c10_stream_fine_chunks_exact), with some empty chunks
                c = rng.choice([4096, 16384, 65536, 81920])
                cases.append(G.case(data, (), None) + " | " + " ".join(["%d*%d" % (c, len(data) // c + 1), "0", str(c)]))
                dist["band-family-stream-fine"] = dist.get("band-family-stream-fine", 0) + 1
        # 5. parse_async over bodies with EMPTY chunks and bodies that FAIL (third section of the case: the body script).
        #    An empty chunk is not the end of the body; a failed body must never give a table (F-C10c).
        def add_s(kind, data, sched, script, tag=None):
            cases.append(G.case(data, sched, tag) + " | " + " ".join(script))
            dist[kind] = dist.get(kind, 0) + 1

        def with_empties(toks, p):
            out = []
            for t in toks:
                while rng.chance(p, 100):
                    out.append("0")
                out.append(t)
            while rng.chance(p, 100):
                out.append("0")
            return out

        nsmall = 6 if quick else 20
        for fno in range(nsmall):
            pbad = [0, 0, 5][rng.below(3)]
            lines = G.gen_lines(rng, 2 + rng.below(5 if quick else 12), pbad=pbad)
            data = G.join(rng, lines, eol_mode=fno % 3, final_nl=(fno % 4 != 3))
            if len(data) > (400 if quick else 1000):
                data = data[:(400 if quick else 1000)]
            n = len(data)
            add_s("stream-empty-first", data, [], ["0", "0"])
            add_s("stream-fail-first", data, [], ["E"])
            add_s("stream-fail-last", data, [], [str(n), "E"])
            add_s("stream-empty-last", data, [], [str(n), "0", "0"])
            for k in range(1, n):
                add_s("stream-empty@k", data, [str(k)], [str(k), "0"])            # an empty chunk after every prefix
                add_s("stream-fail@k", data, [str(k)], [str(k), "E"])             # a failure after every prefix
            for _ in range(20 if quick else 120):
                k = 1 + rng.below(max(1, n - 1))
                add_s("stream-empty-fail", data, [str(k)], [str(k), "0*%d" % (1 + rng.below(3)), "E"])
                toks = with_empties(G.sched_random(rng, n, style=rng.choice([4, 4, 6])), 30)
                add_s("stream-empties", data, [], toks)
                cut = rng.below(len(toks) + 1)
                add_s("stream-empties-fail", data, [], toks[:cut] + ["E"])
            add_s("stream-trickle-empties", data, [], with_empties(["1"] * n, 25))
        # long lines (< 80 KiB) around the growth thresholds: empty chunks / a failure while the buffer is full or growing
        for i in range(120 if quick else 1500):
            lines = G.gen_lines(rng, rng.below(3))
            for _ in range(1 + rng.below(4)):
                t = rng.choice([G.around(rng, rng.choice([5120, 10240, 20480, 40960, 81920]), 6),
                                rng.range(1, 81919), rng.range(60000, 81919), 81919, rng.below(3000)])
                lines.append(G.long_line(rng, min(81919, max(0, t))))
                if rng.chance(1, 2):
                    lines += G.gen_lines(rng, rng.below(3))[1:]
            data = G.join(rng, lines, eol_mode=rng.choice([0, 0, 1]), final_nl=not rng.chance(1, 5))
            toks = with_empties(G.sched_random(rng, len(data), style=rng.choice([1, 2, 3, 5, 6])), 20)
            exp = []
            for t in toks:                       # expand n*k so that a failure can be put between two chunks
                if "*" in t:
                    a, b = t.split("*")
                    exp += [a] * min(int(b), 400)
                else:
                    exp.append(t)
            toks = with_empties(exp, 10) if len(exp) <= 400 else toks
            if i % 2 == 0:
                add_s("stream-long-empties", data, [], toks)
            else:
                cut = rng.below(min(len(toks), 60) + 1)
                add_s("stream-long-fail", data, [], toks[:cut] + ["E"])
        # outside the class: only the callback half and "a failed body gives no table" apply
        for i in range(20 if quick else 200):
            lines = G.gen_lines(rng, rng.below(3))
            lines.append(G.long_line(rng, G.around(rng, rng.choice([81920, 100000, 163839, 163840, 200000]), 50)))
            lines += G.gen_lines(rng, rng.below(3))[1:]
            data = G.join(rng, lines, final_nl=not rng.chance(1, 4))
            toks = with_empties(G.sched_random(rng, len(data), style=rng.choice([2, 3, 5])), 20)
            add_s("stream-long>=80K", data, [], toks if i % 2 else toks[:rng.below(len(toks) + 1)] + ["E"])
        # 6. SymbolFile::parse over a reader whose k-th read() call FAILS (segment tF<k>; model: C10/ReadFail.v, drive_rf):
        #    every k up to past the last read of small files under whole-slice / 7-byte / 1-byte readers; random k on files with
        #    long lines and on files outside the class
        def add_f(kind, k, data, sched=(), tag=None):
            cases.append("tF%d " % k + G.case(data, sched, tag))
            dist[kind] = dist.get(kind, 0) + 1

        for fno in range(4 if quick else 8):
            pbad = [0, 0, 5][rng.below(3)]
            lines = G.gen_lines(rng, 2 + rng.below(5 if quick else 10), pbad=pbad)
            data = G.join(rng, lines, eol_mode=fno % 3, final_nl=(fno % 4 != 3))
            if len(data) > (250 if quick else 500):
                data = data[:(250 if quick else 500)]
            n = len(data)
            for k in range(0, 4):
                add_f("readfail-whole", k, data)
            for k in range(0, n // 7 + 4):
                add_f("readfail-7", k, data, ["7*%d" % (n // 7 + 2)])
            for k in range(0, n + 3):
                add_f("readfail-trickle", k, data, ["1*%d" % (n + 2)])
        for i in range(100 if quick else 400):
            lines = G.gen_lines(rng, rng.below(3))
            for _ in range(1 + rng.below(4)):
                t = rng.choice([G.around(rng, rng.choice([5120, 10240, 20480, 40960, 81920]), 6),
                                rng.range(1, 81919), rng.range(60000, 81919), 81919, rng.below(3000)])
                lines.append(G.long_line(rng, min(81919, max(0, t))))
                if rng.chance(1, 2):
                    lines += G.gen_lines(rng, rng.below(3))[1:]
            data = G.join(rng, lines, eol_mode=rng.choice([0, 0, 1]), final_nl=not rng.chance(1, 5))
            add_f("readfail-long", rng.below(40), data, G.sched_random(rng, len(data), style=rng.choice([1, 2, 3, 5, 6])))
        for i in range(16 if quick else 80):
            lines = G.gen_lines(rng, rng.below(3))
            lines.append(G.long_line(rng, G.around(rng, rng.choice([81920, 100000, 163839, 163840, 200000, 400000]), 50)))
            lines += G.gen_lines(rng, rng.below(3))[1:]
            data = G.join(rng, lines, final_nl=not rng.chance(1, 4))
            add_f("readfail-long>=80K", rng.below(30), data, G.sched_random(rng, len(data), style=rng.choice([1, 2, 3, 5])))
        # 7. "start-of-file state": files that begin with byte sequences a tolerant parser might special-case (UTF-8 / UTF-16 / UTF-32
        #    byte order marks, leading blank lines / blanks / CR, a `#` comment line, NUL, partial marks) x schedules whose FIRST read
        #    returns 1, 2, 3, 4, 5 bytes (then the rest / a trickle / 2-byte reads), and for parse_async empty first chunks before a
        #    1..4-byte chunk.  Whatever the parser does with such a prefix, it must not depend on how much of it the first read returned.
        body = b"MODULE Linux x86 ABC name\nFILE 0 a.c\nFUNC 1000 10 0 f\n1000 10 1 0\nPUBLIC 2000 0 g\n"
        prefixes = [b"\xef\xbb\xbf", b"\xff\xfe", b"\xfe\xff", b"\xff\xfe\x00\x00", b"\x00\x00\xfe\xff", b"\xef\xbb", b"\xef",
                    b"\xef\xbb\xbf\xef\xbb\xbf", b"\xef\xbb\xbf\n", b"\xef\xbb\xbf\r\n", b"\n", b"\n\n\n", b"\r\n", b"\r", b"\r\r\n",
                    b" ", b"  \t", b"\t", b" \n", b"# comment\n", b"#\n", b"//x\n", b"\x00", b"\x00\x00\x00", b"\x00\n",
                    b"\xc2\xa0", b"\xe2\x80\x8b", b"\x1a", b"\x0c", b"\x0b", b"\xef\xbb\xbfMODULE a b c d\n", b""]
        bodies = [body, body.replace(b"\n", b"\r\n"), body[:-1], b"MODULE Linux x86 ABC name\n"]
        for pi, pre in enumerate(prefixes):
            for bi, bd in enumerate(bodies if not quick else bodies[:2] + [bodies[(pi % 2) + 2]]):
                data = pre + bd
                n = len(data)
                add("sof-whole", data)
                add("sof-trickle", data, ["1*%d" % (n + 2)])
                add("sof-2", data, ["2*%d" % (n // 2 + 2)])
                for k in range(1, min(n, len(pre) + 3, 8)):
                    add("sof-first", data, [str(k)])                      # first read k bytes, then everything
                    add("sof-first-then-1", data, [str(k), "1"])          # ... then one byte, then everything
                    add_s("sof-stream", data, [], ["0", "0", str(k)])     # parse_async: empty chunks, then k bytes, then the rest
                    add_s("sof-stream", data, [], [str(k), "0", "1", "0"])
                    add_f("sof-readfail", 1 + (k % 3), data, [str(k)])
        self._dist = dist
        return cases, dist, True

    def corpus(self):
        # every single split point of the recorded witnesses as well
        out = []
        for c in super().corpus():
            out.append(c)
            left, right = c.split("|", 1)
            a = G.analyse(c)
            if a["total"] <= 300 and not right.strip():
                out += ["%s| %d" % (left, k) for k in range(1, a["total"])]
        return out

    def impl_cmd(self, exe, profile):
        return ["env", "VHARNESS_CASE_TIMEOUT=15", exe]

    def model_cmd(self, exe):
        return [exe, "async"]      # the driver also runs drive_async (parse_async) on the schedule taken as HTTP chunks

    def oracle(self, case, ans, profile):
        if ans.startswith("P;;"):
            return "parsing panicked: " + ans[3:200]
        f = G.fields(ans)
        a = G.analyse(case)
        if f.get("cbok") != "1":
            return "the bytes passed to the callback, concatenated, are not a prefix of the input"
        cb = int(f["cb"].split(",")[0])
        if cb > a["total"]:
            return "callback received more bytes than the input has"
        if f["R"] == "OK" and cb != a["total"]:
            return "parse succeeded but the callback received %d of %d input bytes" % (cb, a["total"])
        if a["tag"] == "ok" and f["R"] != "OK":
            return "every line of this input is a valid record (over-long ones are to be dropped), yet streamed parsing fails with " + f["R"]
        if a["tag"] == "bad" and f["R"] == "OK":
            return "a numeric field of this input is malformed or out of range for the Breakpad format, yet streamed parsing succeeds"
        # the same clauses for SymbolFile::parse_async fed with the schedule as HTTP chunks
        if "A" in f and f.get("aerr") == "1":
            # the body failed after `ad` bytes: never a table; the callback saw a prefix of what was delivered; with lines
            # < 80 KiB the outcome is the error of the first rejected complete line among the delivered bytes, else the load error
            if f.get("acbok") != "1":
                return "parse_async (failing body): the bytes passed to the callback, concatenated, are not a prefix of the input"
            acb, ad = int(f["acb"].split(",")[0]), int(f["ad"])
            if f["A"] == "OK":
                return "the response body failed after %d of %d bytes, yet parse_async returned a symbol table" % (ad, a["total"])
            if acb > ad:
                return "parse_async (failing body): the callback received %d bytes but the body delivered only %d" % (acb, ad)
            if not f["A"].startswith("E") or f["A"].startswith("E9"):
                return "parse_async (failing body) returned neither a table nor an error: " + f["A"][:100]
            lens_d = prefix_lens(a, ad)
            if all(n < G.HALF for n in lens_d):
                want = f["aw"] if f["aw"].startswith(("E1:", "E2:")) else "E8:0"
                if f["A"] != want:
                    return ("the body failed after %d bytes, all delivered lines are shorter than 80 KiB and whole-buffer parsing of the "
                            "delivered bytes gives %s, yet parse_async gives %s (expected %s)" % (ad, f["aw"], f["A"], want))
        elif "A" in f:
            if f.get("acbok") != "1":
                return "parse_async: the bytes passed to the callback, concatenated, are not a prefix of the input"
            acb = int(f["acb"].split(",")[0])
            if f["A"] == "OK" and acb != a["total"]:
                return "parse_async succeeded but the callback received %d of %d input bytes" % (acb, a["total"])
            if not (f["A"] == "OK" or f["A"].startswith("E")) or f["A"].startswith("E8") or f["A"].startswith("E9"):
                return "parse_async returned neither a table nor a parse error: " + f["A"][:100]
            if a["tag"] == "ok" and f["A"] != "OK":
                return "every line of this input is a valid record, yet parse_async fails with " + f["A"]
            if a["tag"] == "bad" and f["A"] == "OK":
                return "a numeric field of this input is malformed or out of range for the Breakpad format, yet parse_async succeeds"
            lens0 = a["line_lens"] + ([a["tail"]] if a["tail"] else [])
            if all(n < G.HALF for n in lens0) and f.get("aeq") != "1":
                return ("all lines are shorter than 80 KiB, yet parse_async over these chunks gives %s and whole-buffer parsing gives %s"
                        % (f["A"], f["W"]))
            fuzzy = [n for n in lens0 if G.HALF <= n < G.MAXCAP]
            if not fuzzy and (f["A"].split(":")[0] != f["R"].split(":")[0] or f["AT"] != f["T"]):
                return ("no line is in the alignment-dependent band (80..160 KiB), yet parse (sync reader) gives %s and parse_async gives %s "
                        "on the same input (tables equal: %s)" % (f["R"], f["A"], f["AT"] == f["T"]))
        if "F" in f:
            # SymbolFile::parse over a reader whose k-th read() fails: a prefix for the callback, never a table once the failing
            # call was issued, and the undisturbed verdict when it never was
            if f.get("fcbok") != "1":
                return "parse (failing reader): the bytes passed to the callback, concatenated, are not a prefix of the input"
            fcb = int(f["fcb"].split(",")[0])
            if fcb > a["total"]:
                return "parse (failing reader): callback received more bytes than the input has"
            if f.get("ffail") == "1" and f["F"] == "OK":
                return "a read() call failed, yet SymbolFile::parse returned a symbol table (callback: %d of %d bytes)" % (fcb, a["total"])
            if f.get("ffail") == "1" and f["F"] != "E8:0":
                return "a read() call failed, yet SymbolFile::parse did not report the load error but " + f["F"][:60]
            if f["F"] == "OK" and fcb != a["total"]:
                return "parse (failing reader) succeeded but the callback received %d of %d input bytes" % (fcb, a["total"])
            if f.get("ffail") == "0":
                lensf = a["line_lens"] + ([a["tail"]] if a["tail"] else [])
                if f["F"].startswith("E8"):
                    return "no read() call failed, yet SymbolFile::parse reports a load error"
                if all(n < G.HALF for n in lensf) and f.get("feq") != "1":
                    return ("all lines are shorter than 80 KiB and the failing read() call was never issued, yet streamed parsing gives %s "
                            "and whole-buffer parsing gives %s" % (f["F"], f["W"]))
        lens = a["line_lens"] + ([a["tail"]] if a["tail"] else [])
        if all(n < G.HALF for n in lens) and f.get("eq") != "1":
            return ("all lines are shorter than 80 KiB, yet streamed parsing gives %s and whole-buffer parsing gives %s "
                    "(tables equal: %s)" % (f["R"], f["W"], f.get("eq")))
        return None

    def nontrivial(self, case, ans):
        a = G.analyse(case)
        return len(a["line_lens"]) >= 3 and bool(case.split("|", 1)[1].strip())

    def extra(self, ctx):
        """parse_async's loop must stay the textual twin of parse's apart from the refill block (a guard next to the translators:
        the part of the loop after the read is ONE definition in the model, step_after_read, shared by parse and parse_async)."""
        G.record_features(self, ctx)
        src = open(os.path.join(REPO, "breakpad-symbols/src/sym_file/mod.rs")).read()
        try:
            a = normalise_loop(loop_body(src, "pub fn parse<"))
            b = normalise_loop(loop_body(src, "pub async fn parse_async("))
        except (ValueError, IndexError) as e:
            return [{"case": None, "profile": "source", "found_input": False,
                     "what": "cannot locate the loops of SymbolFile::parse / parse_async in mod.rs (%s)" % e}]
        ctx["info"]["parse_async_twin"] = "identical after normalising the read step" if a == b else "DIFFERENT"
        if a != b:
            ta, tb = a.split(), b.split()
            k = next((i for i, (x, y) in enumerate(zip(ta, tb)) if x != y), min(len(ta), len(tb)))
            return [{"case": None, "profile": "source", "found_input": False,
                     "what": "parse_async's loop no longer matches parse's outside the refill block (the model shares that part between the two); first difference near: "
                             "parse `%s` vs parse_async `%s`" % (" ".join(ta[max(0, k - 6):k + 6]), " ".join(tb[max(0, k - 6):k + 6]))}]
        return []


PROP = C10()
