"""C12 — a module's symbols are located once, however concurrent lookups interleave."""
import itertools
import os
import re

import vlib
from runner import PropBase
from vlib import Rng

# pools shared with harness/src/bin/c12.rs and ocaml/c12/main.ml
LEAF_OF_CF = [0, 1, 1, 2, 3, 4, 5]    # cf 1 and 2 are "lib0.so" and "/x/lib0.so": same leafname; 5 "LIB0.SO"; 6 "lib0.soaa"
NCF, NCI, NDF, NDI = 7, 6, 5, 4
OK, NOTFOUND, MISSING, LOAD, PARSE = range(5)
STAT = {OK: (1, 0), NOTFOUND: (0, 0), MISSING: (0, 0), LOAD: (0, 0), PARSE: (1, 1)}


# what the generator, the model (C12/Model.v: outcome) and the harness know about
EXPECT_ENUMS = {
    "SymbolError": ["NotFound", "MissingDebugFileOrId", "LoadError", "ParseError"],
    "FileError": ["NotFound"],
    "FileKind": ["BreakpadSym", "Binary", "ExtraDebugInfo"],
}


def check_enums():
    """Translator-like guard: the answer classes a supplier can give (SymbolError, FileError) and the file
    kinds must be exactly the ones this check enumerates; abort loudly otherwise (a new variant would be a
    class of remembered outcome the cases never exercise)."""
    path = os.path.join(vlib.REPO, "breakpad-symbols", "src", "lib.rs")
    src = vlib.strip_rust_comments(open(path).read()) if hasattr(vlib, "strip_rust_comments") else re.sub(r"//[^\n]*", "", open(path).read())
    for name, want in EXPECT_ENUMS.items():
        m = re.search(r"pub enum %s\s*\{(.*?)\n\}" % name, src, re.S)
        if not m:
            raise vlib.CheckFailure("C12: enum %s not found in %s (source changed shape)" % (name, path))
        got = re.findall(r"^\s{4}([A-Z][A-Za-z0-9]*)\s*(?:\(|\{|,|$)", m.group(1), re.M)
        if got != want:
            raise vlib.CheckFailure("C12: enum %s has variants %r, the check knows %r — extend Model.v's outcome, "
                                    "the mock supplier and the generator before trusting this check" % (name, got, want))
    # get_symbols must classify exactly these error variants (its match has no wildcard arm)
    m = re.search(r"async fn get_symbols\b(.*?)\n    \}\n", src, re.S)
    if not m:
        raise vlib.CheckFailure("C12: Symbolizer::get_symbols not found")
    arms = re.findall(r"Err\(SymbolError::([A-Za-z]+)", m.group(1))
    if sorted(set(arms)) != sorted(EXPECT_ENUMS["SymbolError"]):
        raise vlib.CheckFailure("C12: get_symbols matches on %r, expected one arm per variant %r" % (arms, EXPECT_ENUMS["SymbolError"]))


def file_has_lookup(key, kind):
    """mirror of breakpad_symbols::lookup(module, kind).is_some() for the harness' module pools"""
    _, _, cf, ci, df, di = key
    if kind == 1:
        return cf != 0 and ci != 0 and df != 0 and di != 0
    return df != 0 and di != 0


def parse_case(line):
    t = [int(x) for x in line.split()]
    p = 0
    mode, nt = t[0], t[1]
    p = 2
    tasks = []
    for _ in range(nt):
        nl = t[p]
        p += 1
        tasks.append([(t[p + 2 * i], t[p + 2 * i + 1]) for i in range(nl)])
        p += 2 * nl
    nk = t[p]
    p += 1
    keys = []
    for _ in range(nk):
        keys.append(tuple(t[p:p + 6]))       # susp outc cf ci df di
        p += 6
    ns = t[p]
    sched = t[p + 1:p + 1 + ns]
    if mode != 2 and any(kind >= 10 for lk in tasks for _, kind in lk):
        tasks = unfold_adaptive(tasks, keys)
    return mode, tasks, keys, sched


def unfold_adaptive(tasks, keys):
    """Adaptive lookups (kind 10+alt: fill_symbol on module alt instead of module key when the task's previous lookup got
    no symbols).  The property says every requester observes the supplier's single answer for a module, so what an
    adaptive task asks is determined by the supplier's script: the fixed lists a correct implementation walks through
    (Coq: c12_adaptive_refines).  Everything that judges an answer works on these lists."""
    out = []
    for lk in tasks:
        prev_ok, row = True, []
        for k, kind in lk:
            if kind >= 10:
                k, kind = (k if prev_ok else kind - 10), 0
            row.append((k, kind))
            prev_ok = keys[k][1] == OK
        out.append(row)
    return out


def fmt_case(mode, tasks, keys, sched):
    out = [mode, len(tasks)]
    for lk in tasks:
        out.append(len(lk))
        for k, kind in lk:
            out += [k, kind]
    out.append(len(keys))
    for k in keys:
        out += list(k)
    out.append(len(sched))
    out += list(sched)
    return " ".join(map(str, out))


# key tables for two keys: the module identities (cf, ci, df, di)
PAIR_VARIANTS = [
    ((1, 1, 1, 1), (3, 2, 2, 2)),    # all four fields differ
    ((1, 1, 1, 1), (2, 1, 1, 1)),    # differ only in code_file (and share its leafname)
    ((3, 1, 1, 1), (3, 2, 1, 1)),    # differ only in code_id
    ((0, 0, 1, 1), (0, 0, 2, 1)),    # differ only in debug_file (both usable with get_symbol_at_address)
    ((4, 0, 1, 1), (4, 0, 1, 2)),    # differ only in debug_id
    ((1, 0, 0, 0), (1, 1, 0, 0)),    # code_id None vs Some, no debug info at all
    # round 4: keys that a normalising / hashing / concatenating key function would merge
    ((1, 1, 1, 1), (5, 1, 1, 1)),    # code_file differs only in case ("lib0.so" / "LIB0.SO")
    ((1, 1, 1, 1), (6, 3, 1, 1)),    # "lib0.so"+"aa11" vs "lib0.soaa"+"11": equal when the fields are concatenated
    ((1, 0, 1, 1), (1, 4, 1, 1)),    # code_id None vs Some("")
    ((1, 1, 1, 1), (1, 1, 3, 1)),    # debug_file differs only in case
    ((1, 1, 1, 1), (1, 1, 1, 3)),    # debug ids: different GUID (last digit), same age
    # round 5: keys that a key function with a fallback from one component to another would merge
    ((1, 0, 1, 1), (1, 5, 1, 1)),    # code_id None vs Some(the breakpad text of the debug id)
    ((1, 1, 0, 1), (1, 1, 4, 1)),    # debug_file None vs Some(the text of the code file)
]


def random_idents(rng, nk):
    """nk distinct (cf,ci,df,di); often neighbours differing in exactly one field"""
    ids = []
    while len(ids) < nk:
        if ids and rng.chance(3, 5):
            base = list(rng.choice(ids))
            f = rng.below(4)
            base[f] = rng.below([NCF, NCI, NDF, NDI][f])
            cand = tuple(base)
        else:
            cand = (rng.below(NCF), rng.below(NCI), rng.below(NDF), rng.below(NDI))
        if cand not in ids:
            ids.append(cand)
    return ids


ALL_IDENTS = [(cf, ci, df, di) for cf in range(NCF) for ci in range(NCI) for df in range(NDF) for di in range(NDI)]


def many_idents(rng, nk):
    """nk distinct identities out of the 560 of the pools (for the many-modules families)"""
    pool = list(ALL_IDENTS)
    out = []
    for _ in range(nk):
        out.append(pool.pop(rng.below(len(pool))))
    return out


def mask_stats(case, ans):
    """modes 5/6 (schedule not under the case's control): the stats entry of a leaf name shared by two requested
    modules with different answers depends on who finished last; mask its value on both sides"""
    f = ans.split(";")
    if len(f) != 8 or f[5] == "-":
        return ans
    mode, tasks, keys, sched = parse_case(case)
    by_leaf = {}
    for lk in tasks:
        for k, _ in lk:
            by_leaf.setdefault(LEAF_OF_CF[keys[k][2]], set()).add(STAT[keys[k][1]])
    ents = []
    for e in f[5].split(","):
        leaf = e.split(":")[0]
        if leaf.isdigit() and len(by_leaf.get(int(leaf), ())) > 1:
            e = leaf + ":*:*"
        ents.append(e)
    f[5] = ",".join(ents)
    return ";".join(f)


def schedule_distribution(cases):
    """static features of the generated schedules (printed into the evidence)"""
    d = {"by_mode": {}, "answers": {}, "spurious_polls(same task twice in a row)": 0, "late_start(a task unpolled in the first half)": 0,
         "overlap_possible_distinct_keys(>=2 keys, >=2 tasks)": 0, "potential_waiters>=3(>=4 tasks share a key)": 0,
         "suspending_supplier": 0, "remembered_failure_requested_twice": 0, "max_tasks": 0, "max_keys": 0, "max_schedule_len": 0}
    names = ["Ok", "NotFound", "MissingDebugFileOrId", "LoadError", "ParseError"]
    for line in cases:
        if not line or line[0] == "#":
            continue
        mode, tasks, keys, sched = parse_case(line)
        d["by_mode"][str(mode)] = d["by_mode"].get(str(mode), 0) + 1
        d["max_tasks"] = max(d["max_tasks"], len(tasks))
        d["max_keys"] = max(d["max_keys"], len(keys))
        d["max_schedule_len"] = max(d["max_schedule_len"], len(sched))
        if mode == 2:
            continue
        cnt = {}
        for lk in tasks:
            for k in set(k for k, _ in lk):
                cnt[k] = cnt.get(k, 0) + 1
        tot = {}
        for lk in tasks:
            for k, _ in lk:
                tot[k] = tot.get(k, 0) + 1
        for k in cnt:
            a = names[keys[k][1]] if keys[k][1] < 5 else "?"
            d["answers"][a] = d["answers"].get(a, 0) + 1
        if any(keys[k][1] != OK and n >= 2 for k, n in tot.items()):
            d["remembered_failure_requested_twice"] += 1
        if any(keys[k][0] > 0 for k in cnt):
            d["suspending_supplier"] += 1
        if len(cnt) >= 2 and len(tasks) >= 2:
            d["overlap_possible_distinct_keys(>=2 keys, >=2 tasks)"] += 1
        if any(n >= 4 for n in cnt.values()):
            d["potential_waiters>=3(>=4 tasks share a key)"] += 1
        if mode == 0:
            if any(a == b for a, b in zip(sched, sched[1:])):
                d["spurious_polls(same task twice in a row)"] += 1
            half = sched[:len(sched) // 2]
            if len(sched) >= 4 and any(t not in half for t in range(len(tasks))):
                d["late_start(a task unpolled in the first half)"] += 1
        elif mode == 7:
            pass
        elif mode == 5:
            if any(x > 0 for x in sched[2:]):
                d["late_start(a task unpolled in the first half)"] += 1
    return d


class C12(PropBase):
    pid = "C12"
    translators = ["c12_structure.py", "c12_program.py", "c12_processor.py"]
    coq_dirs = ["C12"]
    bins = ["c12"]
    # per-SHARD limit of the implementation children (runner default 900 s): the thorough tier has ~170 000 cases per shard and
    # exceeded 900 s once at load average > 300 (reported as "child died or hung", a false alarm).  A real hang is still
    # caught at once by vharness' per-case watchdog (VHARNESS_CASE_TIMEOUT, 30 s) and by the LOST time-outs of the tokio modes.
    impl_timeout = 3300
    rule = ("case = (mode, tasks: lists of (module key, API or file kind), per key: suspensions, supplier answer, module identity "
            "(code_file, code_id, debug_file, debug_id), schedule). mode 0: the real futures are polled in schedule order, then "
            "round-robin; mode 1: wake-driven executor (only woken tasks are polled; the poll trace is compared); mode 2: concurrent "
            "HttpSymbolSupplier::locate_file calls against a loopback server; mode 3: mode 1 plus drops of requesters waiting for a "
            "lock; mode 4: the tasks are children of one join_all (shared waker; a schedule = group sizes of a nested join_all); "
            "mode 5: the tasks run on a real multi-threaded tokio runtime (schedule = workers 2..8, spawn/join_all style, start delays); "
            "mode 6: one join_all polled by hand, up to 48 children (> 30 = FuturesUnordered); in modes 5/6 only schedule-independent "
            "observables are compared (c12_quiescent_observables_schedule_independent); mode 7: a synthetic minidump (one thread per task, "
            "one frame per lookup) goes through minidump_processor::process_minidump with the Symbolizer as SymbolProvider, 1..3 "
            "concurrent processings on one symbolizer, hand-polled or on tokio. Lookup kind 3 = get_file_path + fill_symbol; every "
            "task checks the counters/stats itself after each lookup. Round-4 families: 20..520 modules on one symbolizer, bursts of up "
            "to 300 spurious polls of a waiter, suspensions up to 60, 4..8 tasks on one in-flight key, late starters. Exhaustive families: 2 tasks x 1..2 lookups x 2 keys "
            "x suspensions 0..1 x all binary schedules of the tier's length; all 25 pairs of supplier answers (Ok and every SymbolError "
            "variant) x all 2^6 schedules; 3 tasks x all pick sequences (wake-driven, with and without drops). Random families up to 4 "
            "tasks x 3 lookups x 3 keys x 3 suspensions with spurious polls, starvation bursts and unknown task ids. A case is "
            "non-trivial when at least two tasks ask for the same key; distinct = distinct case lines. Lookup kind 10+alt (round 5, second "
            "pass) = an adaptive lookup: fill_symbol on module alt instead of module key when the task's previous lookup got no symbols "
            "(exhaustive 2 tasks x 12 rows x answers x all schedules of length 4/7 in mode 0; random in modes 0, 1, 4, 5); the oracle "
            "judges such a case on the lists obtained by unfolding the rows along the supplier's script")
    trusted_base = [
        "Coq 8.16.1 kernel (vm_compute only in the non-vacuity Examples)",
        "model C12/Model.v written by hand from breakpad-symbols/src/lib.rs (CachedAsyncResult::get, Symbolizer::get_symbols, "
        "module_key), cachemap2 0.3.0 cache_default and futures-util 0.3.31 lock::Mutex (MutexLockFuture::poll = try_lock, "
        "register waker, try_lock); tied to the code by the correspondence run over explicit poll orders",
        "extraction: ExtrOcamlBasic only; ocaml/zconv.ml + ocaml/c12/main.ml glue; harness/src/bin/c12.rs (mock supplier, executors, loopback server)",
        "a task is a sequential future; the executor is single-threaded (std Mutex/Arc/atomics of the multi-threaded case assumed correct)",
        "wake-driven theorems: the supplier future wakes its task before answering Pending (contract of any correct future); "
        "waiter slab (slab 0.4.9 index reuse), wait keys and the drop hand-over are modelled in C12/WakeModel.v / DropModel.v and "
        "checked by comparing full poll traces (modes 1 and 3)",
        "join_all: JoinAll::Small of futures-util 0.3.31 (<= 30 children) polls every unfinished child in order with the parent's waker (mode 4 compares the number of parent polls)",
        "multi-threaded executors: C12/FineModel.v's atomic actions (wait/hit/begin/tick/complete) are the units of interleaving; inside "
        "begin/complete the code touches pending_stats, stats (std Mutex each) and the slot (under the held async lock) one after the "
        "other — a concurrent reader sees a state between the block's pre- and post-state; std Mutex / atomics / Arc / tokio / "
        "futures-util's MutexLockFuture::poll race window (try_lock, register, try_lock) are trusted and only exercised (mode 5)",
        "translate/c12_structure.py (regex-level reading of get / get_symbols / module_key / file_key / locate_file_internal; aborts on "
        "statements it does not recognise) and coq/C12/Structure.v's reading of what each operation is in the model",
        "translate/c12_program.py (statement-level reading of get, the two closures and the entry points into the instruction set of "
        "C12/ProgModel.v; statements of an entry point that touch neither self nor an await count as pure uses of the awaited result; "
        "aborts on any other statement) and ProgModel.istep's reading of what each instruction does (compared with the real code by "
        "the correspondence run, which executes the interpreter)",
        "translate/c12_processor.py (statement-level reading of into_process_state, walk_stack, fill_source_line_info and of impl "
        "SymbolProvider for Symbolizer; counts of provider call sites per source file) and ProcModel's reading of it: the frames of each "
        "thread's finished stack and the lookups get_caller_frame makes per frame are INPUTS of the processor theorem (the unwinders "
        "themselves are not modelled; that the frame list does not depend on the schedule follows from c12_adaptive_refines for "
        "requesters whose next lookup is a function of the answers received)",
        "adaptive requesters: a strategy sees the (module key, outcome class) pairs of its finished lookups; the harness' adaptive "
        "lookups branch on symbols / no symbols only",
        "locate_file_internal: FileModel.v reads http.rs as cache_default(file_key).get(closure); the closure's answer is a function of the "
        "file key as long as distinct file keys do not share an on-disk cache path (mode 2 generates such keys); props/c12.py aborts when "
        "SymbolError / FileError / FileKind gain or lose a variant",
    ]
    manifest = {
        "text": "Theorems (Coq, all schedules incl. spurious polls, any number of tasks/keys/suspensions, no bound): the supplier is "
                "called at most once per key (c12_at_most_once), every finished lookup returns the single scripted answer of its "
                "key incl. every failure variant (c12_same_outcome), results are complete and in order at quiescence "
                "(c12_results_complete), requested = processed = distinct keys at quiescence (c12_counters), some task can always "
                "progress (c12_no_deadlock), under any fair schedule all tasks finish within T*work polls (c12_no_lost_request); with "
                "the futures Mutex's waiter slab modelled no wake-up is lost (c12_no_lost_wakeup), a wake-driven executor finishes "
                "within 2*work+ntasks polls whatever it picks (c12_wake_driven_finishes), join_all with its shared waker is a "
                "round-robin schedule of the model, never left unwoken, at most work parent polls (c12_join_all_spurious_ok); "
                "HttpSymbolSupplier::locate_file_internal is an instance over FileKey (c12_files_*); beyond the property: dropping a "
                "requester that waits for a lock loses no wake-up (c12_drop_waiter_*). Round 4: the same safety, quiescence and "
                "no-stuck-state/bounded-measure theorems over micro schedules — one atomic action (wait/hit/begin/tick/complete) of any "
                "task at a time, i.e. interleavings finer than polls as two worker threads produce them (c12_fine_safety, "
                "c12_fine_quiescent, c12_fine_progress); every poll schedule is a micro schedule (c12_polls_are_micro_schedules); all "
                "final observables (per-task results, set of supplier calls, remembered values, both counters) are independent of the "
                "schedule (c12_quiescent_observables_schedule_independent, c12_poll_schedule_independent); the source still has the "
                "structure the model was written from — lock held across the await, counter increments around the supplier await, "
                "four-component key, stats classification = Model.stat_loaded/stat_corrupt, no other writer of the counters "
                "(c12_source_structure_modelled over the regenerated Gen/C12Structure.v). Round 5: the bodies of CachedAsyncResult::get, "
                "of the closures of get_symbols and locate_file_internal and of the entry points fill_symbol / walk_frame / "
                "get_symbol_at_address / HttpSymbolSupplier::locate_file (get_file_path delegates to it) are regenerated as "
                "instruction lists (Gen/C12Program.v) and interpreted on the model's shared state (C12/ProgModel.v); the interpreter "
                "on the regenerated program is the model poll for poll (c12_source_program_refines_model) and at-most-once, same "
                "outcome for every requester through every entry point, completeness, exactly-once at quiescence, fair "
                "termination, no panic/ill-formed continuation and the counter theorems are stated and proved for it "
                "(c12_source_*): an edit of those bodies changes the program the theorems are about; the two seeded shapes (retry "
                "after ParseError, non-waiting probe in walk_frame) are programs of the same instruction set on which the interpreter "
                "refutes the property (c12_retry_program_refuted, c12_probe_program_refuted); the wake-driven executor, join_all and "
                "schedule independence are transported to it (c12_source_wake_driven_finishes, c12_source_no_lost_wakeup, "
                "c12_source_join_all, c12_source_schedule_independent). INSTRUCTION-level interleavings of the regenerated program "
                "(one instruction of one task per step, any order: between lock().await and the test of the slot, between "
                "`symbols_requested += 1` and the supplier call, between the store and the unlock other tasks run): mutual exclusion "
                "per slot, at most one supplier call per slot, every recorded result and every remembered value is the slot's single "
                "answer, no panic / ill-formed continuation, results complete and every requested slot fetched exactly once at "
                "quiescence, processed <= requested <= distinct always and all equal at quiescence, no deadlock (some unfinished "
                "task is not waiting for a held lock), a progress measure that no step increases and every non-waiting step lowers, and "
                "under any fair instruction schedule (every window of T steps contains every task) everything has finished after "
                "T * measure steps (c12_source_instr_*, c12_source_instr_fair_schedule_finishes); every poll schedule is an instruction schedule (c12_source_polls_are_instruction_schedules). "
                "Round 5, second pass: (a) ADAPTIVE requesters - a task is a strategy whose next lookup is a function of the answers it "
                "has received (the unwinder); for strategies that stop within N lookups an adaptive run is, poll for poll, the run of the "
                "fixed lists obtained by unfolding the strategies along the supplier's scripted answers, so every theorem holds for "
                "adaptive requesters (c12_adaptive_refines, c12_adaptive_at_most_once, c12_adaptive_same_outcome, c12_adaptive_counters); "
                "(b) the PROCESSOR: translate/c12_processor.py regenerates how into_process_state (stats read; join_all over per-thread "
                "futures that await walk_stack once; stats read), walk_stack (per frame fill_source_line_info then get_caller_frame), "
                "fill_source_line_info (fill_symbol on the module covering the frame) and impl SymbolProvider for Symbolizer (plain "
                "delegations) reach the symbolizer, and which source files call provider methods at all (Gen/C12Processor.v; "
                "c12_source_processor_shape, c12_source_provider_users); for every dump shape and supplier script the join_all executor "
                "finishes within work root polls, every module of every frame and every module the unwinder asked about is located "
                "exactly once, every thread gets the single answer per module, requested = processed = distinct modules, and the stats "
                "map copied into the ProcessState after the join has an entry for the leaf name of every such module, each classifying "
                "the answer of a requested module of that leaf name (c12_processor_once_per_module); (c) the stats map in every reachable "
                "state of the poll-level model: an entry classifies the single answer of a requested module with that leaf name whose "
                "lookup has completed, finished lookups have their entry, at quiescence every requested module has one (c12_stats_sound, "
                "c12_stats_has_finished, c12_stats_complete_at_quiescence); (d) pending counters of runs that MIX symbol and file lookups, "
                "instruction level and poll level: processed <= requested <= distinct MODULE keys always, all equal at quiescence "
                "(c12_source_instr_mixed_counters_bounded, c12_source_instr_mixed_counters, c12_source_mixed_counters); (e) the stats map "
                "at instruction granularity: every entry classifies the single answer of a module with that leaf name located exactly "
                "once, and a module slot holding a remembered answer has its entry (c12_source_instr_stats_sound, "
                "c12_source_instr_stats_complete); the thread walks of a dump under every instruction-level interleaving of the per-thread "
                "futures (c12_processor_threads_instr); adaptive requesters through any symbol entry point and through the processor "
                "(c12_adaptive_source_program, c12_adaptive_source_program_any_entry, c12_adaptive_processor); (f) the statements of the "
                "closure of locate_file_internal are regenerated as a program with its own interpreter whose meaning (suspensions, answer) "
                "is FileModel.file_script for every file configuration, and that is what a locate_file requester observes "
                "(c12_source_file_closure_meaning, c12_source_files_outcome_is_closure_meaning). "
                "The correspondence run of modes 0, 2, 5, 6, 7 executes the interpreter on the regenerated program next to the "
                "hand-written model (their answers must be identical); mode 7 also runs the processor model on the regenerated walker "
                "and mode 0 the adaptive model on cases with adaptive lookups (kind 10+alt; also generated for modes 1, 4, 5, where the "
                "models run on the unfolded lists). The model is tied to the real Symbolizer / "
                "HttpSymbolSupplier by polling boxed futures in the case's order (exhaustive small spaces, random larger ones, "
                "wake-driven, join_all flat/nested/>30 children, drops, loopback HTTP) and by real multi-threaded tokio runs (2..8 workers; "
                "schedule-independent observables only) in debug and release; an independent oracle re-checks the property on "
                "the implementation's answers.",
        "note": "Trusted: Coq kernel; hand-written model of CachedAsyncResult/get_symbols/futures Mutex incl. waiter slab and drop hand-over "
                "(correspondence-checked by full poll traces, not verified); extraction + OCaml/Rust glue; the supplier is assumed to "
                "wake the task whenever it answers Pending; atomicity of the five micro actions under real threads (std Mutex, "
                "futures Mutex internals) is trusted, exercised by mode 5 only; round 5 refines them to single instructions of the regenerated "
                "program (each touches one mutex-protected object or only the task's locals; that atomicity and ProgModel.istep's "
                "reading of each instruction are trusted); the round-4 micro-schedule liveness is a measure argument, the fairness-to-"
                "termination bounds are poll-level (c12_no_lost_request, c12_wake_driven_finishes) and instruction-level "
                "(c12_source_instr_fair_schedule_finishes); waker registration is poll-level (WakeModel): the try_lock / register / try_lock window of MutexLockFuture::poll and the two-step unlock are not modelled at instruction granularity. The processor theorems take the frames of the finished stacks and the unwinder's lookups per frame as inputs. Cancellation of the lock holder is outside the property. No axioms.",
    }
    assumptions = ["no cancellation of a requester that holds the slot's lock inside the supplier (excluded by the property); dropping a "
                   "requester that merely waits is covered by c12_drop_waiter_* and mode 3",
                   "poll-level and wake-up theorems: one executor thread polls the tasks; micro-step theorems (c12_fine_*): any number "
                   "of threads, each of wait/hit/begin/tick/complete atomic; instruction-level theorems (c12_source_instr_*): any number of "
                   "threads, each instruction of Gen/C12Program.v atomic; std::sync::Mutex / Arc / atomics are assumed correct",
                   "locate_file_internal: distinct file keys of a configuration have distinct on-disk cache paths (otherwise one "
                   "download can satisfy the other's local lookup — C16's subject)"]

    # ------------------------------------------------------------------ cases
    def gen_cases(self, tier, seed):
        check_enums()
        rng = Rng(seed)
        cases = []
        dist = {"exhaustive": 0, "random": 0, "wake_driven": 0, "sched_len_exhaustive": 0}
        L = 8 if tier == "quick" else 11
        dist["sched_len_exhaustive"] = L
        lookups = [[a] for a in (0, 1)] + [[a, b] for a in (0, 1) for b in (0, 1)]
        scripts = [((s0, o0), (s1, o1)) for s0 in (0, 1) for s1 in (0, 1)
                   for o0 in (OK, NOTFOUND) for o1 in (OK, PARSE)]
        idx = 0
        scheds = list(itertools.product((0, 1), repeat=L))
        for l0 in lookups:
            for l1 in lookups:
                for sc in scripts:
                    for sched in scheds:
                        var = PAIR_VARIANTS[idx % len(PAIR_VARIANTS)]
                        kinds = idx // len(PAIR_VARIANTS)
                        tasks = [[(k, (kinds + i) % 4) for i, k in enumerate(l0)],
                                 [(k, (kinds // 4 + i) % 4) for i, k in enumerate(l1)]]
                        keys = [sc[0] + var[0], sc[1] + var[1]]
                        cases.append(fmt_case(0, tasks, keys, sched))
                        idx += 1
        dist["exhaustive"] = idx
        if tier != "quick":
            # three tasks, one lookup each or two, suspensions 0..1, all ternary schedules of length 7
            scheds3 = list(itertools.product((0, 1, 2), repeat=7))
            look3 = [[0], [1], [0, 1], [1, 0], [0, 0]]
            for l0 in look3:
                for l1 in look3:
                    for l2 in ([0], [1], [1, 0]):
                        for (s0, s1) in ((0, 1), (1, 0), (1, 1)):
                            for (o0, o1) in ((OK, NOTFOUND), (PARSE, OK)):
                                for sched in scheds3:
                                    var = PAIR_VARIANTS[idx % len(PAIR_VARIANTS)]
                                    tasks = [[(k, (idx + i) % 4) for i, k in enumerate(l)] for l in (l0, l1, l2)]
                                    keys = [(s0, o0) + var[0], (s1, o1) + var[1]]
                                    cases.append(fmt_case(0, tasks, keys, sched))
                                    idx += 1
            dist["exhaustive"] = idx

        nrand = 6000 if tier == "quick" else 120000
        for r in range(nrand):
            nt = rng.range(2, 4)
            nk = rng.range(1, 3)
            idents = random_idents(rng, nk)
            keys = [(rng.range(0, 3), rng.choice([OK, OK, NOTFOUND, MISSING, LOAD, PARSE])) + idents[i] for i in range(nk)]
            tasks = [[(rng.below(nk), rng.below(4)) for _ in range(rng.range(1, 3))] for _ in range(nt)]
            style = rng.below(5)
            sched = []
            n = rng.range(0, 40)
            if style == 0:                       # uniform
                sched = [rng.below(nt) for _ in range(n)]
            elif style == 1:                     # spurious: the same task polled again and again
                while len(sched) < n:
                    sched += [rng.below(nt)] * rng.range(1, 6)
            elif style == 2:                     # starvation burst: one task is not polled for a long prefix
                starved = rng.below(nt)
                others = [i for i in range(nt) if i != starved]
                sched = [rng.choice(others) for _ in range(rng.range(5, 30))] + [rng.below(nt) for _ in range(rng.range(0, 10))]
            elif style == 3:                     # includes task ids that do not exist
                sched = [rng.below(nt + 2) for _ in range(n)]
            else:                                # strict alternation with repeated pairs
                sched = [(i // rng.range(1, 3)) % nt for i in range(n)]
            mode = 0
            if r % 4 == 3:
                mode = 1
                dist["wake_driven"] += 1
            else:
                dist["random"] += 1
            cases.append(fmt_case(mode, tasks, keys, sched))
        # wake-driven contention: several tasks queue on the same one or two keys while the supplier
        # is suspended, so that the mutex's waiter slab holds several entries and unlock's
        # "wake the first waiter" order is visible in the poll trace
        nw = 4000 if tier == "quick" else 80000
        for r in range(nw):
            nt = rng.range(3, 4)
            nk = rng.range(1, 2)
            idents = random_idents(rng, nk)
            keys = [(rng.range(1, 3), rng.choice([OK, NOTFOUND, PARSE])) + idents[i] for i in range(nk)]
            tasks = [[(rng.below(nk), rng.below(4)) for _ in range(rng.range(1, 3))] for _ in range(nt)]
            picks = [rng.below(nt) for _ in range(rng.range(0, 30))]
            cases.append(fmt_case(1, tasks, keys, picks))
        dist["wake_driven_contention"] = nw
        # exhaustive wake-driven: 3 tasks, one lookup each of one key, suspensions 1..2, all pick sequences of length 6
        nwx = 0
        for su in (1, 2):
            for third in (0, 1):
                for picks in itertools.product((0, 1, 2), repeat=6 if tier == "quick" else 8):
                    keys = [(su, OK, 1, 1, 1, 1), (1, NOTFOUND, 1, 2, 1, 1)]
                    tasks = [[(0, 0)], [(0, 1)], [(third, 0), (0, 0)]]
                    cases.append(fmt_case(1, tasks, keys, picks))
                    nwx += 1
        dist["wake_driven_exhaustive"] = nwx
        # every SymbolError variant (and Ok) as the remembered answer, exhaustively over all pairs:
        # 2 tasks over 2 keys, suspensions 0..1, all 2^6 schedules
        n5 = 0
        for tl in ([[0, 1], [1, 0]], [[0], [0, 1]], [[0, 1], [0, 1]], [[0], [0]]):
            for s0 in (0, 1):
                for s1 in (0, 1):
                    for o0 in range(5):
                        for o1 in range(5):
                            for sched in itertools.product((0, 1), repeat=6):
                                var = PAIR_VARIANTS[n5 % len(PAIR_VARIANTS)]
                                tasks = [[(k, (n5 + i) % 4) for i, k in enumerate(l)] for l in tl]
                                cases.append(fmt_case(0, tasks, [(s0, o0) + var[0], (s1, o1) + var[1]], sched))
                                n5 += 1
        dist["all_error_variants_exhaustive"] = n5

        # join_all (shared waker): no schedule — the parent polls every child whenever its waker fired
        nj = 0
        for l0 in lookups:
            for l1 in lookups:
                for sc in scripts:
                    var = PAIR_VARIANTS[nj % len(PAIR_VARIANTS)]
                    tasks = [[(k, (nj + i) % 4) for i, k in enumerate(l0)], [(k, (nj // 4 + i) % 4) for i, k in enumerate(l1)]]
                    cases.append(fmt_case(4, tasks, [sc[0] + var[0], sc[1] + var[1]], []))
                    nj += 1
        for r in range(1500 if tier == "quick" else 30000):
            nt = rng.range(2, 4)
            nk = rng.range(1, 3)
            idents = random_idents(rng, nk)
            keys = [(rng.range(0, 3), rng.below(5)) + idents[i] for i in range(nk)]
            tasks = [[(rng.below(nk), rng.below(4)) for _ in range(rng.range(1, 3))] for _ in range(nt)]
            cases.append(fmt_case(4, tasks, keys, []))
            nj += 1
        dist["join_all"] = nj

        # drops of waiting requesters (beyond the property's quantifier): wake-driven, a pick 100+u drops task u
        nd = 0
        for su in ((1,) if tier == "quick" else (1, 2)):
            for picks in itertools.product((0, 1, 2, 100, 101, 102), repeat=5 if tier == "quick" else 6):
                if not any(p >= 100 for p in picks):
                    continue
                keys = [(su, OK, 1, 1, 1, 1), (1, NOTFOUND, 1, 2, 1, 1)]
                tasks = [[(0, 0)], [(0, 1), (1, 0)], [(0, 0)]]
                cases.append(fmt_case(3, tasks, keys, picks))
                nd += 1
        for r in range(3000 if tier == "quick" else 60000):
            nt = rng.range(3, 4)
            nk = rng.range(1, 2)
            idents = random_idents(rng, nk)
            keys = [(rng.range(1, 3), rng.choice([OK, NOTFOUND, LOAD, PARSE])) + idents[i] for i in range(nk)]
            tasks = [[(rng.below(nk), rng.below(4)) for _ in range(rng.range(1, 3))] for _ in range(nt)]
            picks = [(100 + rng.below(nt)) if rng.chance(1, 4) else rng.below(nt) for _ in range(rng.range(2, 30))]
            cases.append(fmt_case(3, tasks, keys, picks))
            nd += 1
        dist["drop_waiter"] = nd

        # files: concurrent HttpSymbolSupplier::locate_file (FileKey = (module key, file kind)) against a loopback server
        nf = 0
        for r in range(400 if tier == "quick" else 6000):
            nt = rng.range(2, 4)
            nk = rng.range(1, 3)
            # distinct (debug_file, debug_id) and distinct code files: distinct server and cache paths per file key
            dpairs = [(1, 1), (1, 2), (2, 1), (2, 2)]
            cfs = [1, 3, 4]
            keys = []
            for i in range(nk):
                dp = dpairs.pop(rng.below(len(dpairs)))
                cf = cfs.pop(rng.below(len(cfs)))
                if rng.chance(1, 6):
                    dp = (0, dp[1]) if rng.chance(1, 2) else (dp[0], 0)      # no debug info: no lookup of any kind
                keys.append((rng.range(0, 3), rng.below(8), cf, rng.below(3), dp[0], dp[1]))
            tasks = [[(rng.below(nk), rng.below(3)) for _ in range(rng.range(1, 3))] for _ in range(nt)]
            picks = [rng.below(nt) for _ in range(rng.range(0, 12))]
            cases.append(fmt_case(2, tasks, keys, picks))
            nf += 1
        dist["locate_file"] = nf

        # ---------------------------------------------------------------- round 4 families
        q = tier == "quick"

        def lookups_over(nk, n, revisit):
            """n lookups over keys 0..nk-1: first-time visits in random order, then `revisit` re-lookups (early keys first)"""
            order = list(range(nk))
            for i in range(nk - 1, 0, -1):
                j = rng.below(i + 1)
                order[i], order[j] = order[j], order[i]
            seq_ = (order * (n // nk + 1))[:n]
            return [(k, rng.below(4)) for k in seq_] + [(order[i % nk], rng.below(4)) for i in range(revisit)]

        # many modules on one symbolizer (a bounded / evicting / colliding cache re-asks the supplier): 20..140 distinct keys,
        # every key looked up again after all the others
        nm = 0
        for r in range(120 if q else 1200):
            nk = rng.range(20, 140) if r % 8 else rng.range(300, 520)
            idents = many_idents(rng, nk)
            keys = [(rng.choice([0, 0, 0, 1]), rng.choice([OK, OK, NOTFOUND, MISSING, LOAD, PARSE])) + idents[i] for i in range(nk)]
            mode = [0, 0, 1, 4, 6][r % 5]
            nt = rng.range(1, 3)
            tasks = [lookups_over(nk, nk if t == 0 else rng.range(1, nk), rng.range(1, 12) if t else min(nk, 40)) for t in range(nt)]
            sched = [rng.below(nt) for _ in range(rng.range(0, 60))] if mode in (0, 1) else []
            cases.append(fmt_case(mode, tasks, keys, sched))
            nm += 1
        dist["many_modules(20..520 keys)"] = nm
        # long bursts of spurious polls of requesters that wait for an in-flight lookup (a waiter that gives up waiting
        # after N polls and asks the supplier itself), long suspensions
        nb = 0
        for r in range(400 if q else 6000):
            nt = rng.range(2, 4)
            nk = rng.range(1, 2)
            idents = random_idents(rng, nk)
            keys = [(rng.range(1, 3) if r % 4 else rng.range(10, 60), rng.choice([OK, NOTFOUND, LOAD, PARSE])) + idents[i] for i in range(nk)]
            tasks = [[(rng.below(nk), rng.below(4)) for _ in range(rng.range(1, 2))] for _ in range(nt)]
            sched = [0]
            for _ in range(rng.range(1, 4)):
                sched += [rng.range(1, nt - 1)] * rng.choice([3, 17, 33, 65, 129, 300])
                sched += [rng.below(nt)] * rng.range(0, 2)
            cases.append(fmt_case(0, tasks, keys, sched))
            nb += 1
        dist["long_spurious_bursts(3..300 polls of a waiter)"] = nb
        # many waiters (4..8 tasks, so >= 3 waiters) on one or two in-flight keys; wake-driven and explicit order;
        # some tasks start late (explicit order: not polled during a long prefix)
        nmw = 0
        for r in range(1500 if q else 30000):
            nt = rng.range(4, 8)
            nk = rng.range(1, 2)
            idents = random_idents(rng, nk)
            keys = [(rng.range(1, 4), rng.choice([OK, NOTFOUND, MISSING, LOAD, PARSE])) + idents[i] for i in range(nk)]
            tasks = [[(0 if i == 0 else rng.below(nk), rng.below(4))] + [(rng.below(nk), rng.below(4)) for _ in range(rng.range(0, 2))]
                     for i in range(nt)]
            if r % 3 == 0:
                late = rng.range(1, nt - 1)
                early = [i for i in range(nt) if i != late]
                sched = [rng.choice(early) for _ in range(rng.range(4, 25))] + [rng.below(nt) for _ in range(rng.range(0, 20))]
                cases.append(fmt_case(0, tasks, keys, sched))
            else:
                cases.append(fmt_case(1, tasks, keys, [rng.below(nt) for _ in range(rng.range(0, 40))]))
            nmw += 1
        dist["many_waiters(4..8 tasks on 1..2 keys)"] = nmw
        # nested join_all as the processor does it (join_all over groups of sequential walkers), shared root waker
        nn = 0
        for r in range(800 if q else 12000):
            nt = rng.range(3, 9)
            nk = rng.range(1, 3)
            idents = random_idents(rng, nk)
            keys = [(rng.range(0, 3), rng.below(5)) + idents[i] for i in range(nk)]
            tasks = [[(rng.below(nk), rng.below(4)) for _ in range(rng.range(1, 4))] for _ in range(nt)]
            groups, left = [], nt
            while left > 0:
                g = rng.range(1, left)
                groups.append(g)
                left -= g
            cases.append(fmt_case(4, tasks, keys, groups))
            nn += 1
        dist["nested_join_all"] = nn
        # join_all over more than 30 children (a dump with > 30 threads): FuturesUnordered, one waker per child
        nbig = 0
        for r in range(150 if q else 2500):
            nt = rng.range(31, 48) if r % 5 else rng.range(2, 30)
            nk = rng.range(1, 4)
            idents = random_idents(rng, nk)
            keys = [(rng.range(0, 3), rng.below(5)) + idents[i] for i in range(nk)]
            tasks = [[(rng.below(nk), rng.below(4)) for _ in range(rng.range(1, 3))] for _ in range(nt)]
            cases.append(fmt_case(6, tasks, keys, []))
            nbig += 1
        dist["join_all_big(>30 children)"] = nbig
        # the real multi-threaded tokio runtime: 2..8 workers, spawned tasks / spawned join_alls, late starters
        nth = 0
        by_workers = {}
        for r in range(1200 if q else 20000):
            nt = rng.range(2, 8)
            nk = rng.range(1, 3)
            idents = random_idents(rng, nk)
            keys = [(rng.range(0, 4), rng.below(5)) + idents[i] for i in range(nk)]
            tasks = [[(rng.below(nk), rng.below(4)) for _ in range(rng.range(1, 3))] for _ in range(nt)]
            workers = rng.range(2, 8)
            by_workers[workers] = by_workers.get(workers, 0) + 1
            sched = [workers, rng.below(4)] + [rng.choice([0, 0, 1, 3, 6]) for _ in range(nt)]
            cases.append(fmt_case(5, tasks, keys, sched))
            nth += 1
        dist["tokio_multi_thread"] = nth
        dist["tokio_multi_thread_by_workers"] = {str(k): by_workers[k] for k in sorted(by_workers)}
        # through the processor (mode 7): synthetic dump, one thread per task, frames = lookups; 1..3 concurrent processings
        # of the same dump on ONE symbolizer, polled by hand or spawned on a multi-threaded tokio runtime
        npz = 0
        for r in range(500 if q else 8000):
            nt = rng.range(1, 6)
            nk = rng.range(1, 4)
            pool = [(cf, df, di) for cf in (1, 2, 3, 4, 5, 6) for df in (1, 2, 3) for di in (1, 2, 3)]
            idents = []
            for _ in range(nk):
                cf, df, di = pool.pop(rng.below(len(pool)))
                idents.append((cf, 1, df, di))
            keys = [(rng.range(0, 3), rng.below(5)) + idents[i] for i in range(nk)]
            tasks = [[(rng.below(nk), 0) for _ in range(rng.range(1, 4))] for _ in range(nt)]
            ex = rng.below(3)
            sched = [ex] if ex == 0 else ([ex, rng.range(2, 3)] + ([rng.range(2, 8)] if ex == 2 else []))
            cases.append(fmt_case(7, tasks, keys, sched))
            npz += 1
        dist["through_the_processor"] = npz
        # ADAPTIVE requesters (round 5, second pass): lookup kind 10+alt asks for module alt instead of module key when the
        # task's previous lookup got no symbols (the unwinder: where the caller's frame lies depends on the callee's symbols).
        # exhaustive: 2 tasks x (first module 0|1, then (k, alt) over 3 modules) x answers of modules 0, 1 x all schedules
        nad = 0
        LA = 4 if q else 7
        ascheds = list(itertools.product((0, 1), repeat=LA))
        rows = [[(k0, 10 + k0), (k, 10 + alt)] for k0 in (0, 1) for k in (0, 1, 2) for alt in (0, 1, 2) if k != alt]
        aidents = [(1, 1, 1, 1), (2, 1, 1, 1), (3, 2, 2, 2)]
        for r0 in rows:
            for r1 in rows:
                for o0 in (OK, NOTFOUND):
                    for o1 in (OK, PARSE):
                        keys = [(1, o0) + aidents[0], (nad % 2, o1) + aidents[1], (0, OK) + aidents[2]]
                        for sc in ascheds:
                            cases.append(fmt_case(0, [r0, r1], keys, sc))
                            nad += 1
        # random: 2..4 tasks x 1..3 adaptive lookups over 2..4 modules, explicit / wake-driven / join_all / tokio
        for r in range(1500 if q else 25000):
            nt = rng.range(2, 4)
            nk = rng.range(2, 4)
            idents = random_idents(rng, nk)
            keys = [(rng.range(0, 3), rng.choice([OK, OK, NOTFOUND, MISSING, LOAD, PARSE])) + idents[i] for i in range(nk)]
            tasks = [[(rng.below(nk), 10 + rng.below(nk)) for _ in range(rng.range(1, 3))] for _ in range(nt)]
            m = rng.choice([0, 0, 0, 0, 1, 1, 1, 4, 4, 5])
            if m == 0:
                sched = [rng.below(nt + 1) for _ in range(rng.range(0, 14))]
            elif m == 1:
                sched = [rng.below(nt) for _ in range(rng.range(0, 24))]
            elif m == 4:
                sched = []
            else:
                sched = [rng.range(2, 8), rng.below(4)] + [rng.choice([0, 0, 1, 3]) for _ in range(nt)]
            cases.append(fmt_case(m, tasks, keys, sched))
            nad += 1
        dist["adaptive_requesters"] = nad
        dist.update(schedule_distribution(cases))
        return cases, dist, True

    # ------------------------------------------------------------------ canonical forms
    @staticmethod
    def _canon(case, ans):
        if ans.startswith("P;;"):
            return "P;;"
        if case[:2] in ("5 ", "6 ", "7 "):
            ans = mask_stats(case, ans)
        if case[:2] == "7 ":
            # frames `key~class` -> class: the thread's frames are the task's lookups, in order
            f = ans.split(";")
            if len(f) == 8:
                f[3] = "|".join("-" if row == "-" else ".".join(e.split("~")[-1] for e in row.split(".")) for row in f[3].split("|"))
                ans = ";".join(f)
        return ans

    def canon_model(self, case, ans):
        return self._canon(case, ans)

    def canon_impl(self, case, ans, profile):
        return self._canon(case, ans)

    # ------------------------------------------------------------------ oracle (independent of the Coq model)
    def oracle(self, case, ans, profile):
        mode, tasks, keys, sched = parse_case(case)
        if ans.startswith("P;;"):
            return "a lookup panicked: " + ans[3:200]
        f = ans.split(";")
        if len(f) != 8:
            return "unparseable answer " + ans[:120]
        status, log, mid, res, pend, stats, rounds, obs = f
        if status == "HUNG":
            return "requests never completed: tasks still pending after 10000 round-robin rounds (deadlock / lost request)"
        if status == "LOST":
            return "lost wake-up: unfinished tasks remain but no waker fired (a wake-driven executor would hang)"
        if status != "OK":
            return "unknown status " + status
        if mode == 2:
            return self.oracle_files(tasks, keys, log, res)
        if mode == 7:
            # through the processor: frames carry their module; re-shape into the per-lookup form and check the walk
            rows = res.split("|")
            if len(rows) != len(tasks):
                return "processor reported %d threads, the dump has %d" % (len(rows), len(tasks))
            shaped = []
            for ti, (lk, row) in enumerate(zip(tasks, rows)):
                fr = [] if row == "-" else [e.split("~") for e in row.split(".")]
                if [x[0] for x in fr] != [str(k) for k, _ in lk]:
                    return ("thread %d: frames lie in modules %r, the stack holds frames in modules %r (a frame was lost)"
                            % (ti, [x[0] for x in fr], [k for k, _ in lk]))
                shaped.append(".".join(x[1] for x in fr) if fr else "-")
            res = "|".join(shaped)
        dropped = set()
        if mode == 3 and mid != "-":
            dropped = {int(e) - 100 for e in mid.split(".") if int(e) >= 100}
        asked, must = [], []
        for ti, lk in enumerate(tasks):
            for k, _ in lk:
                if k not in asked:
                    asked.append(k)
                if ti not in dropped and k not in must:
                    must.append(k)
        logged = [] if log == "-" else log.split(".")
        for e in logged:
            if e == "?":
                return "supplier was asked for a module nobody requested"
        logged = [int(e) for e in logged]
        for k in set(logged):
            if logged.count(k) > 1:
                return "supplier asked %d times for module key %d %r" % (logged.count(k), k, keys[k][2:])
        if set(logged) - set(asked):
            return "supplier asked for keys %r, requested were %r" % (logged, asked)
        missing = sorted(set(must) - set(logged))
        if missing:
            other = [j for j in logged if j not in missing]
            return ("supplier never asked for module key %d %r although it was requested (distinct modules %r were "
                    "treated as one)" % (missing[0], keys[missing[0]][2:], [keys[j][2:] for j in other][:2]))
        asked = sorted(set(logged))          # with drops: the modules actually located
        per_task = res.split("|")
        if len(per_task) != len(tasks):
            return "result rows %d != tasks %d" % (len(per_task), len(tasks))
        seen = {}
        for ti, (lk, row) in enumerate(zip(tasks, per_task)):
            got = [] if row == "-" else row.split(".")
            if ti in dropped:
                if len(got) > len(lk):
                    return "dropped task %d reports more results than lookups" % ti
            elif len(got) != len(lk):
                return "task %d finished %d of its %d lookups: a request was lost" % (ti, len(got), len(lk))
            for (k, kind), g in zip(lk, got):
                want = "S%d" % k if keys[k][1] == OK else "E"
                if k in seen and seen[k] != g:
                    return "two requesters of module key %d observed different outcomes: %s and %s" % (k, seen[k], g)
                seen.setdefault(k, g)
                if g != want:
                    if g.startswith("S") and keys[k][1] == OK:
                        return "lookup of module key %d %r received the symbols located for another module (%s)" % (k, keys[k][2:], g)
                    return "lookup of module key %d observed %s but the supplier's single answer was %s" % (k, g, want)
        try:
            rq, pr = [int(x) for x in pend.split("/")]
        except ValueError:
            return "bad pending stats " + pend
        if rq != len(asked) or pr != len(asked):
            return "pending stats ended requested=%d processed=%d, distinct modules asked for=%d" % (rq, pr, len(asked))
        if mode == 0 and mid != "-":
            mrq, mpr, mdone = [int(x) for x in mid.split("/")]
            if not (mpr <= mrq <= len(asked)):
                return "pending stats mid-run requested=%d processed=%d exceed distinct modules %d" % (mrq, mpr, len(asked))
        st = {}
        if stats != "-":
            for e in stats.split(","):
                leaf, ld, cr = e.split(":")
                if leaf.startswith("?"):
                    return "stats entry under unexpected name " + leaf[1:]
                st[int(leaf)] = (int(ld), int(cr))
        by_leaf = {}
        for k in asked:
            by_leaf.setdefault(LEAF_OF_CF[keys[k][2]], []).append(k)
        if set(st) != set(by_leaf):
            return "stats keys %r, expected leaf names %r" % (sorted(st), sorted(by_leaf))
        for leaf, ks in by_leaf.items():
            if st[leaf] not in [STAT[keys[k][1]] for k in ks]:
                return "stats for leaf %d say loaded/corrupt=%r, supplier answered %r" % (leaf, st[leaf], [keys[k][1] for k in ks])
        if obs != "-":
            return "a requester's own view was inconsistent: " + obs
        return None

    def oracle_files(self, tasks, keys, log, res):
        """mode 2: file keys (module key, kind); the log is what the loopback server was asked for"""
        asked = []
        for lk in tasks:
            for k, kind in lk:
                if (k, kind) not in asked:
                    asked.append((k, kind))
        logged = [] if log == "-" else log.split(".")
        for e in logged:
            if e.startswith("?"):
                return "server was asked for a path no requested file maps to: " + e[1:]
        logged = [int(e) for e in logged]
        for fk in set(logged):
            if logged.count(fk) > 1:
                return "file (module %d, kind %d) was fetched %d times from the server" % (fk // 3, fk % 3, logged.count(fk))
        want_log = sorted(3 * k + kind for (k, kind) in asked if file_has_lookup(keys[k], kind))
        if sorted(logged) != want_log:
            return "server saw requests for file keys %r, the requested files with a lookup path are %r" % (sorted(logged), want_log)
        per_task = res.split("|")
        if len(per_task) != len(tasks):
            return "result rows %d != tasks %d" % (len(per_task), len(tasks))
        seen = {}
        for ti, (lk, row) in enumerate(zip(tasks, per_task)):
            got = [] if row == "-" else row.split(".")
            if len(got) != len(lk):
                return "task %d finished %d of its %d locate_file calls: a request was lost" % (ti, len(got), len(lk))
            for (k, kind), g in zip(lk, got):
                fk = 3 * k + kind
                found = file_has_lookup(keys[k], kind) and (keys[k][1] >> kind) & 1 == 1
                want = "S%d" % fk if found else "E"
                if fk in seen and seen[fk] != g:
                    return "two requesters of file (module %d, kind %d) observed different outcomes: %s and %s" % (k, kind, seen[fk], g)
                seen.setdefault(fk, g)
                if g != want:
                    return "locate_file(module %d, kind %d) observed %s, the server's single answer means %s" % (k, kind, g, want)
        return None

    def nontrivial(self, case, ans):
        mode, tasks, keys, sched = parse_case(case)
        sets = [set(k for k, _ in lk) for lk in tasks]
        return any(sets[i] & sets[j] for i in range(len(sets)) for j in range(i + 1, len(sets)))


PROP = C12()
