"""C16 — the on-disk symbol cache only ever holds complete, parseable files (partial)."""
import re
import zlib

from runner import PropBase
from vlib import Rng

ID = "0123456789ABCDEF0123456789ABCDEFa"
CI = "5CF2591C6859000"
MODS = [(b"test.pdb", b"test.dll"), (b"libfoo.so", b"libfoo.so"), (b"a b.pdb", b"a b.exe")]


def hx(b):
    return b.hex() if b else "-"


def unhx(s):
    return b"" if s == "-" else bytes.fromhex(s)


def rel_of(df):
    leaf = df.decode()
    stem = leaf[:-4] if leaf.lower().endswith(".pdb") else leaf
    return "%s/%s/%s.sym" % (leaf, ID, stem)


def target_of(df, cf):
    # url crate: path percent-encodes space; form-urlencoded query uses '+'
    return "/%s?code_file=%s&code_id=%s" % (rel_of(df).replace(" ", "%20"), cf.decode().replace(" ", "+"), CI.lower())


def sym_lines(df, nfunc=2, npub=2, extra=()):
    ls = [b"MODULE Linux x86_64 " + ID.encode() + b" " + df, b"INFO CODE_ID " + CI.encode() + b" x", b"FILE 0 a.c", b"FILE 1 b.c"]
    for i in range(nfunc):
        a = 0x1000 + 0x100 * i
        ls += [b"FUNC %x 20 0 fn%d(int)" % (a, i), b"%x 10 %d 0" % (a, 10 + i), b"%x 10 %d 1" % (a + 0x10, 11 + i)]
    for i in range(npub):
        ls.append(b"PUBLIC %x 0 pub%d" % (0x9000 + 0x10 * i, i))
    ls += [b"STACK CFI INIT 1000 20 .cfa: $rsp 8 + .ra: .cfa -8 + ^", b"STACK CFI 1004 .cfa: $rsp 16 +"]
    ls += list(extra)
    return ls


def join(ls, final_nl=True):
    return b"\n".join(ls) + (b"\n" if final_nl else b"")


def srv(status=200, framing="L", cut="-", race=None, body=b"", redir=None):
    """redir = (code, [location, ...]): the .sym request is answered with a redirect chain that ends at this script"""
    f = [str(status), framing, cut, ("R" + hx(race)) if race is not None else "-", hx(body)]
    if redir is not None:
        f.append("V%d:%s" % (redir[0], ":".join(hx(l.encode()) for l in redir[1])))
    return ";".join(f)


def case(mod, servers, pre="-", locs=(), env="n", drop="-", tmo=3000):
    df, cf = MODS[mod]
    return " ".join([hx(df), ID, hx(cf), CI, pre, str(len(locs)), *locs, env, str(drop), str(tmo), str(len(servers)), *servers])


def mcase(servers, sched, pre="-", tmo=8000, mod=0):
    """shared-cache history: len(servers) clients (client i <-> server i) sharing one cache and one tmp directory"""
    df, cf = MODS[mod]
    return " ".join(["kM", hx(df), ID, hx(cf), CI, pre, str(tmo), str(len(servers)), *servers, ",".join(sched) or "-"])


def interleavings(seqs):
    """all merges of the token sequences (each keeps its own order)"""
    seqs = [q for q in seqs if q]
    if not seqs:
        yield []
        return
    for k, q in enumerate(seqs):
        rest = seqs[:k] + [q[1:]] + seqs[k + 1:]
        for tail in interleavings(rest):
            yield [q[0]] + tail


def source_atoms():
    """Generator dictionary taken from the code under test: the record keywords the parser matches
    (`tag("...")` in sym_file/parser.rs) and the string literals of http.rs (`INFO URL {url}\\n`, query keys ...).
    A keyword added to the parser, or a new literal in the cache code, becomes a body ingredient by itself."""
    import os
    import vlib
    kws, lits = [], []
    try:
        src = open(os.path.join(vlib.REPO, "breakpad-symbols/src/sym_file/parser.rs")).read().split("#[cfg(test)]")[0]
        for m in re.finditer(r'tag\(b?"((?:[^"\\\n]|\\.)+)"\)', src):
            t = m.group(1)
            if "\\" not in t and t not in kws:
                kws.append(t)
    except OSError:
        pass
    try:
        src = open(os.path.join(vlib.REPO, "breakpad-symbols/src/http.rs")).read().split("#[cfg(test)]")[0]
        for m in re.finditer(r'"((?:[^"\\\n]|\\.){1,40})"', src):
            t = m.group(1).replace("\\n", "")
            t = re.sub(r"\{[^}]*\}", "", t).strip()
            if t and "\\" not in t and len(t) <= 24 and t not in lits:
                lits.append(t)
    except OSError:
        pass
    for k in ("MODULE", "INFO URL", "INFO", "FILE", "INLINE_ORIGIN", "PUBLIC", "FUNC", "INLINE", "STACK WIN", "STACK CFI", "STACK CFI INIT", "m"):
        if k not in kws:
            kws.append(k)
    if "INFO URL" not in lits:
        lits.append("INFO URL")
    return kws, lits


UPSTREAM = [b"http://upstream.example/sym/test.pdb/ABC/test.sym", b"https://a/b?c=d&e=f", b"x", b"http://127.0.0.1:1/evil",
            b"file:///etc/passwd", b"http://h/a b", b"\xc3\xa9", b"INFO URL nested"]


class BodyGen:
    """Bodies from dictionary atoms: well-formed records for every keyword the parser knows, the cache
    code's own literals (INFO URL ...) at every position, CRLF / LF line ends, blank lines, junk."""

    def __init__(self, rng):
        self.rng = rng
        self.kws, self.lits = source_atoms()
        self.known = {"MODULE", "INFO URL", "INFO", "FILE", "INLINE_ORIGIN", "PUBLIC", "FUNC", "INLINE", "STACK WIN", "STACK CFI", "STACK CFI INIT", "m"}

    def info_url(self):
        r = self.rng
        u = r.choice(UPSTREAM)
        form = r.below(8)
        if form == 0:
            return b"INFO URL  " + u            # two blanks (space1)
        if form == 1:
            return b"INFO URL\t" + u
        if form == 2:
            return b"INFO URL " + u + b" "
        return b"INFO URL " + u

    def record(self, kw, i):
        """a well-formed record (list of lines) for a keyword; unknown keywords get a generic line"""
        r = self.rng
        a = 0x1000 + 0x100 * i
        if kw == "MODULE":
            return [b"MODULE Linux x86_64 " + ID.encode() + b" again.pdb"]
        if kw == "INFO URL":
            return [self.info_url()]
        if kw == "INFO":
            return [r.choice([b"INFO CODE_ID " + CI.encode() + b" x.dll", b"INFO GENERATOR mozilla/dump_syms 2.3.1", b"INFO URLX y", b"INFO  URL z"])]
        if kw == "FILE":
            return [b"FILE %d src/f%d.c" % (i, i)]
        if kw == "INLINE_ORIGIN":
            return [b"INLINE_ORIGIN %d inl%d()" % (i, i)]
        if kw == "PUBLIC":
            return [b"PUBLIC %s%x 0 pub%d" % (b"m " if r.chance(1, 4) else b"", 0x9000 + 0x10 * i, i)]
        if kw in ("FUNC", "INLINE", "m"):
            ls = [b"FUNC %s%x 20 0 fn%d(int)" % (b"m " if kw == "m" else b"", a, i)]
            if kw == "INLINE" or r.chance(1, 4):
                ls.append(b"INLINE 0 %d 0 0 %x 8" % (10 + i, a))
            ls += [b"%x 10 %d 0" % (a, 10 + i), b"%x 10 %d 1" % (a + 0x10, 11 + i)]
            return ls
        if kw == "STACK WIN":
            return [r.choice([b"STACK WIN 4 %x 20 0 0 4 0 0 0 0 $eip $esp ^ =" % a, b"STACK WIN 0 %x 20 0 0 4 0 0 0 1 1" % a])]
        if kw in ("STACK CFI INIT", "STACK CFI"):
            ls = [b"STACK CFI INIT %x 20 .cfa: $rsp 8 + .ra: .cfa -8 + ^" % a]
            if kw == "STACK CFI" or r.chance(1, 2):
                ls.append(b"STACK CFI %x .cfa: $rsp 16 +" % (a + 4))
            return ls
        return [kw.encode() + b" %x 1 2 name%d" % (a, i)]

    def body(self, df, url_mode=None, eol=None, junk=False, final_nl=True):
        r = self.rng
        if url_mode is None:
            url_mode = r.choice(["none", "none", "none", "after_module", "middle", "last", "several", "first"])
        if eol is None:
            eol = r.choice([b"\n", b"\n", b"\n", b"\r\n", b"mixed"])
        lines = [b"MODULE Linux x86_64 " + ID.encode() + b" " + df]
        pool = [k for k in self.kws if k not in ("MODULE", "INFO URL")]
        for i in range(r.range(1, 7)):
            lines += self.record(r.choice(pool), i)
            if r.chance(1, 10):
                lines.append(b"")
        if url_mode == "after_module":
            lines.insert(1, self.info_url())
        elif url_mode == "middle":
            lines.insert(r.range(1, len(lines)), self.info_url())    # may split a FUNC from its line records: the parser decides
        elif url_mode == "last":
            lines.append(self.info_url())
        elif url_mode == "several":
            lines.insert(1, self.info_url())
            lines.append(self.info_url())
            lines.append(self.info_url())
        elif url_mode == "first":
            lines = [self.info_url()] + (lines[1:] if r.chance(1, 2) else lines)
        if junk:
            j = r.range(0, len(lines))
            lit = r.choice(self.lits + self.kws).encode()
            lines.insert(j, r.choice([lit, lit + b" ", lit.lower() + b" 1", b"X" + lit + b" 1 2", b"GARBAGE", b"MODULE again x 1 y", b"FUNC zz 1 2 n", b"\r", b"a\rb"]))
        out = b""
        for k, l in enumerate(lines):
            e = eol if eol != b"mixed" else r.choice([b"\n", b"\r\n", b"\r\r\n"])
            if k == len(lines) - 1 and not final_nl:
                e = b""
            out += l + e
        return out


BLOCK = re.compile(r"([ABXY])\{([^}]*)\}")


def parse_blocks(ans):
    out = {}
    for name, body in BLOCK.findall(ans):
        out[name] = dict(f.split("=", 1) for f in body.split(" ") if "=" in f)
    return out


def parse_multi(ans):
    """answer of a kM case -> {snaps: [(cache, tmp, mask)], res: [(result, nreq)], F: {c,t}, B: {r,q,c,t}}"""
    bl = dict(re.findall(r"([SRFB])\{([^}]*)\}", ans))
    if set(bl) != set("SRFB"):
        return None
    out = {"snaps": [], "res": []}
    for f in bl["S"].split(" "):
        k, v = f.split("=", 1)
        if k != "n":
            out["snaps"].append(tuple(v.split("/")))
    for f in bl["R"].split(" "):
        out["res"].append(tuple(f.split("=", 1)[1].split("/")))
    out["F"] = dict(f.split("=", 1) for f in bl["F"].split(" "))
    out["B"] = dict(f.split("=", 1) for f in bl["B"].split(" "))
    return out


class Case:
    def __init__(self, line):
        t = line.split()
        self.kind = None
        if t[0] == "kM":
            # kM df id cf ci pre tmo nc scripts.. sched  ->  the single-lookup layout with the schedule kept aside
            nc = int(t[7])
            self.sched = [] if t[8 + nc] == "-" else [(int(x[:-1]), x[-1]) for x in t[8 + nc].split(",")]
            t = t[1:6] + ["0", "n", "-", t[6], t[7]] + t[8:8 + nc]
            self.multi = True
        else:
            self.multi = False
        self.conc = 0
        if t[0].startswith("kS"):
            # n concurrent lookups of the module on ONE Symbolizer (in-process slot per module in front of the supplier)
            self.conc = int(t[0][2:])
            t = t[1:]
        if t[0] in ("kB", "kD"):
            self.kind = t[0][1]
            t = t[1:]
        self.nodebug = t[0] == "N" or t[1] == "N"
        self.df, self.cf = (b"" if t[0] == "N" else unhx(t[0])), unhx(t[2])
        self.pre = t[4]
        nloc = int(t[5])
        self.locs = t[6:6 + nloc]
        i = 6 + nloc
        self.env, self.drop, self.tmo = t[i], t[i + 1], t[i + 2]
        ns = int(t[i + 3])
        self.servers = []
        for s in t[i + 4:i + 4 + ns]:
            p = s.split(";")
            self.servers.append({"status": int(p[0]), "framing": p[1], "cut": p[2],
                                 "race": None if p[3] == "-" else unhx(p[3][1:]), "body": unhx(p[4]),
                                 "redirect": unhx(p[5][1:]).decode() if len(p) > 5 and p[5][0] == "J" else None,
                                 "hops": None})
            if len(p) > 5 and p[5][0] == "V":
                q = p[5][1:].split(":")
                self.servers[-1]["hops"] = (int(q[0]), [unhx(h).decode() for h in q[1:]])
        self.redirected = None
        if self.nodebug and self.kind is None:
            # the first server that redirects the code-info lookup supplies debug file and id
            for sv in self.servers:
                if sv["redirect"]:
                    parts = sv["redirect"].lstrip("/").split("/")
                    self.redirected = (parts[-3].encode(), parts[-2])
                    break
        if self.kind is None and not self.nodebug:
            self.rel = rel_of(self.df)
            self.target = target_of(self.df, self.cf)
        elif self.kind is None and self.redirected:
            self.rel = rel_of(self.redirected[0])
            self.target = target_of(self.redirected[0], self.cf)
        else:
            self.rel = self.target = None

    def blocker(self):
        """env d / i: the regular file the harness plants where create_cache_file needs a directory (tree entry)"""
        if self.env not in ("d", "i") or self.rel is None:
            return None
        comps = self.rel.split("/")
        path = comps[0] if self.env == "d" else "/".join(comps[:2])
        return "%s:%s" % (hx(path.encode()), sig(b"x"))

    def dead_chain(self, i):
        """the redirect chain of server i leads to a closed port or loops for ever: the client gets no response"""
        h = self.servers[i]["hops"]
        return bool(h) and any("127.0.0.1:1/" in l or l.endswith("LOOP") for l in h[1])

    def url(self, i):
        return ("http://127.0.0.1:PORT%d%s" % (i, self.target)).encode()

    def hop_targets(self, i):
        """request targets of the follow-up requests of server i's redirect chain"""
        h = self.servers[i]["hops"]
        out = []
        for l in (h[1] if h else []):
            if "://" in l:
                rest = l.split("://", 1)[1]
                l = rest[rest.index("/"):] if "/" in rest else "/"
            out.append(l)
        return out

    def final_url(self, i):
        """where the bytes of server i's response finally came from (after its redirect chain)"""
        h = self.servers[i]["hops"]
        if not h:
            return self.url(i)
        l = h[1][-1].replace("PORTSELF", "PORT%d" % i)
        return (l if "://" in l else "http://127.0.0.1:PORT%d%s" % (i, l)).encode()

    def served(self, i):
        """bytes of a 200 response that the client can take for a complete body, else None"""
        s = self.servers[i]
        if s["status"] != 200 or self.dead_chain(i):
            return None
        fr = s["framing"][0]
        if fr == "M":
            # the Content-Length header announces <decl> bytes: HTTP says THAT is the body (the client stops reading there);
            # a connection that ends earlier is an incomplete body
            decl = int(s["framing"][1:].split(",")[0])
            sent = len(s["body"]) if s["cut"] == "-" else (min(len(s["body"]), int(s["cut"][1:])) if s["cut"][0] == "c" else -1)
            return s["body"][:decl] if sent >= decl else None
        if s["cut"] == "-":
            return s["body"]
        if s["cut"][0] == "c" and fr == "E":
            return s["body"][:int(s["cut"][1:])]
        if s["cut"][0] == "c" and fr in "LS" and int(s["cut"][1:]) >= len(s["body"]):
            return s["body"]
        return None


def sig(b):
    return "%d:%d" % (len(b), zlib.crc32(b) & 0xffffffff)


class C16(PropBase):
    pid = "C16"
    coq_dirs = ["Base", "C08", "C09", "C10", "C11", "C12", "C16"]
    translators = ["c16_fsops.py", "c16_locate.py", "symfile_loop.py", "c10_stream.py"]
    bins = ["c16"]
    # no wall-clock assumption that can turn into an alarm on a loaded machine: a shard of the thorough tier needs minutes of
    # CPU; hangs are caught per case by the harness's CPU-time watchdog, not by these limits
    impl_timeout = 3600
    model_timeout = 3600
    rule = ("each case: fresh cache/ tmp/ local dirs, a scripted loopback HTTP/1.1 server per URL (status 200/403/404/500/503; "
            "Content-Length flushed in pieces, chunked with scripted chunk boundaries, close-delimited; close without response, FIN or RST "
            "after k body bytes, stall until the client times out; optional write by 'another process' at request time), the real "
            "HttpSymbolSupplier::locate_symbols run to completion, then a second lookup with all servers answering 404; drop cases "
            "repeat the scenario with the future dropped at a poll boundary (n mod polls-to-completion polls). Bodies: ~330-byte "
            "symbol file truncated after EVERY k, corrupt line j for every j, missing final newline, over-long (200 KB) lines "
            "terminated/unterminated, 200 KiB file with sampled cuts; pre-existing entry valid/corrupt/directory; local symbol "
            "paths; cache or tmp below a regular file (ENOTDIR), tmp missing, RLIMIT_FSIZE write failures. Shared-cache histories (kM): "
            "2-3 HttpSymbolSupplier instances share one cache and one tmp directory and fetch the same module from gated servers that "
            "release head / half body / end in every interleaving, for every pair of outcomes (200 Content-Length / chunked / "
            "close-delimited, 4xx/5xx, cut mid-line, RST at a line boundary, corrupt line, no response, future dropped before the head / "
            "after the head / after half the body), late starters, pre-existing valid / corrupt / directory entries; the directories are "
            "snapshotted after every release point. Round 5: downloads answered through 301/302/303/307/308 redirect chains (1-3 hops, absolute "
            "path or absolute URL) to another location that serves the file; chunked bodies whose pieces end exactly at line ends followed "
            "by a 5-40 KB record (does not fit the parser's 10 KiB buffer) or by an unterminated last line, in many alignments. Second pass: chunked bodies with chunk "
            "extensions and a trailer section; a Content-Length header shorter / longer than the body sent; slow-loris delivery (head and body in pieces with pauses); redirect chains "
            "that end at a closed port or loop for ever; a regular file where <debug_file>/ or <debug_file>/<id>/ must be created, a cache root that does not exist yet; n concurrent "
            "lookups of one module on one Symbolizer (kS<n>). Non-trivial = a cache "
            "entry exists in some block or the future was dropped; distinct = distinct case lines")
    trusted_base = [
        "Coq 8.16.1 kernel; vm_compute in the non-vacuity examples only",
        "hand-written model C16/Model.v (state machine of fetch_symbol_file/commit_cache_file/locate_symbols over an abstract file system), "
        "tied to the code by the correspondence run; hand-written interpreter C16/Shared.v (one fs operation per scheduler step, any number of "
        "clients) whose operation programs create_ops / commit_ops and the step order of fetch_symbol_file are regenerated from http.rs by "
        "translate/c16_fsops.py (statement-by-statement, aborts on any statement it does not know); the meaning of each operation "
        "(exec_op: create_dir_all, exists+remove_file, NamedTempFile::new_in, write_all, persist_noclobber as ONE atomic step each) is hand-written",
        "temp files are keyed by their owning client (NamedTempFile names are unique: O_EXCL + random suffix); one temp file per client at a time",
        "the symbol parser is a parameter of the model (verdict a function of the byte string: C09/C10); the driver instantiates it with C09/C10's "
        "parse_bytes (line recogniser of C16/Driver.v only for inputs with over-long lines), compared with the real parser on every case",
        "C16/Model.v models the temp file as holding all bytes received and the parser as a function of the whole body; C16/Stream.v removes both "
        "simplifications for ONE download: parse_async's loop (C10/Stream.v step_stream, equal to the loop assembled from the conditions that "
        "translate/symfile_loop.py and translate/c10_stream.py extract from sym_file/mod.rs: c16_stream_loop_is_source) with the tee callback writing "
        "what the loop hands out; the body is a script of response.chunk() results (any sizes, empty chunks, failure anywhere). circular::Buffer is "
        "modelled by its indices (FIFO contract, C09); which bytes a callback slice holds is the prefix of the body of that length",
        "the streaming fetch is compared with C16/Model.v (and so with the real code) on every case whose last server is the only one that sends a body: "
        "with C09's recogniser for bodies with lines < 4100 bytes, with the line recogniser of C16/Driver.v for the generated bodies with longer lines",
        "ownership: C16/Raii.v interprets the step list of fetch_symbol_file (translated by c16_fsops.py) with a frame of owned locals and ONE drop site "
        "(frame left by return / `?` / future dropped at an await; a dropped NamedTempFile removes its file; commit_cache_file takes it by value); "
        "C16/Model.v is proved equal to that interpreter on the translated list. Trusted: that rustc runs drops where the language says, tempfile's Drop "
        "(remove_file, errors ignored), persist_noclobber forgetting the path on success; a killed process runs no drops",
        "C16/StreamRaii.v: the same ownership reading for the streaming download (the frame's `temp` lives in the loop state; eager writes; one drop site); proved equal to C16/Stream.v; "
        "C16/InProcess.v: one supplier call = one [locate]; the number of calls is C12's model of the Symbolizer slot (tied to the code by C12's own check and by the kS<n> cases here)",
        "std::fs semantics, kernel rename/link atomicity, reqwest/hyper/tokio (incl. redirect following inside send()): runtime, exercised by the harness, not modelled",
        "extraction ExtrOcamlBasic only; ocaml/c16/main.ml (script -> event list, CRC32); harness/src/bin/c16.rs (scripted server, poll-counting drop adapter)",
    ]
    assumptions = [
        "c16_rehit_same: parser = C09/C10's parse_bytes (the real parser's verdict when all lines are < 80 KiB), contract proved there (c10_cached_form_parse); hypothesis url_ok for the server URLs (always true for Url::to_string()). For inputs with over-long lines only c16_rehit_same_any_parser (contract assumed) and the harness apply",
        "c16_stream_*: hypotheses split_ok b (the byte decomposition is faithful: proved for split_c, StreamProofs2.split_c_ok) and delivered script = |b| (the input of the parse IS what the body delivers); "
        "c16_stream_verdict_chunk_independent / c16_stream_download_then_cache_hit additionally lines < 80 KiB (C10's class; its bound is tight: c10_bound_is_tight)",
        "the single-lookup theorems take race = None; concurrent clients are covered by the c16_shared_* theorems, in which every client runs THIS code (same operation programs) "
        "and each file-system operation is atomic; a foreign writer with other code, and a crash of the whole process (no RAII cleanup), are not modelled",
        "c16_shared_*: hypotheses m_cache f = c0 (whatever is at the path initially) and an initially empty tmp directory; clients use the cache path of one module",
        "c16_file_*: the machine of C16/FileFetch.v (fetch_lookup / locate_file: binaries, extra debug info), hand-written, compared with the real locate_file on the kB / kD cases; "
        "its statement list is pinned by translate/c16_fsops.py (c16_file_steps_are_source); persist_noclobber is ONE atomic step that fails when anything is at the path; "
        "a file written by another process during the download is judged by the oracle only",
        "the code-info redirect lookup and inputs with 60-170 KB lines are judged by the oracle only (the model answers '?'); fetch_cab_lookup (feature mozilla_cab_symbols) is not covered",
    ]
    manifest = {
        "text": "partial: Theorems (Coq, every event list incl. a dropped future at ANY position, every initial file system, every outcome of the "
                "file-system calls, every parser verdict function): a cache entry is created only at the module's path and only after a "
                "non-error status, the clean end of the whole body and parser Ok on exactly those bytes; it then equals downloaded bytes "
                "(+ one newline iff they lack a final newline) + `INFO URL u\\n`; tmp is as before after every finished run and holds at most "
                "the one in-flight file while pending (c16_no_stray_tmp / c16_locate_no_stray_tmp, round 5 without `_partial`: derived from c16_raii_every_program -- an interpreter of "
                "fetch_symbol_file's step list under ownership rules, one drop site, leaves no temp file for EVERY program -- and c16_model_is_ownership_semantics -- the model's state machine "
                "IS that interpreter on the step list translated from http.rs); every non-success run leaves the whole cache untouched; local paths and cache decide "
                "before the network (only NotFound cascades); servers are asked in order, once each; a later cache hit gives the same table and URL without a request (c16_rehit_same: "
                "for C09/C10's parser model with its proved contract, url_ok the only hypothesis). Shared cache (any number of clients running this code, every interleaving of their network "
                "events and of their individual file-system operations; the operation order of create_cache_file / commit_cache_file is translated from http.rs on every run): "
                "c16_shared_cache_inv (whatever file is at the path is the initial one or body+[newline]+note of a wholly parsed body; finished clients own no temp file; an in-flight temp file "
                "holds exactly what its client received), c16_shared_cache_changes_only_in_commit, c16_shared_failed_downloads_keep_entry (no step of a client outside commit_cache_file "
                "-- head arriving, streaming, any failure, drop -- changes an entry another client committed), c16_shared_seeded_order_refuted (removal moved into create_cache_file: "
                "a failing client deletes the entry), c16_commit_program_refines / c16_create_program_refines (the translated programs = the one-step functions of the single-client model, "
                "every error branch). Streaming download (round 5; C16/Stream.v = parse_async's loop as pinned from the source by C10's translators + tee callback + "
                "create/commit; every body script: chunks of any size, empty chunks, failure at any point; every recogniser; every outcome of every fs call): "
                "c16_stream_entry_only_from_whole_body (Ok only if the body did not fail, the loop returned Ok and the callback had been given EVERY byte; the entry is then "
                "whole body + [newline] + note, or unchanged, or an older entry removed and persist failed; every error leaves the cache untouched; tmp as before in all cases), "
                "c16_stream_verdict_chunk_independent (lines < 80 KiB: the verdict is the schedule-free one for every chunking), c16_stream_failed_body_leaves_nothing, "
                "c16_stream_dropped_leaves_nothing (drop after any number of loop iterations; second pass: no longer `_partial` -- derived from c16_stream_is_ownership_semantics "
                "[stream_fetch / stream_fetch_dropped / stream_fetch_inflight ARE the ownership machine of C16/StreamRaii.v: file system threaded through parse_async's loop, every callback call "
                "writes when it happens, `temp = None` drops the old value, ONE drop site applied whenever the frame is left] and c16_stream_raii [invariant of that machine: the frame owns at most "
                "the one new file in tmp, the cache is untouched before the commit]), c16_stream_lookup_entry_only_from_whole_body (every server list, every response), "
                "c16_locate_is_source (Model.locate = the function assembled from the cascade pattern / server-loop arms / final value that translate/c16_locate.py extracts from locate_symbols), "
                "c16_model_response_is_stream_fetch / c16_model_failed_response_is_stream_fetch (Model.run over a response in ANY chunks = the streaming download under EVERY body script: lines < 80 KiB, tee writes succeed), "
                "c16_stream_note_is_reported_url (which URL -- requested or final after redirects -- is reported and which is written into the note is translated from http.rs; they are the same source, "
                "so for every redirect target the entry's note is the URL the lookup reported), c16_stream_loop_is_source, c16_stream_download_then_cache_hit "
                "(C09/C10 recogniser: streamed download under any chunking, then the whole-file parse of the entry: same table, URL of the note), c16_stale_flag_refuted "
                "(the loop with a `consumed == 0` fast path before the bookkeeping returns Ok after 15 of 23 bytes). "
                "Binaries / extra debug info (second pass; fetch_lookup / locate_file, C16/FileFetch.v; every event list, EDrop anywhere): c16_file_entry_only_from_whole_body (a file appears in the cache only "
                "at the path, only where nothing was, only after a non-error head and the clean end of the body, and is EXACTLY those bytes), c16_file_no_stray_tmp, c16_file_failed_leaves_cache, "
                "c16_file_existing_never_replaced, c16_file_raii_every_program + c16_file_model_is_ownership_semantics (the machine IS the ownership interpreter of C16/FileRaii.v on the step list that "
                "translate/c16_fsops.py extracts from fn fetch_lookup; that interpreter leaves no temp file for EVERY program), c16_file_steps_are_source; compared with the real locate_file on the kB/kD cases. "
                "In-process concurrency (second pass): c16_process_is_one_lookup -- C12's model of the Symbolizer's per-module slot (every task set, every executor schedule; "
                "C12.Proofs.at_most_once) composed with [locate]: whatever runs concurrently in ONE process, the servers and the cache directory see for one module what ONE lookup does "
                "(request log = a prefix of the server list), so the single-lookup theorems hold for the process; compared with the real Symbolizer + HttpSymbolSupplier on kS<n> cases "
                "(n concurrent fill_symbol calls in one join_all: exactly one supplier call, one request log, one entry, n equal answers); c16_process_file_is_one_lookup: the same for files "
                "(C12/FileModel.v's slot per (module, kind) + locate_file of C16/FileFetch.v), compared on kS<n> kB / kD cases (n concurrent locate_file calls on one supplier). "
                "Runtime behaviour NOT modelled but exercised: reqwest/hyper/tokio (incl. redirect following), NamedTempFile RAII, rename atomicity — "
                "the real HttpSymbolSupplier runs against a scripted loopback server (every truncation point, chunkings, cascades, I/O failures, "
                "drops at poll boundaries; 2-3 suppliers sharing cache+tmp with server-controlled interleavings, directory snapshots at every release point) and is compared with the extracted "
                "models; an independent oracle re-checks cache/tmp trees, the survival of committed entries across other clients' failures, and the re-hit.",
        "note": "Trusted: Coq kernel; hand-written model (correspondence-checked only); parser abstract (C09/C10); kernel/file-system and HTTP stack are runtime. "
                "F-C16a (URL lost on cache hit for an over-long unterminated last line) fixed in /repo 13aaab3. No theorem carries the suffix `_partial` any more "
                "(what stays trusted about RAII: that rustc runs drops where the language says, tempfile's Drop, no process kill). "
                "Redirects: reqwest follows them inside send() (runtime); in lookup_stream every response carries an arbitrary final URL; "
                "the oracle demands that the entry's note names the URL the download reported and that the cache hit reports it too.",
    }

    # ------------------------------------------------------------------ generation
    def gen_cases(self, tier, seed):
        rng = Rng(seed)
        cases = []
        dist = {"truncate_every_k": 0, "corrupt_line_j": 0, "drop": 0, "random": 0, "big": 0, "special": 0,
                "own_info_url": 0, "dictionary_bodies": 0, "cut_at_line_boundary": 0,
                "locate_file": 0, "code_info_redirect": 0, "lines_80_160k": 0, "shared_cache": 0,
                "redirect_download": 0, "aligned_pieces": 0}
        bg = BodyGen(rng)
        dist["dictionary_atoms"] = len(bg.kws) + len(bg.lits)
        thorough = tier != "quick"
        df0 = MODS[0][0]
        base = join(sym_lines(df0))
        n = len(base)

        def add(kind, c):
            cases.append(c)
            dist[kind] += 1

        # every truncation point of the small file, three framings / cut kinds
        for k in range(n + 1):
            add("truncate_every_k", case(0, [srv(cut="c%d" % k, body=base)]))
            if k % 3 == 0 or thorough:
                offs = sorted({rng.below(n) for _ in range(rng.below(4))})
                add("truncate_every_k", case(0, [srv(framing="K" + ",".join(map(str, offs)), cut="%s%d" % ("r" if k % 2 and k < n else "c", k), body=base)]))
            if k % 4 == 0 or thorough:
                add("truncate_every_k", case(0, [srv(framing="E", cut="c%d" % k, body=base)]))
            if k % 7 == 0:
                # the cut server is followed by a good one
                add("truncate_every_k", case(0, [srv(cut="c%d" % k, body=base), srv(body=base)]))
        # corrupt line j
        lines = sym_lines(df0)
        for j in range(len(lines) + 1):
            for junk in (b"GARBAGE LINE", b"XFUNC 1 2 3 x"):
                b = join(lines[:j] + [junk] + lines[j:])
                add("corrupt_line_j", case(0, [srv(body=b)]))
                add("corrupt_line_j", case(0, [srv(framing="K%d" % rng.below(len(b)), body=b), srv(body=base)]))
        # drops at every poll boundary
        split3 = "%d,%d,%d" % (n // 4, n // 2, 3 * n // 4)
        drop_scripts = [
            [srv(framing="L" + split3, body=base)],
            [srv(framing="K" + split3, body=base)],
            [srv(framing="E", body=base)],
            [srv(404), srv(framing="L" + split3, body=base)],
            [srv(framing="L" + split3, cut="c%d" % (n // 2 + 5), body=base), srv(framing="K" + split3, body=base)],
            [srv(framing="K" + split3, body=join(lines[:5] + [b"GARBAGE"] + lines[5:]))],
            [srv(500)],
        ]
        for sc in drop_scripts:
            for d in range(0, 24 if thorough else 14):
                add("drop", case(0, sc, drop=d))
        many = ",".join(str(x) for x in range(17, n, 17))
        for d in range(0, 40 if thorough else 26):
            add("drop", case(0, [srv(framing="L" + many, body=base)], drop=d))
            add("drop", case(0, [srv(framing="K" + many, body=base)], drop=d))
            add("drop", case(0, [srv(framing="K" + many, cut="c%d" % (n - 30), body=base), srv(framing="L" + many, body=base)], drop=d))
        for d in range(0, 8):
            add("drop", case(0, drop_scripts[0], pre="F" + hx(base), drop=d))
            add("drop", case(0, drop_scripts[0], pre="D", drop=d))
            add("drop", case(0, drop_scripts[1], env="t", drop=d))
        # special bodies and environments
        giant = b"PUBLIC a000 0 " + b"x" * 200000
        other = join(sym_lines(df0, nfunc=1, npub=5))
        specials = [
            case(0, [srv(body=base)]),
            case(0, [srv(body=base[:-1])]),                       # no final newline: rejected
            case(0, [srv(body=b"")]),
            case(0, [srv(body=b"\n")]),
            case(0, [srv(body=base + giant)]),                    # F-C16a
            case(0, [srv(framing="K100,70000,150000", body=base + giant)]),
            case(0, [srv(body=base + giant + b"\n")]),
            case(0, [srv(body=base + giant + b"\nPUBLIC b000 0 after\n")]),
            case(0, [srv(body=giant)]),
            case(0, [srv(body=base + b"INFO URL http://elsewhere/x\n")]),
            case(0, [srv(body=base)], pre="F" + hx(other)),
            case(0, [srv(body=base)], pre="F" + hx(b"GARBAGE\n")),   # corrupt entry: parse error, no cascade
            case(0, [srv(body=base)], pre="F" + hx(other + b"INFO URL http://old/u\n")),
            case(0, [srv(body=base)], pre="D"),
            case(0, [srv(body=base)], locs=["-"]),
            case(0, [srv(body=base)], locs=["-", "F" + hx(other)]),
            case(0, [srv(body=base)], locs=["F" + hx(b"JUNK\n"), "F" + hx(other)]),
            case(0, [srv(body=base)], locs=["F" + hx(other)], pre="F" + hx(base)),
            case(0, [srv(body=base)], env="c"),
            case(0, [srv(body=base)], env="t"),
            case(0, [srv(body=base)], env="m"),
            case(0, [srv(body=base, race=other)]),
            case(0, [srv(404, race=other), srv(body=base)]),
            case(0, [srv(cut="h", body=base)]),
            case(0, [srv(cut="h", body=base), srv(body=base)]),
            case(0, [srv(cut="s100", body=base)], tmo=250),
            case(0, [srv(framing="K50", cut="s100", body=base), srv(body=base)], tmo=250),
            case(0, [srv(404), srv(body=base)]),
            case(0, [srv(500), srv(body=base)]),
            case(0, [srv(403), srv(503), srv(body=base)]),
            case(0, [srv(body=join(lines[:3] + [b"JUNK"])), srv(body=base)]),   # parse error also moves on to the next server
            case(1, [srv(body=join(sym_lines(MODS[1][0])))]),
            case(2, [srv(body=join(sym_lines(MODS[2][0])))]),
            case(0, []),
        ]
        for w in list(range(0, n + 80, 9)):
            specials.append(case(0, [srv(body=base)], env="w%d" % w))
        for c in specials:
            add("special", c)
        # bodies that carry INFO URL records of their own (a mirror serving another instance's cache):
        # every position x line ending x framing; also as pre-existing entry and behind a failing server
        for um in ("after_module", "middle", "last", "several", "first"):
            for eol in (b"\n", b"\r\n", b"mixed"):
                for rep in range(2 if not thorough else 6):
                    b = bg.body(df0, url_mode=um, eol=eol)
                    nb_ = len(b)
                    o3 = "%d,%d" % (nb_ // 3, 2 * nb_ // 3)
                    add("own_info_url", case(0, [srv(body=b)]))
                    add("own_info_url", case(0, [srv(framing="K" + o3, body=b)]))
                    add("own_info_url", case(0, [srv(framing="E", body=b)]))
                    add("own_info_url", case(0, [srv(rng.choice([404, 500])), srv(framing="L" + o3, body=b)]))
                b = bg.body(df0, url_mode=um, eol=eol)
                add("own_info_url", case(0, [srv(body=base)], pre="F" + hx(b)))
                add("own_info_url", case(0, [srv(body=base)], locs=["F" + hx(b)]))
                add("own_info_url", case(0, [srv(framing="K7", body=b)], drop=rng.below(12)))
        # every cut directly after a '\n' (the received prefix is a well-formed shorter file), all framings
        nls = [i + 1 for i in range(n) if base[i:i + 1] == b"\n"]
        for k in nls:
            for fr in ("L%d" % (k // 2), "K%d" % (k // 2), "K%d" % k):
                for ct in ("c", "r"):
                    if k < n:
                        add("cut_at_line_boundary", case(0, [srv(framing=fr, cut="%s%d" % (ct, k), body=base)]))
        # ---- shared cache (round 4): two or three clients (one HttpSymbolSupplier each) share the cache and tmp
        # directories and download the same module; the gated servers release head / half body / end in every
        # interleaving; every outcome combination (success, HTTP error, cut, RST at a line boundary, corrupt,
        # no response, abandoned after the head / after half the body / before the head), late starters
        corrupt_tail = join(lines[:-2] + [b"GARBAGE LINE"] + lines[-2:])
        nl_late = [k for k in nls if n // 2 < k < n]
        kinds = [
            ("ok", lambda: srv(body=base), ["H", "E"]),
            ("okK", lambda: srv(framing="K%d,%d" % (n // 3, 2 * n // 3), body=other), ["H", "E"]),
            ("okE", lambda: srv(framing="E", body=other), ["H", "B", "E"]),
            ("404", lambda: srv(rng.choice([404, 500, 403])), ["E"]),
            ("cut", lambda: srv(cut="c%d" % rng.range(n // 2 + 3, n - 2), body=base), ["H", "E"]),
            ("rstnl", lambda: srv(framing="K%d" % (n // 2), cut="r%d" % rng.choice(nl_late), body=base), ["H", "B", "E"]),
            ("corrupt", lambda: srv(body=corrupt_tail), ["H", "E"]),
            ("nohead", lambda: srv(cut="h", body=base), ["E"]),
            ("dropH", lambda: srv(body=base), ["H", "D"]),
            ("dropB", lambda: srv(framing="K%d" % (n // 4), body=other), ["H", "B", "D"]),
            ("drop0", lambda: srv(body=base), ["D"]),
        ]
        def toks(i, seq):
            return ["%d%s" % (i, x) for x in seq]
        for ka, mka, sa in kinds:
            for kb, mkb, sb in kinds:
                ils = list(interleavings([toks(0, sa), toks(1, sb)]))
                if not thorough and len(ils) > 6:
                    ils = [ils[0], ils[-1]] + [ils[rng.range(1, len(ils) - 2)] for _ in range(4)]
                for il in ils:
                    add("shared_cache", mcase([mka(), mkb()], il))
        # late starters (cache hit instead of a download), pre-existing entries, three clients
        for _ in range(120 if not thorough else 1200):
            nc = rng.choice([2, 3, 3])
            ch = [rng.choice(kinds) for _ in range(nc)]
            seqs = []
            for i, (kn, mk, sq) in enumerate(ch):
                sq = list(sq)
                if rng.chance(1, 3):
                    sq = ["S"] + sq
                seqs.append(toks(i, sq))
            il = []
            while any(seqs):
                q = rng.choice([q for q in seqs if q])
                il.append(q.pop(0))
            pre = "-"
            c_ = rng.below(10)
            if c_ == 0:
                pre = "F" + hx(other)
            elif c_ == 1:
                pre = "D"
            elif c_ == 2:
                pre = "F" + hx(b"BROKEN\n")
            add("shared_cache", mcase([mk() for kn, mk, sq in ch], il, pre=pre, mod=rng.below(3) if pre == "-" else 0))
        # ---- locate_file for binaries / extra debug info (fetch_lookup): oracle only, the model answers '?'
        blob = bytes((i * 7 + 3) % 256 for i in range(700)) + b"\nINFO URL not-a-sym-file\n" + bytes(range(256))
        nbl = len(blob)
        for kind in ("kB", "kD"):
            def kadd(servers, **kw):
                add("locate_file", kind + " " + case(0, servers, **kw))
            kadd([srv(body=blob)])
            kadd([srv(body=b"")])
            kadd([srv(framing="K100,300,900", body=blob)])
            kadd([srv(framing="E", body=blob)])
            kadd([srv(404), srv(500), srv(framing="L400", body=blob)])
            kadd([srv(cut="h", body=blob), srv(body=blob)])
            kadd([srv(framing="K64", cut="s300", body=blob), srv(body=base)], tmo=250)
            for k in range(0, nbl + 1, 37 if not thorough else 5):
                kadd([srv(framing=rng.choice(["L", "L%d" % (k // 2), "K%d" % (k // 2 + 1), "K%d" % nbl]), cut="%s%d" % (rng.choice("cr") if k < nbl else "c", k), body=blob)])
                if k % 3 == 0:
                    kadd([srv(framing="E", cut="c%d" % k, body=blob)])
            for d in range(0, 12):
                kadd([srv(framing="L" + ",".join(str(x) for x in range(100, nbl, 100)), body=blob)], drop=d)
                kadd([srv(framing="K200,400,600", cut="c650", body=blob), srv(framing="K300", body=blob)], drop=d)
            kadd([srv(body=blob)], pre="F" + hx(b"older binary"))
            kadd([srv(body=blob)], pre="D")
            kadd([srv(body=blob)], locs=["-", "F" + hx(b"local copy")])
            kadd([srv(body=blob)], env="t")
            kadd([srv(body=blob)], env="c")
            kadd([srv(body=blob)], env="m")
            kadd([srv(body=blob, race=b"theirs")])
            for w in range(0, nbl + 40, 97):
                kadd([srv(body=blob)], env="w%d" % w)
        # ---- modules without debug file/id: code-info redirect lookup first (oracle only)
        def nadd(servers, **kw):
            t = case(0, servers, **kw).split(" ")
            t[0], t[1] = ("N", "N") if rng.chance(2, 3) else (t[0], "N")
            add("code_info_redirect", " ".join(t))
        loc = ";J" + hx(("/v1/" + rel_of(df0)).encode())
        loc2 = ";J" + hx(("prefix/libfoo.so/%s/libfoo.so.sym" % ID).encode())
        for rep in range(3 if not thorough else 12):
            b = bg.body(df0) if rep else base
            nb_ = len(b)
            nadd([srv(body=b) + loc])
            nadd([srv(body=b)])
            nadd([srv(404), srv(framing="K%d" % (nb_ // 2), body=b) + loc])
            nadd([srv(404) + loc, srv(body=b)])
            nadd([srv(body=b) + loc2])
            nadd([srv(cut="c%d" % rng.below(nb_), body=b) + loc])
            nadd([srv(cut="c%d" % rng.below(nb_), body=b) + loc, srv(body=b)])
            nadd([srv(body=join(lines[:4] + [b"JUNK"])) + loc])
            nadd([srv(framing="L%d,%d" % (nb_ // 3, 2 * nb_ // 3), body=b) + loc], drop=rng.below(16))
            nadd([srv(body=b) + loc], env=rng.choice(["t", "c", "m", "w100"]))
        # ---- lines of 80-160 KiB: the over-long-line recovery depends on buffer alignment there (C10);
        # the model does not predict these (answers '?'), the oracle still demands: entry = body + record,
        # and the cache hit equals the download
        for ln in (65000, 81900, 81919, 81920, 81921, 100000, 131072, 163000, 163839, 163840, 165000):
            for pos in ("middle", "last", "unterminated"):
                rec = b"PUBLIC a000 0 " + b"y" * (ln - 14)
                if pos == "middle":
                    b = join(lines[:6] + [rec] + lines[6:])
                elif pos == "last":
                    b = join(lines + [rec])
                else:
                    b = join(lines + [rec], final_nl=False)
                fr = rng.choice(["L", "K4096,8192,100000", "L10000,50000,90000", "K1000", "E"])
                add("lines_80_160k", case(0, [srv(framing=fr, body=b)]))
        # around every size the parser's buffer can have (10/20/40/80/128/160 KiB) and inside the 128-160 KiB band:
        # the download (parse_async) and the cache hit (parse of the file) must keep or discard the same lines;
        # a long FUNC whose line records follow makes a one-sided discard a parse error
        # (the record stands before the first FUNC: between a FUNC's line records it would make the file corrupt;
        # lines of 10-60 KB are left to C10: the C09/C10 parser model needs minutes for them)
        for ln in (66000, 82000, 131000, 140000, 150000, 160000, 163800):
            rec = b"PUBLIC a000 0 " + b"z" * (ln - 14)
            add("lines_80_160k", case(0, [srv(framing=rng.choice(["L", "K4096,8192,100000", "E"]), body=join(lines[:4] + [rec] + lines[4:]))]))
        for ln in (100000, 131072, 150000):
            frec = b"FUNC a000 20 0 " + b"f" * (ln - 15)
            add("lines_80_160k", case(0, [srv(framing=rng.choice(["L", "K1000"]), body=join(lines[:4] + [frec, b"a000 10 7 0", b"a010 10 8 1"] + lines[4:]))]))
        # ---- the download is redirected (301/302/303/307/308, one to three hops, absolute path or absolute URL) to
        # another location that serves the file: entry = body + note of the URL the download REPORTS, and the
        # cache hit reports that same URL
        mirror = "/mirror/bucket/%s" % rel_of(df0)
        for code in (301, 302, 303, 307, 308):
            for hops in ([mirror], ["http://127.0.0.1:PORTSELF/abs/" + rel_of(df0) + "?sig=1"], ["/hop1/x.sym", mirror], ["/a", "/b?x=1", "/c/d.sym"]):
                if not thorough and code in (303, 308) and len(hops) > 1:
                    continue
                rd = (code, hops)
                b = base if rng.chance(1, 2) else bg.body(df0)
                nb_ = len(b)
                add("redirect_download", case(0, [srv(body=b, redir=rd)]))
                add("redirect_download", case(0, [srv(framing="K%d" % (nb_ // 2), body=b, redir=rd)]))
                add("redirect_download", case(0, [srv(404), srv(framing="E", body=b, redir=rd)]))
                add("redirect_download", case(0, [srv(cut="c%d" % rng.below(nb_), body=b, redir=rd), srv(body=base)]))
                add("redirect_download", case(0, [srv(rng.choice([404, 500]), redir=rd), srv(body=b)]))
                add("redirect_download", case(0, [srv(body=join(lines[:5] + [b"GARBAGE"] + lines[5:]), redir=rd), srv(body=b, redir=(code, ["/other" + mirror]))]))
                add("redirect_download", case(0, [srv(framing="L%d" % (nb_ // 3), body=b, redir=rd)], drop=rng.below(20)))
            add("redirect_download", case(0, [srv(body=base, redir=(code, [mirror]))], pre="F" + hx(other)))
            add("redirect_download", case(0, [srv(body=base, redir=(code, [mirror]))], env=rng.choice(["t", "c", "w100"])))
            add("redirect_download", case(1, [srv(body=join(sym_lines(MODS[1][0])), redir=(code, ["/m/" + rel_of(MODS[1][0])]))]))
        # ---- network pieces that end exactly at a line end, followed by a line that does not fit the parser's
        # 10 KiB buffer (5-40 KB record) or by an unterminated last line: the streaming parser must not take the
        # next zero-byte read for the end of the body (chunked framing: a data frame never crosses a chunk
        # boundary, so the pieces are what response.chunk() returns).  Entry = the WHOLE body + note, or no entry.
        def long_rec(kind, ln, tag):
            if kind == "PUBLIC":
                return [b"PUBLIC %x 0 " % (0xa000 + tag) + b"p" * (ln - 15)]
            if kind == "FUNC":
                return [b"FUNC %x 20 0 " % (0xc000 + 0x100 * tag) + b"f" * (ln - 15), b"%x 10 7 0" % (0xc000 + 0x100 * tag)]
            if kind == "FILE":
                return [b"FILE %d " % (50 + tag) + b"d" * (ln - 8)]
            return [b"INFO " + b"i" * (ln - 5)]
        head4, rest4 = lines[:4], lines[4:]
        fill_opts = [0, 0, 2900, 5100, 6000, 9000]
        lens = [5200, 7000, 9000, 10239, 10240, 10241, 12000, 20000, 30000, 40000]
        reps = 1 if not thorough else 2
        tagc = 0
        for ln in lens:
            for kind in ("PUBLIC", "FUNC", "FILE", "INFO"):
                for rep in range(reps):
                    tagc += 1
                    fill = [b"FILE %d filler/%04d.c" % (100 + i, i) for i in range(rng.choice(fill_opts) // 24)]
                    where = rng.choice(["early", "groups", "last", "twice"])
                    rec = long_rec(kind, ln + rng.below(3), tagc % 7)
                    if where == "early":
                        ls = head4 + fill + rec + rest4
                        at = [len(join(head4 + fill))]
                    elif where == "groups":
                        ls = head4 + fill + rest4[:6] + rec + rest4[6:]
                        at = [len(join(head4 + fill + rest4[:6]))]
                    elif where == "last":
                        ls = head4 + fill + rest4 + rec
                        at = [len(join(head4 + fill + rest4))]
                    else:
                        rec2 = long_rec(rng.choice(["PUBLIC", "INFO"]), rng.choice(lens), 6)
                        ls = head4 + rec + fill + rest4 + rec2
                        at = [len(join(head4)), len(join(head4 + rec + fill + rest4))]
                    b = join(ls)
                    allnl = [i + 1 for i in range(len(b)) if b[i:i + 1] == b"\n"]
                    # (at most 16 consecutive aligned pieces: the model's event-list glue is quadratic in the number of chunks)
                    variants = [at, [x for x in allnl if x <= at[-1]][-16:], at + [at[-1] + rng.range(1, ln - 1)], at + [x for x in allnl if x > at[-1]][:1]]
                    for v in ([variants[0], rng.choice(variants[1:])] if not thorough else variants):
                        add("aligned_pieces", case(0, [srv(framing="K" + ",".join(map(str, sorted(set(v)))), body=b)]))
                    if rep == 0 and kind in ("PUBLIC", "INFO"):
                        add("aligned_pieces", case(0, [srv(framing="L" + ",".join(map(str, at)), body=b)]))
        # unterminated last line after an aligned piece (short, or 5-40 KB): rejected, nothing cached
        for tailrec in (b"PUBLIC b000 0 tail", b"FILE 9 x", b"I", b"PUBLIC b000 0 " + b"t" * 6000, b"INFO " + b"u" * 12000, b"PUBLIC b000 0 " + b"v" * 33000):
            for k in ([len(base)] + ([rng.choice(nls)] if len(tailrec) < 100 else [])):
                b = base[:k] + tailrec
                cutset = [k] if rng.chance(1, 2) else [x for x in nls if x <= k]
                add("aligned_pieces", case(0, [srv(framing="K" + ",".join(map(str, cutset)), body=b)]))
                add("aligned_pieces", case(0, [srv(framing="K" + ",".join(map(str, cutset)), body=b), srv(body=base)]))
                add("aligned_pieces", case(0, [srv(framing="E", cut="c%d" % len(b), body=b + b"\nFILE 7 never-sent\n")]))
        # every line end of the small file as the only chunk boundary, the next line made long / the rest unterminated
        for k in nls:
            if k < n:
                j = base.index(b"\n", k)
                if base[k:j].split(b" ")[0] in (b"MODULE", b"INFO", b"FILE", b"FUNC", b"PUBLIC", b"STACK"):
                    # (a line record takes no trailing text)
                    b = base[:j] + b" " + b"w" * 11000 + base[j:]
                    add("aligned_pieces", case(0, [srv(framing="K%d" % k, body=b)]))
                add("aligned_pieces", case(0, [srv(framing="K%d" % k, body=base[:j])]))
        # 200 KiB file, sampled cuts
        big_lines = sym_lines(df0, nfunc=2400, npub=1200)
        big = join(big_lines)
        nb = len(big)
        add("big", case(0, [srv(body=big)]))
        add("big", case(0, [srv(framing="K1000,20000,90000,%d" % (nb - 1), body=big)]))
        for _ in range(10 if not thorough else 60):
            k = rng.below(nb + 1)
            fr = rng.choice(["L", "K4096,100000", "E", "L50000"])
            add("big", case(0, [srv(framing=fr, cut="%s%d" % (rng.choice("cr") if k < nb else "c", k), body=big)]))
        add("big", case(0, [srv(framing="L60000,120000", body=big)], drop=rng.below(40)))
        add("big", case(0, [srv(framing="K30000,60000,120000", body=big)], drop=rng.below(40)))
        # random scripts
        nrand = 1500 if not thorough else 10000
        for _ in range(nrand):
            mod = rng.below(3)
            df = MODS[mod][0]
            good = join(sym_lines(df, nfunc=rng.below(4), npub=rng.below(4)))
            servers = []
            for si in range(rng.choice([1, 1, 1, 2, 2, 3])):
                st = rng.choice([200, 200, 200, 200, 404, 404, 500, 403, 503])
                bsel = rng.below(10)
                ls = sym_lines(df, nfunc=rng.below(4), npub=rng.below(4))
                if bsel < 3:
                    body = join(ls)
                elif bsel < 5:
                    body = bg.body(df, junk=rng.chance(1, 5), final_nl=not rng.chance(1, 12))
                    dist["dictionary_bodies"] += 1
                elif bsel == 5:
                    j = rng.below(len(ls) + 1)
                    body = join(ls[:j] + [rng.choice([b"GARBAGE", b"ZZZ 1 2", b"MODULE again x 1 y"]) if j else b"XGARBAGE"] + ls[j:])
                elif bsel == 6:
                    body = join(ls, final_nl=False)
                elif bsel == 7:
                    body = join(ls) + b"\n\nINFO x y\n"
                elif bsel == 8:
                    body = b""
                else:
                    body = good
                nbod = len(body)
                offs = sorted({rng.below(nbod) for _ in range(rng.below(5))}) if nbod else []
                fr = rng.choice(["L", "L", "K", "K", "E"])
                if fr != "E":
                    fr += ",".join(map(str, offs))
                cut = "-"
                c = rng.below(10)
                lb = [i + 1 for i in range(nbod - 1) if body[i:i + 1] == b"\n"]
                if c == 0:
                    cut = "c%d" % (rng.choice(lb) if lb and rng.chance(1, 2) else rng.below(nbod + 1))
                elif c == 1:
                    cut = "r%d" % (rng.choice(lb) if lb and rng.chance(1, 2) else rng.below(nbod)) if nbod else "-"
                elif c == 2:
                    cut = "h"
                servers.append(srv(st, fr, cut, None, body))
            pre = "-"
            c = rng.below(12)
            if c == 0:
                pre = "F" + hx(rng.choice([good, bg.body(df), bg.body(df, url_mode="last")]))
            elif c == 1:
                pre = "F" + hx(b"BROKEN\n")
            elif c == 2:
                pre = "D"
            locs = []
            if rng.chance(1, 6):
                for _ in range(rng.range(1, 2)):
                    locs.append(rng.choice(["-", "-", "F" + hx(good), "F" + hx(b"NOPE\n")]))
            env = "n"
            c = rng.below(14)
            if c == 0:
                env = "c"
            elif c == 1:
                env = "t"
            elif c == 2:
                env = "m"
            elif c == 3:
                env = "w%d" % rng.below(600)
            drop = rng.below(16) if rng.chance(1, 4) else "-"
            add("random", case(mod, servers, pre=pre, locs=locs, env=env, drop=drop))
            if drop != "-":
                dist["drop"] += 1
        # ---- round 5, second pass (generated last: the cases above are what they were).  More server behaviours: chunked bodies
        # with chunk extensions and a trailer section; a Content-Length header that disagrees with the body (shorter: HTTP makes
        # the announced prefix THE body -- at a line end it parses; longer: the body never completes, nothing may be cached);
        # slow-loris delivery (head and body dribble in, the server sleeps between the pieces); redirect chains that lead to a
        # closed port or loop for ever (send() fails: next server).
        dist.update({"server_behaviours": 0, "cache_dir_failures": 0, "in_process_concurrent": 0})

        def sadd(servers, **kw):
            add("server_behaviours", case(0, servers, **kw))
        bad = join(lines[:5] + [b"GARBAGE"] + lines[5:])
        for rep in range(2 if not thorough else 8):
            b = base if rep == 0 else bg.body(df0)
            nb_ = len(b)
            les = [i + 1 for i, ch in enumerate(b) if ch == 10]
            if len(les) < 3:
                continue

            def o3():
                return ",".join(str(x) for x in sorted({rng.below(nb_) for _ in range(3)}))
            sadd([srv(framing="T", body=b)])
            sadd([srv(framing="T" + o3(), body=b)])
            sadd([srv(framing="T" + ",".join(map(str, les[:12])), body=b)])
            sadd([srv(framing="T" + o3(), cut="c%d" % rng.below(nb_), body=b), srv(framing="T", body=b)])
            sadd([srv(framing="T" + o3(), cut="r%d" % rng.choice(les[:-1]), body=b)])
            sadd([srv(framing="T" + o3(), cut="c%d" % rng.choice(les[:-1]), body=b)])
            sadd([srv(framing="T" + o3(), body=b)], drop=rng.below(16))
            sadd([srv(framing="T", body=bad), srv(framing="T" + o3(), body=b)])
            sadd([srv(500, framing="T", body=b"oops\n"), srv(framing="T" + o3(), body=b)])
            sadd([srv(framing="T" + o3(), body=b)], env=rng.choice(["t", "c", "w100"]))
            for d in sorted({0, 1, les[0], les[1], rng.choice(les), rng.choice(les), rng.below(nb_), nb_ - 1}):
                sadd([srv(framing="M%d" % d, body=b)])
                if rng.chance(1, 2):
                    sadd([srv(framing="M%d,%s" % (d, o3()), body=b), srv(body=b)])
            for d in (nb_ + 1, nb_ + 2, nb_ + 4096):
                sadd([srv(framing="M%d" % d, body=b)])
                sadd([srv(framing="M%d,%s" % (d, o3()), body=b), srv(framing="K" + o3(), body=b)])
            sadd([srv(framing="M%d" % rng.choice(les), body=b)], drop=rng.below(12))
            sadd([srv(framing="M%d" % (nb_ + 7), body=b)], drop=rng.below(12))
            sadd([srv(framing="M%d" % rng.choice(les), cut="c%d" % rng.below(nb_), body=b), srv(body=b)])
            slow = ",".join(str(x) for x in range(23, nb_, max(23, nb_ // 14)))
            sadd([srv(framing="S" + slow, body=b)])
            sadd([srv(framing="S", body=b)])
            sadd([srv(framing="S" + slow, cut="c%d" % rng.below(nb_), body=b), srv(framing="S" + slow, body=b)])
            sadd([srv(framing="S" + slow, cut="r%d" % rng.choice(les[:-1]), body=b)])
            sadd([srv(framing="S" + slow, body=bad), srv(body=b)])
            sadd([srv(404, framing="S", body=b"not here\n"), srv(framing="S" + slow, body=b)])
            for d in (rng.below(10), rng.below(40)):
                sadd([srv(framing="S" + slow, body=b)], drop=d)
            for code in ((302, 307) if not thorough else (301, 302, 303, 307, 308)):
                for hops in (["http://127.0.0.1:1/dead/" + rel_of(df0)], ["/hop1/x.sym", "http://127.0.0.1:1/gone.sym"], ["/a/LOOP"], ["/first", "/b/c/LOOP"]):
                    rd = (code, hops)
                    sadd([srv(body=b, redir=rd)])
                    sadd([srv(body=b, redir=rd), srv(framing="K" + o3(), body=b)])
                    if rng.chance(1, 3):
                        sadd([srv(body=b, redir=rd), srv(body=b, redir=(code, [mirror]))])
                    if rng.chance(1, 3):
                        sadd([srv(body=b, redir=rd), srv(body=b)], drop=rng.below(30))
                    if rng.chance(1, 4):
                        sadd([srv(body=b, redir=rd)], pre="F" + hx(other))
        # ---- the directory of the entry cannot be made (a regular file sits where <debug_file>/ or <debug_file>/<id>/ has
        # to be), or the cache root does not exist yet (create_dir_all makes every level): the lookup still answers from the
        # download; nothing is cached and no temp file is left in the first two cases
        for env in ("d", "i", "x"):
            for rep in range(2 if not thorough else 6):
                b = base if rep == 0 else bg.body(df0)
                nb_ = len(b)
                for fr in ("L", "K%d" % (nb_ // 2), "E", "T%d" % (nb_ // 3)):
                    add("cache_dir_failures", case(0, [srv(framing=fr, body=b)], env=env))
                add("cache_dir_failures", case(0, [srv(cut="c%d" % rng.below(nb_), body=b), srv(body=b)], env=env))
                add("cache_dir_failures", case(0, [srv(body=bad), srv(404), srv(framing="K7", body=b)], env=env))
                add("cache_dir_failures", case(0, [srv(body=bad)], env=env))
                add("cache_dir_failures", case(0, [srv(framing="L%d,%d" % (nb_ // 3, 2 * nb_ // 3), body=b)], env=env, drop=rng.below(14)))
                add("cache_dir_failures", case(0, [srv(body=b)], env=env, locs=["-", "F" + hx(b)]))
                add("cache_dir_failures", case(0, [srv(body=b, redir=(302, [mirror]))], env=env))
            add("cache_dir_failures", case(1, [srv(body=join(sym_lines(MODS[1][0])))], env=env))
            add("cache_dir_failures", case(2, [srv(body=join(sym_lines(MODS[2][0])))], env=env))
        # ---- one process, one Symbolizer, n concurrent lookups of the same module (`kS<n>`): the per-module slot in front of the
        # supplier (C12) makes it ONE supplier call, so everything the property says about a lookup holds for the n together:
        # one download at most, each server asked at most once, one entry, all n answers the same
        for rep in range(2 if not thorough else 6):
            b = base if rep == 0 else bg.body(df0)
            nb_ = len(b)
            for nconc in (2, 3, 7):
                def cadd(servers, **kw):
                    add("in_process_concurrent", "kS%d " % nconc + case(0, servers, **kw))
                cadd([srv(framing="L%d" % (nb_ // 2), body=b)])
                cadd([srv(framing="K%d,%d" % (nb_ // 3, 2 * nb_ // 3), body=b)])
                cadd([srv(404), srv(framing="E", body=b)])
                cadd([srv(cut="c%d" % rng.below(nb_), body=b), srv(framing="T", body=b)])
                cadd([srv(cut="r%d" % rng.below(nb_), body=b)])
                cadd([srv(body=bad), srv(500)])
                cadd([srv(cut="h"), srv(body=b, redir=(302, [mirror]))])
                cadd([srv(body=b)], pre="F" + hx(b + b"INFO URL http://elsewhere.example/x.sym\n"))
                cadd([srv(body=b)], pre="F" + hx(b"BROKEN\n"))
                cadd([srv(body=b)], env=rng.choice(["t", "c", "d", "w100"]))
                cadd([srv(body=b)], locs=["F" + hx(b)])
                cadd([srv(framing="L%d,%d" % (nb_ // 3, 2 * nb_ // 3), body=b)], drop=rng.below(20))
        # ... and n concurrent locate_file calls for one binary / debug file on ONE HttpSymbolSupplier (its own slot per
        # (module, kind) in front of the fetch closure): one run of the closure, n equal answers
        for kind in ("kB", "kD"):
            for nconc in ((2, 5) if not thorough else (2, 3, 5, 9)):
                def fadd(servers, **kw):
                    add("in_process_concurrent", "kS%d %s " % (nconc, kind) + case(0, servers, **kw))
                fadd([srv(framing="L300", body=blob)])
                fadd([srv(404), srv(framing="K100,500", body=blob)])
                fadd([srv(cut="c%d" % rng.below(nbl), body=blob), srv(framing="E", body=blob)])
                fadd([srv(cut="r%d" % rng.below(nbl), body=blob)])
                fadd([srv(500), srv(cut="h")])
                fadd([srv(body=blob)], pre="F" + hx(blob))
                fadd([srv(body=blob)], pre="D")
                fadd([srv(body=blob)], env=rng.choice(["t", "c", "w100"]))
                fadd([srv(framing="L200,600", body=blob)], drop=rng.below(16))
        # the runner shards the case list into contiguous ranges: spread the large bodies (5-200 KB: long lines, big
        # files) evenly over the list, otherwise one shard carries all of them and sets the wall time
        heavy = sorted((c for c in cases if len(c) > 12000), key=lambda c: (-len(c), c))
        light = [c for c in cases if len(c) <= 12000]
        groups = 16
        buckets = [[] for _ in range(groups)]
        for i, c in enumerate(heavy):          # largest first, dealt out in snake order
            r, k = divmod(i, groups)
            buckets[k if r % 2 == 0 else groups - 1 - k].append(c)
        out = []
        for j in range(groups):
            out += buckets[j] + light[j * len(light) // groups:(j + 1) * len(light) // groups]
        return out, dist, False

    # ------------------------------------------------------------------ canonical forms
    def canon_block(self, c, name, b):
        r = b.get("r", "?")
        if c.kind is not None:
            # locate_file: the answer is a path -- under a local directory (OK:L) or the cache path (OK:C; the oracle checks which)
            if r.startswith("OK:"):
                r = "OK:L" if r.startswith("OK:L") else "OK:C"
        elif r.startswith("OK:"):
            r = ":".join(r.split(":")[:4])
        parts = ["r=" + r]
        if "q" in b:
            q = b["q"]
            if q != "-":
                q = ",".join(e.split(":")[0] for e in q.split(",") if not e.split(":")[1].startswith("3e")) or "-"
            parts.append("q=" + q)
        cc = b.get("c", "?")
        if cc != "-":
            ents = cc.split(",")
            if len(ents) == 1 and c.rel is not None and unhx(ents[0].split(":")[0]).decode("utf-8", "replace") == c.rel:
                cc = ":".join(ents[0].split(":")[1:])
            elif len(ents) == 1 and c.kind is not None:
                cc = ":".join(ents[0].split(":")[1:])        # the path of a binary's entry is judged by oracle_file
        parts.append("c=" + cc)
        parts.append("t=" + b.get("t", "?"))
        if name in "AB":
            parts.append("d=" + b.get("d", "?"))
        return "%s{%s}" % (name, " ".join(parts))

    def canon_multi(self, c, ans):
        """S{cache/tmpcount ..}R{result/requests ..}F{cache/tmpcount}B{result/requests/cache/tmpcount}"""
        m = parse_multi(ans)
        if m is None:
            return "malformed"
        def cc(x):
            if x == "-":
                return "-"
            ents = x.split(",")
            if len(ents) == 1 and unhx(ents[0].split(":")[0]).decode("utf-8", "replace") == c.rel:
                return ":".join(ents[0].split(":")[1:])
            return x
        def tc(x):
            return "0" if x == "-" else str(len(x.split(",")))
        def rr(x):
            return ":".join(x.split(":")[:4]) if x.startswith("OK:") else x
        snaps = " ".join("%s/%s" % (cc(a), tc(b)) for a, b, _ in m["snaps"])
        res = " ".join("%s/%s" % (rr(r), q) for r, q in m["res"])
        return "S{%s}R{%s}F{%s/%s}B{%s/%s/%s/%s}" % (snaps, res, cc(m["F"]["c"]), tc(m["F"]["t"]), rr(m["B"]["r"]), m["B"]["q"], cc(m["B"]["c"]), tc(m["B"]["t"]))

    def oracle_multi(self, c, ans):
        """Shared cache, judged on the real code's directory snapshots alone.  Property text: a file is at the cache
        path only after a whole download was parsed; failed or abandoned downloads leave no entry and no temp file --
        so (1) every file ever seen is <complete 200 body of client i> + INFO URL <url i> with client i successful,
        (2) a step of a client whose download fails or is abandoned leaves the cache exactly as it was: an entry
        committed by another client survives, (3) never more temp files than downloads in flight, none at the end,
        (4) a later lookup without network returns what the entry's owner returned."""
        m = parse_multi(ans)
        if m is None:
            return "malformed answer"
        nc = len(c.servers)
        res = m["res"]
        if len(res) != nc or len(m["snaps"]) != len(c.sched) + 1:
            return "malformed answer (clients/snapshots)"
        committed = {}
        for i in range(nc):
            sv = c.served(i)
            if sv is not None:
                sep = b"" if (not sv or sv.endswith(b"\n")) else b"\n"
                committed[sig(sv + sep + b"INFO URL " + c.url(i) + b"\n")] = i
        foreign = {sig(unhx(c.pre[1:]))} if c.pre.startswith("F") else set()
        def entry(tree, where):
            """-> (error, sig or None)"""
            if tree == "-":
                return None, None
            files = tree.split(",")
            if len(files) > 1:
                return "more than one file in the shared cache %s" % where, None
            relhex, ln, crc = files[0].split(":")
            if unhx(relhex).decode("utf-8", "replace") != c.rel:
                return "file at an unexpected cache path %s" % where, None
            s = "%s:%s" % (ln, crc)
            if s in foreign:
                return None, s
            if s not in committed:
                return "shared cache entry (len %s) %s is not <complete 200 body> + INFO URL record of any client (partial, corrupt or wrongly annotated file visible to the other clients)" % (ln, where), None
            i = committed[s]
            r, q = res[i]
            if not r.startswith("OK:") or q != "1":
                return "shared cache entry %s belongs to client %d whose lookup did not succeed by download (%s)" % (where, i, r[:40]), None
            if r.split(":")[3] == "N" or unhx(r.split(":")[3]) != c.url(i):
                return "shared cache entry %s annotated with a URL other than the one its downloader reports" % where, None
            return None, s
        for i, (r, q) in enumerate(res):
            if r in ("HUNG", "P", "NOTSTARTED") or q not in ("0", "1"):
                return "client %d: %s with %s requests" % (i, r, q)
            if r.startswith("OK:") and q == "1" and c.served(i) is None:
                return "client %d succeeded from a response that was not a complete 200 body" % i
        trees = [("after the clients started", m["snaps"][0])] + [("after step %d (%d%s)" % (k, *c.sched[k]), m["snaps"][k + 1]) for k in range(len(c.sched))]
        prev = None
        had = None
        for k, (where, (tree, tmp, mask)) in enumerate(trees):
            err, s = entry(tree, where)
            if err:
                return err
            inflight = nc - bin(int(mask)).count("1")
            ntmp = 0 if tmp == "-" else len(tmp.split(","))
            if ntmp > inflight:
                return "%d temp file(s) in the shared tmp directory %s with only %d download(s) in flight (stray temp file)" % (ntmp, where, inflight)
            if k > 0:
                i, op = c.sched[k - 1]
                r, q = res[i]
                downloaded = r.startswith("OK:") and q == "1"
                if tree != prev and not downloaded:
                    return ("the shared cache changed %s although client %d's download failed / was abandoned / never happened (%s): %s -> %s"
                            % (where, i, r[:20], ":".join(prev.split(":")[1:]) or "-", ":".join(tree.split(":")[1:]) or "-"))
                if tree != prev and downloaded and (s is None or committed.get(s) != i):
                    return "client %d's successful download replaced the shared entry by something that is not its own complete file %s" % (i, where)
            if had is not None and tree == "-":
                return "a complete entry was in the shared cache %s and is gone %s" % (had, where)
            if tree != "-" and had is None:
                had = where
            prev = tree
        F, B = m["F"], m["B"]
        if F["t"] != "-" or B["t"] != "-":
            return "stray file(s) in the shared tmp directory after every client finished: sizes %s" % (F["t"] if F["t"] != "-" else B["t"])
        err, s = entry(F["c"], "after all clients finished")
        if err:
            return err
        if had is not None and F["c"] == "-":
            return "a complete entry was in the shared cache %s and is gone after all clients finished" % had
        if B["c"] != F["c"]:
            return "a lookup with all servers answering 404 changed the shared cache"
        if s is not None and s in committed:
            owner = res[committed[s]][0]
            if B["r"] != owner:
                return "lookup served from the shared cache differs from what the entry's downloader got: %s vs %s" % (B["r"][:120], owner[:120])
            if B["q"] != "0":
                return "lookup used the network although the entry is in the shared cache"
            for i, (r, q) in enumerate(res):
                if q == "0" and r.startswith("OK:") and not foreign:
                    # cache hit of a late starter: some downloader's table and URL
                    if not any(r == res[j][0] for j in committed.values()):
                        return "client %d was served from the shared cache but got a table/URL that no downloader produced" % i
        return None

    def canon_impl(self, case, ans, profile):
        if ans.startswith("P;;"):
            return "P;;"
        c = Case(case)
        if c.multi:
            return self.canon_multi(c, ans)
        bl = parse_blocks(ans)
        blk = c.blocker()
        if blk:
            for b in bl.values():
                ents = [e for e in ([] if b.get("c", "-") == "-" else b["c"].split(",")) if e != blk]
                b["c"] = ",".join(ents) or "-"
        return "".join(self.canon_block(c, k, bl[k]) for k in "ABXY" if k in bl)

    def canon_model(self, case, ans):
        return None if ans == "?" else ans

    # ------------------------------------------------------------------ oracle (independent of the model)
    def oracle(self, case, ans, profile):
        if ans.startswith("P;;"):
            return "panic: " + ans[3:200]
        c = Case(case)
        if c.multi:
            return self.oracle_multi(c, ans)
        bl = parse_blocks(ans)
        if "A" not in bl or "B" not in bl or (c.drop != "-" and ("X" not in bl or "Y" not in bl)):
            return "malformed answer"
        blk = c.blocker()
        if blk:
            # the planted file must still be there, untouched, in every block
            for name, b in bl.items():
                ents = [] if b.get("c", "-") == "-" else b["c"].split(",")
                if blk not in ents:
                    return "the regular file planted in the cache tree (env %s) was removed or changed (block %s: %s)" % (c.env, name, b.get("c"))
                ents.remove(blk)
                b["c"] = ",".join(ents) or "-"
        if c.conc and c.kind is None:
            # one process, one Symbolizer, n concurrent lookups of ONE module: the supplier is asked exactly once
            # (so: one download at most, every server asked at most once -- checked below on the request log),
            # and every lookup gets the same answer
            k = bl["A"].get("k")
            if k is None or ":" not in k:
                return "malformed answer (no k= field of a kS case)"
            ncalls, rs = k.split(":")
            if ncalls != "1":
                return "%d concurrent lookups of one module on one Symbolizer called the supplier %s times" % (c.conc, ncalls)
            want = ("k" if bl["A"]["r"].startswith("OK:") else "e") * c.conc
            if rs != want:
                return "concurrent lookups of one module got different answers: %s (supplier result %s)" % (rs, bl["A"]["r"][:40])
        if c.kind is not None:
            if c.conc:
                # n concurrent locate_file calls on one supplier: one run of the fetch closure -- every server asked at most
                # once, in order -- and n equal answers
                k = bl["A"].get("k", "")
                if not k.startswith("1:") or set(k[2:]) != {"k"} or len(k[2:]) != c.conc:
                    return "%d concurrent locate_file calls on one supplier did not all get the same answer (k=%s)" % (c.conc, k)
                q = bl["A"].get("q", "-")
                idx = [] if q == "-" else [int(e.split(":")[0]) for e in q.split(",")]
                if idx != sorted(set(idx)):
                    return "%d concurrent locate_file calls of one file: servers not queried in order, or one queried twice: %s" % (c.conc, idx)
            return self.oracle_file(c, bl)
        if c.nodebug and not c.redirected:
            for name, b in bl.items():
                if b.get("t") != "-" or b.get("c") != "-" or b["r"].startswith("OK"):
                    return "module without debug file/id and no redirect: nothing can be looked up, yet block %s is %s" % (name, b)
            return None
        # the note names the source URL; the property does not say whether that is the URL asked for or the one a
        # redirect chain ended at -- it says the cache hit reports the SAME URL as the download did.  Both forms
        # are accepted as content, and the URL in the entry must be the one the download reported.
        committed = {}
        for i in range(len(c.servers)):
            sv = c.served(i)
            if sv is not None:
                sep = b"" if (not sv or sv.endswith(b"\n")) else b"\n"
                for eu in (c.final_url(i), c.url(i)):
                    committed[sig(sv + sep + b"INFO URL " + eu + b"\n")] = (i, eu)
        foreign = set()
        if c.pre.startswith("F"):
            foreign.add(sig(unhx(c.pre[1:])))
        for s in c.servers:
            if s["race"] is not None:
                foreign.add(sig(s["race"]))
        for name in "ABXY":
            if name not in bl:
                continue
            b = bl[name]
            if b.get("t") != "-":
                return "stray file(s) in the tmp directory after block %s: sizes %s" % (name, b.get("t"))
            files = [] if b["c"] == "-" else b["c"].split(",")
            for f in files:
                relhex, ln, crc = f.split(":")
                rel = unhx(relhex).decode("utf-8", "replace")
                if rel != c.rel:
                    return "file at an unexpected cache path %r (block %s)" % (rel, name)
                s = "%s:%s" % (ln, crc)
                if s in foreign:
                    continue
                if s not in committed:
                    return ("cache entry (len %s) in block %s is not <complete 200 body> + INFO URL record of any server "
                            "(partial, corrupt or wrongly annotated file cached)" % (ln, name))
                i, eu = committed[s]
                if name == "X":
                    return "cache entry created although the lookup was dropped"
                first = bl["A"] if name in "AB" else bl["X"]
                if name in "AB" and not first["r"].startswith("OK:"):
                    return "cache entry created by a lookup that did not succeed (%s)" % first["r"]
                if name in "AB" and first["r"].startswith("OK:") and first.get("q", "-") != "-" and not (c.nodebug and name == "B"):
                    url = unhx(first["r"].split(":")[3]) if first["r"].split(":")[3] != "N" else None
                    if url != eu:
                        return "cache entry annotated with a URL other than the one the lookup reports (entry: %r, lookup: %r)" % (eu[-60:], (url or b"none")[-60:])
            if b.get("q", "-") != "-":
                idx = []
                hop = {}
                for e in b["q"].split(","):
                    i, t = e.split(":")
                    if t.startswith("3e"):
                        # follow-up request of a redirect chain: right after a request to the same server, hops in order
                        i = int(i)
                        want = c.hop_targets(i)
                        k = hop.get(i, 0)
                        tgt = unhx(t[2:]).decode("utf-8", "replace")
                        if idx and idx[-1] == i and k >= 1 and k <= len(want) and want[k - 1].endswith("LOOP") and tgt == want[k - 1]:
                            continue        # a location that redirects to itself: asked again until the client gives up
                        if not idx or idx[-1] != i or k >= len(want) or tgt != want[k]:
                            return "unexpected follow-up request %r to server %d" % (unhx(t), i)
                        hop[i] = k + 1
                        continue
                    if c.nodebug and "?" not in unhx(t).decode("utf-8", "replace"):
                        if idx:
                            return "code-info lookup after a symbol download was already attempted"
                        continue
                    idx.append(int(i))
                    if unhx(t).decode("utf-8", "replace") != c.target:
                        return "request target %r differs from the expected %r" % (unhx(t), c.target)
                if idx != sorted(set(idx)):
                    return "servers not queried in order, or one queried twice: %s" % idx
        # re-hit: a lookup served from the cache gives the same table and URL, without network access
        for first, second in (("A", "B"), ("X", "Y")):
            if first not in bl:
                continue
            fa, fb = bl[first], bl[second]
            files = [] if fa["c"] == "-" else fa["c"].split(",")
            ours = [f for f in files if ":".join(f.split(":")[1:]) in committed]
            if fa["r"].startswith("OK:") and (ours or fa.get("q") == "-"):
                if fb["r"] != fa["r"]:
                    return "lookup served from the cache differs from the original: %s vs %s" % (fb["r"][:200], fa["r"][:200])
                if fb.get("q") != "-" and not c.nodebug:
                    return "second lookup used the network although the entry is cached"
                if c.nodebug and any("3f" in e.split(":")[1] for e in fb.get("q", "-").split(",") if ":" in e):
                    return "second lookup downloaded again although the entry is cached"
            if fa["c"] != fb["c"]:
                return "second lookup (all servers 404) changed the cache: %s -> %s" % (fa["c"][:120], fb["c"][:120])
        if bl["A"]["r"].startswith("OK:") and any((not c.nodebug) or "3f" in e.split(":")[1] for e in bl["A"].get("q", "-").split(",") if ":" in e):
            # a download succeeded: the reported URL is the one of the last server queried
            last = int([e for e in bl["A"]["q"].split(",") if not c.nodebug or "3f" in e.split(":")[1]][-1].split(":")[0])
            u = bl["A"]["r"].split(":")[3]
            if u == "N" or unhx(u) not in (c.url(last), c.final_url(last)):
                return "downloaded symbol file does not report the URL it came from"
            if c.served(last) is None:
                return "lookup succeeded from a response that was not a complete 200 body"
        return None

    def extra(self, ctx):
        """coverage guard: the drop cases must really hit the window in which the temp file exists"""
        out = []
        for prof, answers in ctx["impl"].items():
            drops = sum(1 for a in answers if a and "X{" in a)
            inflight = sum(1 for a in answers if a and re.search(r"inflight=[1-9]", a))
            ctx["info"]["drops_" + prof] = drops
            ctx["info"]["drops_with_temp_file_in_flight_" + prof] = inflight
            followups = sum(1 for a in answers if a and re.search(r"q=[^ }]*:3e", a))
            ctx["info"]["lookups_with_redirect_followup_" + prof] = followups
            if not ctx["replay"] and len(answers) > 1000 and followups == 0:
                out.append({"case": None, "profile": prof, "found_input": False,
                            "what": "no lookup logged a follow-up request of a redirect chain: the redirect cases no longer exercise redirects"})
            if not ctx["replay"] and drops >= 50 and inflight == 0:
                out.append({"case": None, "profile": prof, "found_input": False,
                            "what": "none of %d dropped lookups was dropped while its temp file existed: the drop cases no longer exercise the RAII window" % drops})
        return out

    def oracle_file(self, c, bl):
        """locate_file (binaries, extra debug info): fetch_lookup shares create_cache_file / NamedTempFile /
        persist_noclobber with the symbol path but neither parses nor annotates: an entry is exactly a
        complete 200 body, appears only with a successful lookup that returns its path, never after a drop;
        tmp stays empty; a second lookup without network returns the same path."""
        complete = {}
        for i in range(len(c.servers)):
            sv = c.served(i)
            if sv is not None:
                complete[sig(sv)] = i
        foreign = set()
        if c.pre.startswith("F"):
            foreign.add(sig(unhx(c.pre[1:])))
        for s_ in c.servers:
            if s_["race"] is not None:
                foreign.add(sig(s_["race"]))
        for name in "ABXY":
            if name not in bl:
                continue
            b = bl[name]
            if b.get("t") != "-":
                return "locate_file: stray file(s) in the tmp directory after block %s: sizes %s" % (name, b.get("t"))
            files = [] if b["c"] == "-" else b["c"].split(",")
            if len(files) > 1:
                return "locate_file: more than one cache entry"
            for f in files:
                relhex, ln, crc = f.split(":")
                s2 = "%s:%s" % (ln, crc)
                if s2 in foreign:
                    continue
                if s2 not in complete:
                    return "locate_file: cache entry (len %s) in block %s is not the complete body of any 200 response (partial file cached)" % (ln, name)
                if name in "XY" and bl["X"]["c"] != "-":
                    return "locate_file: cache entry created although the lookup was dropped"
                if name in "AB":
                    if not bl["A"]["r"].startswith("OK:"):
                        return "locate_file: cache entry created by a lookup that did not succeed"
                    if bl["A"]["r"] != "OK:" + relhex:
                        return "locate_file: returned path differs from the entry's path"
        for first, second in (("A", "B"), ("X", "Y")):
            if first not in bl:
                continue
            fa, fb = bl[first], bl[second]
            if fa["c"] != fb["c"]:
                return "locate_file: second lookup (all servers 404) changed the cache"
            if fa["r"].startswith("OK:") and fa["c"] != "-" and (fb["r"] != fa["r"] or fb.get("q") != "-"):
                return "locate_file: lookup served from the cache differs from the original or used the network: %s vs %s" % (fb["r"], fa["r"])
            if fa["r"].startswith("OK:") and fa["c"] == "-" and not fa["r"].startswith("OK:L"):
                return "locate_file: reports a cache path that does not exist"
        return None

    def nontrivial(self, case, ans):
        if ans.startswith("S{"):
            return bool(re.search(r"F\{c=[0-9a-f]", ans))
        return ("DROPPED" in ans) or bool(re.search(r"c=[0-9a-f]", ans))


PROP = C16()
