"""C08 — address lookups over untrusted range tables are sound and complete."""
import itertools

from runner import PropBase
from vlib import Rng

U64 = (1 << 64) - 1
# kind -> (model kind, size limit, description)
KINDS = {
    0: (0, U64, "generic IntoRangeMapSafe<u32>"),
    1: (1, 0xFFFFFFFF, "MinidumpModuleList"),
    11: (1, U64, "MinidumpMemoryList"),
    12: (1, U64, "MinidumpMemoryInfoList"),
    2: (2, U64, "MinidumpLinuxMaps"),
    3: (3, 0xFFFFFFFF, "MinidumpUnloadedModuleList"),
    4: (4, 0xFFFFFFFF, "FUNC records"),
    41: (4, 0xFFFFFFFF, "STACK CFI INIT records"),
    5: (5, 0xFFFFFFFF, "line records"),
    13: (1, U64, "MinidumpMemory64List"),
    14: (1, U64, "UnifiedMemoryList::Memory"),
    15: (1, U64, "UnifiedMemoryList::Memory64"),
    16: (1, U64, "UnifiedMemoryInfoList::Info"),
    17: (2, U64, "UnifiedMemoryInfoList::Maps"),
    18: (1, 0xFFFFFFFF, "MinidumpModuleList::read (stream bytes: read-time filter + from_modules)"),
    42: (7, 0xFFFFFFFF, "STACK WIN frame-data table (insert_win_stack_info + parser-local builder)"),
    43: (7, 0xFFFFFFFF, "STACK WIN FPO table (insert_win_stack_info + parser-local builder)"),
}


def entry_range(kind, b, s):
    mk = KINDS[kind][0]
    if mk == 2:
        return None if b > s else (b, s)
    if mk == 5:
        if s == 0 or b + s - 1 > U64:
            return None
        return (b, b + s - 1)
    if s == 0 or b + s > U64:
        return None
    return (b, b + s - 1)


def parse_case(line):
    t = line.split()
    kind, n = int(t[0]), int(t[1])
    ents = [(int(t[2 + 3 * i]), int(t[3 + 3 * i]), int(t[4 + 3 * i])) for i in range(n)]
    m = int(t[2 + 3 * n])
    qs = [int(x) for x in t[3 + 3 * n: 3 + 3 * n + m]]
    return kind, ents, qs


def fmt_case(kind, ents, qs):
    return "%d %d %s %d %s" % (kind, len(ents), " ".join("%d %d %d" % e for e in ents), len(qs), " ".join(map(str, qs)))


class C08(PropBase):
    pid = "C08"
    coq_dirs = ["Base", "Gen", "C08"]
    bins = ["c08"]
    translators = ["c08_tables.py"]
    rule = ("cases = (table kind of 17, list of (base,size,tag), query addresses); exhaustive over base 0..4 x size 0..2 x tag 0..1 "
            "lists up to the tier's length, replayed at the top of the address space, plus random u64 lists with a boundary pool; "
            "a case is non-trivial when the built table is non-empty and at least one entry was dropped, merged or rejected, "
            "or the table has >= 2 ranges; distinct = distinct case lines")
    trusted_base = [
        "Coq 8.16.1 kernel (vm_compute used only in the non-vacuity Examples)",
        "model C08/Model.v, C08/WinModel.v written by hand from traits.rs / parser.rs / range-map 0.2.0 / minidump.rs; tied to the code by "
        "(a) translate/c08_tables.py, which regenerates every memory_range(), both into_rangemap_safe copies, insert_win_stack_info, the "
        "line-record ranges, the module-list read filter and the index-valued builders from the source (Gen/C08Tables.v; statement structure "
        "pinned literally, guards/operands/constants/operators translated) with C08/Tie.v proving them equal to the model, and (b) the correspondence run",
        "the translator's reading of Rust syntax (regex templates over comment-stripped function bodies) and the harness's encoding of entries into "
        "each builder's input (stream bytes, maps text, symbol-file text)",
        "extraction: ExtrOcamlBasic only; ocaml/zconv.ml + ocaml/c08/main.ml glue; harness/src/bin/c08.rs",
        "std slice::binary_search_by modelled as the Rust >= 1.82 halving loop; sort_by_key modelled as a stable sort; range-map 0.2.0 "
        "(Range::new assertion, try_from_iter/normalize, get, Range::contains/intersects) modelled by hand from its source",
    ]
    manifest = {
        "text": "Theorems (Coq, all finite entry lists over u64, any value type, both build profiles where arithmetic can trap): building never "
                "reaches the unwrap (c08_build_total, _parser), output sorted/disjoint, lookup sound, isolated entries complete, the real binary "
                "search equals a linear scan (traits, parser and STACK WIN tables), unloaded-module lookup exact; index-valued tables: a lookup's or "
                "by_addr's index is in bounds of the stored vector and names the entry whose own range it is filed under "
                "(c08_indexed_table_exact, c08_indexed_lookup_in_bounds, c08_indexed_isolated_complete); STACK WIN frame-data/FPO tables "
                "(insert_win_stack_info for every record, then the parser-local builder): never fail (subtraction, the unwrap after the repair, "
                "the final unwrap), profile independent, sorted/disjoint with every entry filed under its own record's range, a lookup returns a "
                "possibly shortened record of the file whose range contains the address, an isolated record is returned as written "
                "(c08_win_*). The same statements hold for the definitions REGENERATED from the Rust source on every run (c08_gen_*: all eight "
                "memory_range() constructors and the line-record ranges never trap and equal the model's, both merge loops, insert_win_stack_info, "
                "the index-valued builders, the module-list read filter), and end to end in plain arithmetic from the raw u64 (base,size) fields through "
                "the generated memory_range() and builder (c08_end_to_end_size_based/_maps/_unloaded/_records/_lines: build succeeds, sorted, a returned index is in bounds with "
                "base <= x < base+size and no overflow, isolated entries found, the unloaded lookup returns exactly the covering entries). The model is also run against the code on exhaustive small lists (both "
                "ends of the address space) and random u64 lists for 17 table kinds (incl. Memory64, Unified* views, MinidumpModuleList::read from "
                "stream bytes, STACK WIN tables) in debug and release builds; an independent oracle re-checks the property on the implementation's answers.",
        "note": "Trusted: Coq kernel; the translator's templates and the hand-written model of range-map 0.2.0 / std sort and binary search "
                "(correspondence-checked, not verified); ExtrOcamlBasic extraction + OCaml/Rust glue. No axioms.",
    }
    assumptions = ["procfs maps-line parsing, scroll's Pread and MinidumpModule::read's name/CodeView parsing are exercised, not modelled",
                   "MinidumpUnloadedModuleList::read rejects the whole stream (Err, no panic) on one bad module: not covered, only from_modules is",
                   "UnifiedMemoryList / UnifiedMemoryInfoList views are pinned as plain forwards by the translator and compared, not separately modelled"]

    def model_kind_line(self, line):
        kind, rest = line.split(" ", 1)
        return "%d %s" % (KINDS[int(kind)][0], rest)

    def model_cmd(self, exe):
        return [exe]

    # the model driver understands model kinds only: translate on the fly
    def canon_model(self, case, ans):
        return None if ans == "?" else ans

    def canon_impl(self, case, ans, profile):
        return ans if not ans.startswith("P;;") else "P;;"

    def gen_cases(self, tier, seed):
        rng = Rng(seed)
        cases = []
        dist = {"exhaustive_lists": 0, "random_lists": 0, "by_kind": {}}
        small = [(b, s, v) for b in range(5) for s in range(3) for v in range(2)]
        TOP = (1 << 64) - 6

        def add(kind, ents, qs):
            cases.append(fmt_case(kind, ents, qs))
            dist["by_kind"][str(kind)] = dist["by_kind"].get(str(kind), 0) + 1

        maxlen = {0: 3, 1: 3, 42: 3} if tier == "quick" else {0: 4, 1: 3, 11: 3, 3: 3, 4: 3, 13: 3, 42: 3, 43: 3}
        low_q = list(range(0, 8))
        top_q = [0, 1] + [TOP + i for i in range(-1, 6)]
        for kind in KINDS:
            L = maxlen.get(kind, 2)
            for n in range(0, L + 1):
                for combo in itertools.product(small, repeat=n):
                    if kind == 2:
                        ents = [(b, b + s - 1 if (b + s) > 0 else 0, v) if not (s == 0) else (b + 1, b, v) for (b, s, v) in combo]
                        if any(e[0] == 0 and e[1] < 0 for e in ents):
                            continue
                        add(kind, ents, low_q)
                        ents2 = [(min(U64, TOP + lo), min(U64, TOP + hi), v) for (lo, hi, v) in ents]
                        add(kind, ents2, top_q)
                    else:
                        add(kind, list(combo), low_q)
                        add(kind, [(TOP + b, s, v) for (b, s, v) in combo], top_q)
                    dist["exhaustive_lists"] += 1
        pool = [0, 1, 2, (1 << 32) - 1, 1 << 32, 1 << 63, U64 - 1, U64, 4096, 8192]
        nrand = 3000 if tier == "quick" else 40000
        for _ in range(nrand):
            kind = rng.choice(list(KINDS))
            lim = KINDS[kind][1]
            n = rng.range(0, 64) if rng.chance(1, 4) else rng.range(0, 8)
            ents = []
            style = rng.below(4)
            for i in range(n):
                if style == 0:      # boundary pool
                    b = rng.choice(pool)
                    s = rng.choice(pool + [U64 - b, U64 - b + 1, (1 << 64) - b if b else 1])
                elif style == 1:    # dense small addresses: many overlaps / adjacency
                    b = rng.below(64)
                    s = rng.below(12)
                elif style == 2:    # near top
                    b = U64 - rng.below(40)
                    s = rng.below(48)
                else:               # nested / identical
                    if ents and rng.chance(1, 2):
                        pb, ps, _ = rng.choice(ents)
                        b = pb + rng.below(3)
                        s = max(0, ps - rng.below(3))
                    else:
                        b = rng.below(1 << 20)
                        s = rng.below(1 << 12)
                b = max(0, min(b, U64))
                if KINDS[kind][0] == 2:
                    hi = max(0, min(U64, b + s - 1 if s else b - 1 if b else 0))
                    ents.append((b, hi, rng.below(3)))
                else:
                    ents.append((b, max(0, min(s, lim)), rng.below(3)))
            qs = set()
            for (b, s, _) in ents:
                r = entry_range(kind, b, s)
                if r:
                    for q in (r[0] - 1, r[0], r[1], r[1] + 1):
                        if 0 <= q <= U64:
                            qs.add(q)
            qs = sorted(qs)[:80] + [rng.below(1 << 64) for _ in range(3)]
            add(kind, ents, qs)
            dist["random_lists"] += 1
        return cases, dist, True

    # ----- the model driver takes model kinds; feed translated lines
    def to_model_lines(self, cases):
        return [self.model_kind_line(c) for c in cases]

    # ----- property oracle on the implementation's own answer
    def oracle(self, case, ans, profile):
        kind, ents, qs = parse_case(case)
        if ans.startswith("P;;"):
            return "building or querying the table panicked: " + ans[3:200]
        parts = ans.split(";")
        if len(parts) != 3 or parts[0] != "OK":
            return "unparseable answer " + ans[:100]
        table = []
        if parts[1]:
            for e in parts[1].split(","):
                r, tag = e.rsplit(":", 1)
                s, e2 = r.split("-")
                table.append((int(s), int(e2), tag))
        ranges = [entry_range(kind, b, s) for (b, s, _) in ents]
        mk = KINDS[kind][0]
        if mk == 7:
            return self.oracle_win(ents, ranges, qs, table, parts[2])
        tags = [str(i) if mk in (1, 2, 3) else str(v) for i, (_, _, v) in enumerate(ents)]
        if mk != 3:
            for a, b in zip(table, table[1:]):
                if not (a[0] <= a[1] < b[0] <= b[1]):
                    return "iteration by address not sorted/non-overlapping: %s then %s" % (a, b)
        else:
            for a, b in zip(table, table[1:]):
                if (a[0], a[1]) > (b[0], b[1]):
                    return "unloaded table not sorted: %s then %s" % (a, b)
        gets = parts[2].split("|") if parts[2] else []
        if len(gets) != len(qs):
            return "answer count mismatch"
        for q, g in zip(qs, gets):
            got = [] if g == "-" else g.split("+")
            covering = [i for i, r in enumerate(ranges) if r and r[0] <= q <= r[1]]
            if mk == 3:
                want = sorted(covering, key=lambda i: (ranges[i], i))
                if got != [tags[i] for i in want]:
                    return "unloaded lookup at %d returned %s, entries covering it are %s" % (q, got, want)
                continue
            if got:
                if not any(tags[i] == got[0] for i in covering):
                    return "lookup at %d returned %s whose own range does not contain it" % (q, got[0])
            for i in covering:
                r = ranges[i]
                isolated = all(j == i or rj is None or rj[1] < r[0] or r[1] < rj[0] for j, rj in enumerate(ranges))
                if isolated and got != [tags[i]]:
                    return "entry %d intersects no other entry but lookup at %d returned %s" % (i, q, got or None)
        return None

    def oracle_win(self, ents, ranges, qs, table, gets_s):
        """STACK WIN tables: the parser may shorten a record that the next one overlaps; a lookup must still name a
        record of the file (same address and tag) whose possibly shortened range contains the address."""
        def split(tag):
            v, rest = tag.split("@")
            a, sz = rest.split("+")
            return int(v), int(a), int(sz)
        for a, b in zip(table, table[1:]):
            if not (a[0] <= a[1] < b[0] <= b[1]):
                return "iteration by address not sorted/non-overlapping: %s then %s" % (a, b)
        for (st, en, tag) in table:
            v, a, sz = split(tag)
            if not (st == a and en == a + sz - 1):
                return "table range %d-%d does not match its record %s" % (st, en, tag)
        gets = gets_s.split("|") if gets_s else []
        if len(gets) != len(qs):
            return "answer count mismatch"
        for q, g in zip(qs, gets):
            if g != "-":
                v, a, sz = split(g)
                if not (a <= q <= a + sz - 1):
                    return "lookup at %d returned record %s whose range does not contain it" % (q, g)
                if not any(b == a and v0 == v and s0 >= sz for (b, s0, v0) in ents):
                    return "lookup at %d returned %s which is not a (possibly shortened) record of the file" % (q, g)
            for i, r in enumerate(ranges):
                if r and r[0] <= q <= r[1] and all(j == i or rj is None or rj[1] < r[0] or r[1] < rj[0] for j, rj in enumerate(ranges)):
                    want = "%d@%d+%d" % (ents[i][2], ents[i][0], ents[i][1])
                    if g != want:
                        return "record %d intersects no other record but lookup at %d returned %s" % (i, q, g)
        return None

    def nontrivial(self, case, ans):
        parts = ans.split(";")
        if len(parts) != 3 or not parts[1]:
            return False
        n = int(case.split()[1])
        k = parts[1].count(",") + 1
        return k >= 2 or k != n


PROP = C08()
