"""C18 — register access by name is consistent for every CPU context."""
import json
import os

import vlib
from runner import PropBase
from vlib import Rng

KEYS = ["mz", "st", "ga", "gA", "gr", "iv", "ch", "sp", "ip", "spn", "ipn", "rn", "vn", "cr", "cv", "sz", "fm", "mg", "mga", "g0", "sp0", "ip0", "sa", "ia", "ev", "mf"]
# the documented aliases and special registers, written out independently of the code's tables
DOC_ALIASES = {v: {} for v in ("X86", "Amd64", "Ppc", "Ppc64", "Mips")}
DOC_ALIASES["Arm"] = {"r11": "fp", "r13": "sp", "r14": "lr", "r15": "pc"}
DOC_ALIASES["Arm64"] = {"x29": "fp", "x30": "lr"}
DOC_ALIASES["OldArm64"] = {"x29": "fp", "x30": "lr"}
DOC_ALIASES["Sparc"] = {"%s%d" % (k, i): "g_r%d" % (b + i) for k, b in (("g", 0), ("o", 8), ("l", 16), ("i", 24)) for i in range(8)}
DOC_SP_IP = {"X86": ("esp", "eip"), "Amd64": ("rsp", "rip"), "Arm": ("sp", "pc"), "Arm64": ("sp", "pc"), "OldArm64": ("sp", "pc"),
             "Ppc": ("r1", "srr0"), "Ppc64": ("r1", "srr0"), "Sparc": ("g_r14", "pc"), "Mips": ("sp", "pc")}
_X = ["x%d" % i for i in range(29)] + ["fp", "lr", "sp", "pc"]
_PPC = ["srr0", "srr1"] + ["r%d" % i for i in range(32)] + ["cr", "xer", "lr", "ctr"]
DOC_REGISTERS = {
    "Amd64": "rax rdx rcx rbx rsi rdi rbp rsp r8 r9 r10 r11 r12 r13 r14 r15 rip".split(),
    "Arm": "r0 r1 r2 r3 r4 r5 r6 r7 r8 r9 r10 r12 fp sp lr pc".split(),
    "Arm64": _X, "OldArm64": _X,
    "Mips": "gp sp fp ra pc s0 s1 s2 s3 s4 s5 s6 s7".split(),
    "Ppc": _PPC + ["mq", "vrsave"], "Ppc64": _PPC + ["vrsave"],
    "Sparc": ["g_r%d" % i for i in range(32)] + "ccr pc npc y asi fprs".split(),
    "X86": "eip esp ebp ebx esi edi eax ecx edx eflags".split(),
}
UNKNOWN = ["-", "foo", "$eip", "RAX", "Rsp", "x31", "r32", "g_r32", "g8", "pc.", "cpsr", "EIP", "zz"]


_NT = {}


def names_table():
    """written by translate/context_tables.py at the start of every run"""
    if "t" not in _NT:
        _NT["t"] = json.load(open(os.path.join(vlib.COQ, "Gen", "context_names.json")))
    return _NT["t"]


def parse(ans):
    parts = ans.split("|")
    d = {}
    for kv in parts[0].split(";"):
        k, _, v = kv.partition("=")
        d[k] = v
    for kv in parts[1:]:
        k, _, v = kv.partition("=")
        d[k] = v
    return d


def canon_of(t, n):
    return t["aliases"].get(n, n)


def lst(s):
    return s.split(",") if s else []


class C18(PropBase):
    pid = "C18"
    translators = ["context_tables.py"]
    coq_dirs = ["Base", "C18", "Gen"]
    bins = ["c18"]
    rule = ("cases = (context type, register name, validity, value[, context_flags[, fill word]]): all 9 types x every name and alias the "
            "translator found in the get/set/memoize/validity tables (exhaustive) x validity {All, Some(empty), Some(full REGISTERS), Some({m}) "
            "for every name/alias m of the type, the validity-set family} x values {0, 1, all-ones, random, 2^31/2^32/2^63 boundaries}; "
            "context_flags patterns; fill mode: every 32-bit word of the base context = one of {0, all-ones, each single bit, all-ones-but-one-bit, "
            "mixed} so that every field a method could consult takes every bit pattern, crossed with odd/even/boundary values written through "
            "every spelling of the sp / ip registers; unknown names (empty, foreign-architecture names, ASCII-case variants of every own name, "
            "decorated); read cases `R arch fill len` = MinidumpContext::read for every ProcessorArchitecture number of format.rs plus unknown "
            "numbers x context_flags {every ContextFlagsCpu constant, own | low bits / XSTATE / undefined bits / a second CPU bit, 0, all-ones} "
            "x buffer lengths around every context struct's size, little- and big-endian; decode cases `D arch off width flags L|B` = read of the "
            "8 KiB byte pattern (every word distinct) with the flags at the type's offset, every register reported; write sequences `W type n1=v1,...` = every name once (both orders), "
            "alias / canonical / alias triples for every alias, random sequences of 2-14 calls incl. refused names, on the pattern and on "
            "filled contexts; non-trivial = set_register accepted the name / read produced a context; "
            "distinct = distinct case lines")
    trusted_base = [
        "Coq 8.16.1 kernel; vm_compute evaluates the finite checker over the generated tables (Proofs.tables_diagnosis_empty) and the Examples",
        "translate/context_tables.py (regex/bracket parser of context.rs + format.rs plus a typed expression parser for the dedicated "
        "accessors' and the dispatch arms' bodies; aborts on unknown syntax; bodies with a single well-typed shape - registers(), "
        "from_raw, the format_register dispatch arms, the statement shapes around the translated parts - are compared textually) — "
        "validated by the correspondence run against the live methods",
        "C18/Model.v: hand-written semantics of the tables and of the generated expressions (match = first matching arm; HashSet modelled "
        "as a list; values unbounded, a widening cast is the identity; CpuRegisters as a (variant, list) iterator; format_register as a hex "
        "renderer; MinidumpContext::read as architecture match + length test + CPU-flag test; derive(Pread) as packed fields in declared "
        "order, little- or big-endian)",
        "extraction: ExtrOcamlBasic only; ocaml/zconv.ml + ocaml/c18/main.ml glue; harness/src/bin/c18.rs",
    ]
    manifest = {
        "text": "Theorems (Coq, nine register tables regenerated from context.rs/format.rs on every run; finite in names or over ALL strings "
                "where stated; all register files, values and validity sets): set then get (unchecked and checked) returns the value and "
                "changes no other location; aliases share a location exactly when they share a canonical name; names memoize_register "
                "rejects read as None / are refused, never panic; only the exact spellings are known - any other string, in particular an "
                "ASCII-case variant of a known name, is absent everywhere (default_memoize_register's comparison is translated); the bodies "
                "of get_stack_pointer / get_instruction_pointer are translated as expressions and proved equal to the unchecked read of the "
                "sp / ip register name for every register file (whatever cpsr / eflags / context_flags hold) and to follow writes through "
                "every alias; the MinidumpContext dispatch arms of get_register_always / get_register / valid_registers are translated and "
                "proved to forward to the variant's own methods unchanged; validity is honoured through aliases; registers()/"
                "valid_registers() list exactly REGISTERS / its valid subset, also as iterators (CpuRegisters::next); format_register (format "
                "string translated) renders digits that denote the value; every get_register_always arm, the value every set_register arm "
                "assigns, the branches of register_is_valid and the condition of get_register are translated as expressions and required "
                "by the checker to be the plain read / val / the plain calls; the table default_memoize_register searches, the names each "
                "arm of valid_registers iterates, the step and value of CpuRegisters::next, the value MinidumpContext::registers pairs with a "
                "name and the register_size arms are translated too (c18_generated_bodies: they denote the hand-written meaning). "
                "c18_unreachable_exactly: the checked accessors reach unreachable!() exactly for get_register on a set member that is not "
                "an accepted spelling and for the CpuContext set enumeration over a set with such a member (known finding F-C18b), never "
                "otherwise. c18_read_dispatch / c18_read_architectures: MinidumpContext::read's architecture arms, struct sizes and CPU "
                "flag constants are translated; for all architecture numbers, lengths and flags a context is produced only as the variant "
                "of one of the nine tables from a buffer holding the whole struct with the type's own CPU flag, every table is chosen, "
                "and the WinNT.h / Breakpad architecture numbers select exactly their types; c18_read_registers: on the deserialised context "
                "(byte offsets regenerated from format.rs, both byte orders, ALL byte strings) every accepted name reads the number in the "
                "size_of::<Register>() bytes at its location's offset, inside the Register type, different registers in disjoint bytes. "
                "c18_documented_registers / c18_documented_aliases: REGISTERS, the alias arms and the sp / ip register names of every type "
                "equal the documented lists written out in the theorems (the oracle holds the same independent lists). "
                "c18_write_sequence: a sequence of set_register calls of ANY length through ANY strings never panics and every name then "
                "reads the last value written through any spelling of its register (the dedicated accessors too). "
                "Proof by a diagnostic checker evaluated on the generated tables and lifted by generic lemmas. "
                "The translator is validated by running the live methods on every (type, name, validity class, value, flag/fill pattern) "
                "case against the extracted model, plus MinidumpContext::read itself (through MinidumpSystemInfo::read) on filled and patterned "
                "buffers of every length class in both byte orders with every register compared, plus write sequences; an independent oracle "
                "judges the implementation's answers (incl. each dedicated accessor against the by-name read, last-write-wins, the "
                "architecture -> type table, each register read = a run of consecutive pattern bytes).",
        "note": "Trusted: Coq kernel; the translator (correspondence-checked); hand-written semantics of tables/expressions; extraction + glue. "
                "The statement shapes around the translated sub-expressions, registers(), from_raw and the format_register dispatch arms "
                "are modelled by hand and pinned textually by the translator. MinidumpContext::read is modelled as the choice of the type "
                "(architecture, length, CPU flags); the field-by-field deserialisation is scroll's derive(Pread), compared through the byte "
                "layout on every case, not proved. The positive theorems assume validity sets hold only names the context knows; the "
                "complement is characterised exactly (c18_unreachable_exactly) and recorded as known finding F-C18b. No axioms.",
    }
    assumptions = ["theorems: MinidumpContextValidity::Some(S) holds only names memoize_register accepts; the complement is the recorded "
                   "known finding F-C18b (a set holding an unknown name makes the checked accessors reach unreachable!()), exercised on every run",
                   "HashSet iteration order is a parameter (CpuContext::valid_registers(Some) is compared as a sorted list)"]

    # ------------------------------------------------------------------ cases
    def gen_cases(self, tier, seed):
        rng = Rng(seed)
        TALL = names_table()
        T = {k: v for k, v in TALL.items() if not k.startswith("$")}
        cases = []
        dist = {"by_type": {}, "unknown_names": 0}
        for variant in sorted(T):
            t = T[variant]
            w = t["width"]
            ones = (1 << w) - 1
            names = t["names"]

            def rnd():
                while True:
                    x = rng.below(1 << w)
                    if (x >> (w - 8)) != 0x5A and x not in (0, 1, ones) and ((x >> 24) & 0xFF) != 0x5A:
                        return x
            k = 0

            def val():
                nonlocal k
                k += 1
                return [0, 1, ones, rnd()][k % 4]
            n0 = len(cases)
            # documented names the tables no longer mention are probed all the same (they must still be accepted)
            names = names + [x for x in DOC_REGISTERS.get(variant, []) + list(DOC_ALIASES.get(variant, {})) if x not in names]
            for n in names:
                for v in (0, 1, ones, rnd()):
                    cases.append("%s %s A %d" % (variant, n, v))
                cases.append("%s %s S: %d" % (variant, n, val()))
                cases.append("%s %s S:%s %d" % (variant, n, ",".join(t["registers"]), val()))
                cases.append("%s %s S:%s %d" % (variant, n, ",".join(names), val()))
                for m in names:
                    cases.append("%s %s S:%s %d" % (variant, n, m, val()))
                # a pair: one unrelated name plus one random name
                for _ in range(2 if tier == "quick" else 8):
                    cases.append("%s %s S:%s,%s %d" % (variant, n, rng.choice(names), rng.choice(names), val()))
            others = sorted({x for v2 in T for x in T[v2]["names"]} - set(names))
            unk = UNKNOWN + (others if tier != "quick" else others[:40])
            for u in unk:
                cases.append("%s %s A %d" % (variant, u, val()))
                cases.append("%s %s S: %d" % (variant, u, val()))
                cases.append("%s %s S:%s %d" % (variant, u, ",".join(t["registers"]), val()))
                cases.append("%s %s S:%s %d" % (variant, u, rng.choice(names), val()))
                dist["unknown_names"] += 4
            # ASCII-case variants of the type's own names and aliases: unknown names (the tables are case-sensitive)
            variants_seen = set(names)
            for n in names:
                for u in (n.upper(), n.capitalize(), n[:-1] + n[-1:].upper(), n.swapcase()):
                    if u in variants_seen:
                        continue
                    variants_seen.add(u)
                    cases.append("%s %s A %d" % (variant, u, val()))
                    if tier != "quick" or canon_of(t, n) in (canon_of(t, t["sp_name"]), canon_of(t, t["ip_name"])):
                        cases.append("%s %s S:%s %d" % (variant, u, n, val()))
                        cases.append("%s %s S:%s %d" % (variant, u, ",".join(t["registers"]), val()))
                    dist["case_variants"] = dist.get("case_variants", 0) + 1
            # decorated spellings of the sp / ip names and of a few others: sigils, separators, padding (`~` = a space)
            deco = list(dict.fromkeys([t["sp_name"], t["ip_name"], names[0], names[-1]] + list(t["aliases"])[:2]))
            for n in deco:
                for u in ("$" + n, "%" + n, "." + n, n + ".", "~" + n, n + "~", n[:1] + "~" + n[1:], "_" + n, n + "_", n + "0", n + n, n[:-1]):
                    if u and u not in variants_seen:
                        variants_seen.add(u)
                        cases.append("%s %s A %d" % (variant, u, val()))
                        cases.append("%s %s S:%s %d" % (variant, u, n, val()))
                        dist["decorated_names"] = dist.get("decorated_names", 0) + 1
            # F-C18b class: validity sets holding names the context does not know
            for u in UNKNOWN[1:6]:
                cases.append("%s %s S:%s %d" % (variant, u, u, val()))
                cases.append("%s %s S:%s,%s %d" % (variant, u, u, names[0], val()))
                cases.append("%s %s S:%s %d" % (variant, names[0], u, val()))
                cases.append("%s %s S:%s,%s %d" % (variant, names[-1], names[-1], u, val()))
            # ---- context_flags x values across the 2^31 / 2^32 / 2^63 boundaries (validity All, every name)
            cpu = t["cpu_flags"]
            own = cpu.get(t["type"], 0)
            fmask = (1 << t["flags_width"]) - 1
            flagset = [0, own] + [own | b for b in (1, 2, 4, 8, 0x10, 0x20, 0x40, 0x3f, 0x7f)] + sorted(set(cpu.values()) - {own}) + \
                      [own | o for o in sorted(set(cpu.values()) - {own})[:3]] + [0xffffffff, 0xdeadbeef, fmask]
            flagset = list(dict.fromkeys(f & fmask for f in flagset))
            bvals = [v for v in [(1 << 31) - 1, 1 << 31, (1 << 31) + 1, (1 << 32) - 1, 1 << 32, (1 << 32) + 1, (1 << 63) - 1, 1 << 63,
                                 (1 << 63) + 1, 0xffffffff80001234, 0x00000001ffffffff, 0xfffffffffffffffe, ones - 1, ones] if v <= ones
                     and (v >> (w - 8)) != 0x5A and ((v >> 24) & 0xFF) != 0x5A]
            bvals = list(dict.fromkeys(bvals))
            hi = [v for v in bvals if v >> 31] or bvals
            j = 0
            for n in names:
                for f in flagset:
                    j += 1
                    cases.append("%s %s A %d %d" % (variant, n, hi[j % len(hi)], f))
                for v in bvals:
                    j += 1
                    cases.append("%s %s A %d %d" % (variant, n, v, flagset[j % len(flagset)]))
            dist["flag_cases"] = dist.get("flag_cases", 0) + len(names) * (len(flagset) + len(bvals))
            # ---- validity sets as a family: double spellings (name + alias) with other registers missing; sizes n+1, n, n-1;
            #      aliases standing in for absent canonical names; supersets
            regs = t["registers"]
            al = t["aliases"]                          # alias -> canonical
            by_canon = {}
            for a, c in al.items():
                by_canon.setdefault(c, []).append(a)
            fam = []
            nreg = len(regs)
            for miss in range(0, min(4, nreg)):
                for start in range(0, nreg, max(1, nreg // 5)):
                    missing = [regs[(start + i) % nreg] for i in range(miss)]
                    base_set = [r for r in regs if r not in missing]
                    fam.append((base_set, missing))                                   # plain subsets of size n, n-1, n-2, n-3
                    canon_with_alias = [c for c in by_canon if c not in missing]
                    for k in range(1, min(len(canon_with_alias), 4) + 1):             # k double spellings
                        dbl = [by_canon[c][0] for c in canon_with_alias[:k]]
                        fam.append((base_set + dbl, missing))
                    # aliases of ABSENT registers: the alias alone keeps the register valid
                    absent_alias = [by_canon[c][0] for c in missing if c in by_canon]
                    if absent_alias:
                        fam.append((base_set + absent_alias, [m for m in missing if m not in by_canon]))
                        fam.append((base_set + absent_alias + [by_canon[c][0] for c in canon_with_alias[:2]], [m for m in missing if m not in by_canon]))
            # alias-only and mixed respellings of the full set
            fam.append(([by_canon[r][0] if r in by_canon else r for r in regs], []))
            fam.append((regs + list(al), []))
            seen = set()
            for members, missing in fam:
                key = ",".join(members)
                if not members or key in seen:
                    continue
                seen.add(key)
                probes = (missing[:2] + [a for m in missing for a in by_canon.get(m, [])][:1] + [members[0], members[-1]])[:4]
                for n in probes:
                    cases.append("%s %s S:%s %d %d" % (variant, n, key, val(), flagset[k % len(flagset)] if isinstance(k, int) else own))
            dist["validity_family_sets"] = dist.get("validity_family_sets", 0) + len(seen)
            # ---- fill mode: EVERY 32-bit word of the base context is the fill word, so every field a method could consult
            #      (cpsr, eflags, context_flags, fpscr, ...; no field is named) takes every single-bit pattern, all-ones and
            #      all-ones-but-one-bit, crossed with odd / even / boundary values written through every spelling of the sp and
            #      ip registers (the dedicated accessors are compared with the by-name reads on each), and sampled for the rest
            M32 = 0xffffffff
            fills = [0, M32] + [1 << b for b in range(32)] + [0x55555555, 0xaaaaaaaa, 0x21, 0x20000001, M32 ^ 0x20, M32 ^ 1]
            # the type's own CPU bit of context_flags together with low flag bits (a test on two fields at once)
            fills += [(own | x) & M32 for x in (0x21, 0x3f, 0xffff)]
            if tier != "quick":
                fills += [M32 ^ (1 << b) for b in range(32)] + [rng.below(1 << 32) for _ in range(48)]
            fills = list(dict.fromkeys(fills))
            canon = lambda x: al.get(x, x)
            special = [n for n in names if canon(n) in (canon(t["sp_name"]), canon(t["ip_name"]))]

            def fvals(fw):
                basev = fw if w == 32 else (fw << 32) | fw
                pool = [1, 2, 0x8001, 0x8000, ones, ones - 1, rnd() | 1, rnd() & ~1, (1 << (w - 1)) | 1, 1 << (w - 1)]
                return [x for x in pool if x != basev]
            nf = 0
            for fi, fw in enumerate(fills):
                pool = fvals(fw)
                for n in special:
                    vs = pool if tier != "quick" else [pool[(fi + q) % len(pool)] for q in (0, 1, 4, 5)]
                    for x in dict.fromkeys(vs):
                        cases.append("%s %s A %d - %d" % (variant, n, x, fw))
                        nf += 1
                # one sp/ip spelling under a Some(..) validity and with explicit context_flags on top of the fill
                n = special[fi % len(special)]
                cases.append("%s %s S:%s %d %d %d" % (variant, n, n, pool[fi % len(pool)], flagset[fi % len(flagset)], fw))
                # the other names: a rotating sample per fill (all of them in the thorough tier)
                rest = [n for n in names if n not in special]
                for q in range(len(rest) if tier != "quick" else 3):
                    n = rest[(fi * 3 + q) % len(rest)]
                    cases.append("%s %s A %d - %d" % (variant, n, pool[(fi + q) % len(pool)], fw))
                    nf += 1
                nf += 1
            # every name on the all-clear and the all-set context, odd high value (any single flag bit set / clear)
            for fw in (0, M32):
                pool = fvals(fw)
                for n in names:
                    cases.append("%s %s A %d - %d" % (variant, n, pool[8], fw))
                    nf += 1
            # an unknown name on filled contexts
            for fw in fills[:6]:
                cases.append("%s %s A %d - %d" % (variant, UNKNOWN[1], 1, fw))
            dist["fill_cases"] = dist.get("fill_cases", 0) + nf + 6
            # ---- sequences of set_register calls (`W <variant> n1=v1,n2=v2,... [fill]`): last write through any spelling wins,
            #      refused names change nothing
            def wv(avoid=None):
                while True:
                    x = rnd()
                    if x != avoid:
                        return x
            seqs = [[(n, wv()) for n in names], [(n, wv()) for n in reversed(names)]]
            for a, cn in al.items():
                seqs.append([(a, wv()), (cn, wv()), (a, wv())])
                seqs.append([(cn, wv()), (a, wv())])
            for q in range(40 if tier == "quick" else 400):
                ln = 2 + rng.below(13)
                sq = []
                for _ in range(ln):
                    r = rng.below(10)
                    if r == 0:
                        n = rng.choice(UNKNOWN[1:] + [names[0].upper(), "$" + t["sp_name"], t["ip_name"] + "~"])
                    elif r == 1:
                        n = rng.choice(special)
                    else:
                        n = rng.choice(names)
                    sq.append((n, wv()))
                seqs.append(sq)
            for qi, sq in enumerate(seqs):
                fw = [None, None, 0, M32, 0x21][qi % 5]
                if fw is not None:
                    rep = fw if w == 32 else (fw << 32) | fw
                    sq = [(n, v if v != rep else v ^ 2) for n, v in sq]
                cases.append("W %s %s%s" % (variant, ",".join("%s=%d" % nv for nv in sq), "" if fw is None else " %d" % fw))
            dist["write_sequences"] = dist.get("write_sequences", 0) + len(seqs)
            dist["by_type"][variant] = len(cases) - n0
        # ---- MinidumpContext::read: which context type is chosen (`R <arch> <fill> <len>`; every 32-bit word of the buffer is
        #      the fill word, so the context_flags of whichever type the architecture selects is the word)
        # (when the translator aborted, context_names.json is an older one: fall back to the architecture numbers / struct sizes below)
        rd_archs = TALL.get("$read", {}).get("archs") or {str(a): a for a in self.DEFAULT_ARCHS}
        cpuf = sorted(set(next(iter(T.values()))["cpu_flags"].values()))
        rsize = {v: T[v].get("read_size", self.DEFAULT_SIZES.get(v, 716)) for v in T}
        rarchs = {v: T[v].get("read_archs") or [a for a, x in self.ARCH_VARIANT.items() if x == v] for v in T}
        sizes = sorted(set(rsize.values()))
        arch_nums = sorted(set(rd_archs.values())) + [11, 13, 77, 0x7fff, 0x8000, 0x8005, 0xfffe]
        own_of = {a: T[v]["cpu_flags"][T[v]["type"]] for v in T for a in rarchs[v]}
        size_of = {a: rsize[v] for v in T for a in rarchs[v]}
        nr = 0
        for a in arch_nums:
            own = own_of.get(a, 0x10000)
            fl = cpuf + [0, 0xffffffff, own | 1, own | 0x40, own | 0x3f, own | 0xff, own | 0x200, own | 0x800, own | 0x4000,
                         own | cpuf[(a + 1) % len(cpuf)], own | cpuf[(a + 5) % len(cpuf)], own >> 1, (own << 1) & 0xffffffff, own ^ 0xffffffff]
            for f in dict.fromkeys(fl):
                cases.append("R %d %d 8192" % (a, f))
                nr += 1
            sz = size_of.get(a, 716)
            for ln in dict.fromkeys([0, 1, 4, sz - 4, sz - 1, sz, sz + 1, sz + 4] + sizes + [s_ - 1 for s_ in sizes]):
                for f in (own, own | 0x7f):
                    cases.append("R %d %d %d" % (a, f, ln))
                    nr += 1
        # big-endian reads (PPC / SPARC dumps are big-endian): the bytes hold the fill word little-endian, so the context sees it swapped
        bsw = lambda x: int.from_bytes(x.to_bytes(4, "little"), "big")
        for a in arch_nums:
            own = own_of.get(a, 0x10000)
            sz = size_of.get(a, 716)
            for f in (bsw(own), bsw(own | 0x40), bsw(own | 0x200), own, 0):
                for ln in (8192, sz, sz - 1):
                    cases.append("R %d %d %d B" % (a, f, ln))
                    nr += 1
        # reads of the byte PATTERN (every 32-bit word distinct) with the flags written at the type's context_flags offset, both byte
        # orders; every register of the context read is reported (the deserialisation model against the real derive(Pread))
        nd = 0
        for v in sorted(T):
            if "flags_off" not in T[v]:
                continue                      # the translator aborted: no layout to aim the flags with
            own = T[v]["cpu_flags"][T[v]["type"]]
            fwd = T[v]["flags_width"]
            hi = (0xabcd << 32) if fwd == 64 else 0
            for a in rarchs[v]:
                for e in ("L", "B"):
                    for fl in (own, own | 0x41, own | 0x200 | hi, own ^ 0x100, own | cpuf[(a + 3) % len(cpuf)], 0):
                        cases.append("D %d %d %d %d %s" % (a, T[v]["flags_off"], fwd, fl, e))
                        nd += 1
        for a in (2, 77, 0x8004):
            cases.append("D %d 0 32 65536 L" % a)
            cases.append("D %d 0 32 65536 B" % a)
            nd += 2
        dist["decode_cases"] = nd
        dist["read_cases"] = nr
        # de-duplicate S:a,a (a HashSet cannot hold a name twice)
        out = []
        for c in cases:
            f = c.split(" ")
            if f[0] in ("R", "W", "D"):
                out.append(c)
                continue
            if f[2].startswith("S:") and f[2] != "S:":
                ms = f[2][2:].split(",")
                f[2] = "S:" + ",".join(dict.fromkeys(ms))
            out.append(" ".join(f))
        return out, dist, True

    # ------------------------------------------------------------------ correspondence
    def canon_impl(self, case, ans, profile):
        return ans.split("|", 1)[0]

    # ------------------------------------------------------------------ oracle: the property on the live methods' answers
    # the context type of an architecture (WinNT.h PROCESSOR_ARCHITECTURE_* numbers and Breakpad's extensions) - independent
    # of the translated arms
    ARCH_VARIANT = {0: "X86", 10: "X86", 9: "Amd64", 3: "Ppc", 0x8002: "Ppc64", 0x8001: "Sparc", 5: "Arm", 12: "Arm64",
                    0x8003: "OldArm64", 1: "Mips"}
    DEFAULT_ARCHS = [0, 1, 2, 3, 4, 5, 6, 7, 8, 9, 10, 12, 0x8001, 0x8002, 0x8003, 0x8004, 0xffff]
    DEFAULT_SIZES = {"X86": 716, "Amd64": 1232, "Ppc": 1004, "Ppc64": 1160, "Sparc": 584, "Arm": 368, "Arm64": 912, "OldArm64": 796, "Mips": 600}

    def _oracle_read(self, case, ans):
        f = case.split(" ")
        arch, fill, ln = int(f[1]), int(f[2]), int(f[3])
        if f[4:] == ["B"]:
            fill = int.from_bytes(fill.to_bytes(4, "little"), "big")     # what a big-endian reader sees in every word
        if ans.startswith("P;;"):
            return "MinidumpContext::read panicked: %s" % ans[3:200]
        d = parse(ans)
        T = names_table()
        want = self.ARCH_VARIANT.get(arch)
        who = "MinidumpContext::read(architecture %#x, %d bytes, every word %#x%s)" % (arch, ln, fill, ", big-endian" if f[4:] else "")
        rdv = d.get("rd")
        if rdv in ("RF", "UC"):
            if want is not None and ln >= 8192 and (fill & 0xffffff00) == T[want]["cpu_flags"][T[want]["type"]]:
                return "%s: a full-size buffer carrying the type's own CPU flag is refused (%s); %s is a supported context type" % (who, rdv, want)
            if want is None and rdv != "UC":
                return "%s: an architecture without a context type is not reported as UnknownCpuContext" % who
            return None
        if rdv not in T or rdv.startswith("$") or any(k not in d for k in ("rsz", "rip", "va")):
            return "unparseable answer " + ans[:120]
        if rdv != want:
            return "%s: produced a %s context; the architecture's context type is %s" % (who, rdv, want)
        t = T[rdv]
        allbits = 0
        for b in t["cpu_flags"].values():
            allbits |= b
        if (fill & 0xffffff00 & allbits) != t["cpu_flags"][t["type"]]:
            return "%s: accepted as %s although the CPU part of context_flags is not %s" % (who, rdv, t["type"])
        if d["va"] != "1":
            return "%s: a freshly read context does not have validity All" % who
        if int(d["rsz"]) * 8 != t["width"]:
            return "%s: register_size %s on the %s context" % (who, d["rsz"], rdv)
        if int(d["rip"]) != (fill if t["width"] == 32 else (fill << 32) | fill):
            return "%s: get_instruction_pointer() = %s on a context whose every word is %#x" % (who, d["rip"], fill)
        return None

    def _oracle_decode(self, case, ans):
        f = case.split(" ")
        arch, fwd, flags, big = int(f[1]), int(f[3]), int(f[4]), f[5] == "B"
        if ans.startswith("P;;"):
            return "MinidumpContext::read panicked: %s" % ans[3:200]
        d = parse(ans)
        T = names_table()
        want = self.ARCH_VARIANT.get(arch)
        who = "MinidumpContext::read(architecture %#x, the byte pattern with context_flags %#x, %s-endian)" % (arch, flags, "big" if big else "little")
        rdv = d.get("rd")
        if rdv in ("RF", "UC"):
            if want is not None and (flags & 0xffffff00) == T[want]["cpu_flags"][T[want]["type"]]:
                return "%s: a full-size buffer carrying the type's own CPU flag is refused (%s); %s is a supported context type" % (who, rdv, want)
            if want is None and rdv != "UC":
                return "%s: an architecture without a context type is not reported as UnknownCpuContext" % who
            return None
        if rdv != want or any(k not in d for k in ("regs", "sp", "ip")):
            return "%s: produced %s; the architecture's context type is %s" % (who, ans[:60], want)
        t = T[rdv]
        pairs = [p.split(":") for p in lst(d["regs"])]
        if [p[0] for p in pairs] != t["registers"]:
            return "%s: registers() of the context read lists %s" % (who, [p[0] for p in pairs])
        w = t["width"]
        bsw = lambda x: int.from_bytes(x.to_bytes(4, "little"), "big")
        vals = {}
        for n, v in pairs:
            v = int(v)
            halves = [v] if w == 32 else ([v >> 32, v & 0xffffffff] if big else [v & 0xffffffff, v >> 32])
            words = [bsw(h) if big else h for h in halves]          # the pattern words this register was read from, in byte order
            if any(x >> 24 != 0x5A or (x & 0xffffff) >= 2048 for x in words) or (w == 64 and words[1] != words[0] + 1):
                return "%s: register %s = %#x is not a run of %d consecutive bytes of the pattern" % (who, n, v, w // 8)
            vals[n] = v
        if len(set(vals.values())) != len(vals):
            return "%s: two registers of the context read hold the same bytes" % who
        al = t["aliases"]
        for tag, nm in (("sp", t["sp_name"]), ("ip", t["ip_name"])):
            if int(d[tag]) != vals.get(al.get(nm, nm)):
                return "%s: the dedicated %s accessor reads %s, register %s holds %s" % (who, tag, d[tag], nm, vals.get(al.get(nm, nm)))
        return None

    def _oracle_writes(self, case, ans):
        f = case.split(" ")
        variant = f[1]
        if ans.startswith("P;;"):
            return "%s: a sequence of set_register calls panicked: %s" % (variant, ans[3:200])
        d = parse(ans)
        if any(k not in d for k in ("wa", "ch", "sp", "ip")):
            return "unparseable answer " + ans[:120]
        t = names_table()[variant]
        known, al = set(t["names"]), t["aliases"]
        ops = [(("" if n == "-" else n.replace("~", " ")), v) for n, v in (p.split("=") for p in f[2].split(","))]
        want_wa = "".join("1" if n in known else "0" for n, _ in ops)
        if d["wa"] != want_wa:
            return "%s: set_register accepted / refused the calls as %s, the names' status is %s | %s" % (variant, d["wa"], want_wa, f[2][:120])
        last = {}
        for n, v in ops:
            if n in known:
                last[al.get(n, n)] = v
        want_ch = ",".join("%s:%s" % (r, last[r]) for r in t["registers"] if r in last)
        if d["ch"] != want_ch:
            return ("%s: after the sequence the registers that changed are [%s]; the last writes through each register's spellings are [%s]"
                    % (variant, d["ch"][:300], want_ch[:300]))
        for tag, nm in (("sp", t["sp_name"]), ("ip", t["ip_name"])):
            want = last.get(al.get(nm, nm), "B")
            if d[tag] != want:
                return "%s: after the sequence the dedicated %s accessor reads %s, the last write through a spelling of %s is %s" % (
                    variant, tag, d[tag], nm, want)
        if set(last) - set(t["registers"]):
            return "%s: canonical names %s are not in REGISTERS" % (variant, sorted(set(last) - set(t["registers"])))
        return None

    def oracle(self, case, ans, profile):
        if case.startswith("R "):
            return self._oracle_read(case, ans)
        if case.startswith("W "):
            return self._oracle_writes(case, ans)
        if case.startswith("D "):
            return self._oracle_decode(case, ans)
        variant, name, vspec, value = case.split(" ")[:4]
        if ans.startswith("P;;"):
            return "%s: a method panicked outside the guarded reads: %s" % (variant, ans[3:200])
        d = parse(ans)
        if any(k not in d for k in KEYS + ["RG", "spm", "ipm", "sm", "ma"]):
            return "unparseable answer " + ans[:120]
        who = "%s %r" % (variant, "" if name == "-" else name)
        RG = lst(d["RG"])
        members = [] if vspec in ("A", "S:") else vspec[2:].split(",")
        member_canon = lst(d["sm"]) if members else []
        if members and len(member_canon) != len(members):
            return "unparseable sm"
        # F-C18b, exactly as Properties.c18_unreachable_exactly states it: with a member the context does not know in the set,
        # (1) get_register / MinidumpContext::get_register reach unreachable!() iff the name read IS such a member (and
        # register_is_valid says 1 for it), (2) the CpuContext set enumeration reaches it; nothing else may panic or differ
        unknown_members = [m for m, c in zip(members, member_canon) if c == "N"]
        exp_gr_panic = name in unknown_members
        exp_cv_panic = bool(unknown_members)
        accepted = d["st"] == "1"
        canon = d["mz"]
        # --- unknown names: absence, never a panic from the checked accessor
        if not accepted and (name in DOC_REGISTERS[variant] or name in DOC_ALIASES[variant]):
            return "%s: set_register refuses a documented register name / alias" % who
        if not accepted:
            if canon != "N":
                return "%s: memoize_register accepts the name (%s) but set_register refuses it" % (who, canon)
            absent = ("N", "P") if exp_gr_panic else ("N",)
            if d["gA"] != "N" or d["gr"] not in absent or d["mg"] not in absent:
                return "%s: unknown name does not read as None through get_register (All: %s, case validity: %s, MinidumpContext: %s)" % (
                    who, d["gA"], d["gr"], d["mg"])
            if d["ch"]:
                return "%s: refused set_register changed %s" % (who, d["ch"])
            if d["iv"] != "0" and not exp_gr_panic:
                return "%s: unknown name reported valid" % who
        else:
            # --- write then read back
            if d["ga"] != value:
                return "%s: after set_register(%s) get_register_always returned %s" % (who, value, d["ga"])
            if canon == "N":
                return ("%s: set_register accepts the name and get_register_always reads it back, but memoize_register rejects it: "
                        "the checked get_register(All) returns %s" % (who, d["gA"]))
            if d["gA"] != value:
                return "%s: after set_register(%s) get_register(.., All) returned %s" % (who, value, d["gA"])
            # --- a documented alias denotes its documented register; a REGISTERS entry denotes itself
            doc = DOC_ALIASES.get(variant, {})
            if name in doc or name in RG:
                if canon != doc.get(name, name):
                    return "%s: memoize_register maps the name to %s; the documented register of this name is %s" % (who, canon, doc.get(name, name))
            # --- aliases denote one register; nothing else changes
            if d["ch"] != "%s:%s" % (canon, value):
                return "%s: set_register(%s) changed REGISTERS entries [%s], expected exactly its canonical register %s" % (who, value, d["ch"], canon)
            if canon not in RG:
                return "%s: canonical name %s is not in REGISTERS" % (who, canon)
            # --- validity honoured through aliases
            if vspec == "A":
                want = True
            else:
                want = canon in member_canon
            if (d["iv"] == "1") != want:
                return "%s: register_is_valid under %s is %s; members' canonical names are %s, this name's is %s" % (
                    who, vspec, d["iv"], member_canon, canon)
            exp = value if want else "N"
            if d["gr"] != exp or d["mg"] != exp:
                return "%s: get_register under %s returned %s (MinidumpContext: %s), expected %s" % (who, vspec, d["gr"], d["mg"], exp)
            w = names_table()[variant]["width"] // 4
            if d["fm"] != "0x%0*x" % (w, int(value)):
                return "%s: format_register gives %s for %s" % (who, d["fm"], value)
        # --- stack / instruction pointer names agree with the dedicated accessors
        for tag, nm, cn, want_nm in (("sp", d["spn"], d["spm"], DOC_SP_IP[variant][0]), ("ip", d["ipn"], d["ipm"], DOC_SP_IP[variant][1])):
            if cn != want_nm:
                return "%s: the %s register name is %r (canonical %s); the documented %s register is %s" % (variant, tag, nm, cn, tag, want_nm)
            if cn == "N":
                return "%s: %s register name %r is not known to memoize_register" % (variant, tag, nm)
            hit = accepted and canon == cn
            if hit and d[tag] != value:
                return "%s: wrote %s through %r (canonical %s = the %s register name) but the dedicated accessor reads %s" % (
                    who, value, name, cn, tag, d[tag])
            if not hit and d[tag] != "B":
                return "%s: the dedicated %s accessor changed to %s although %r is not the %s register" % (who, tag, d[tag], name, tag)
        # --- the dedicated accessors against the by-name reads themselves (whatever the other fields hold)
        if d["sa"] != "1":
            return "%s: get_stack_pointer() differs from get_register_always(%r) (stack_pointer_register_name) on this context" % (who, d["spn"])
        if d["ia"] != "1":
            return "%s: get_instruction_pointer() differs from get_register_always(%r) (instruction_pointer_register_name) on this context" % (who, d["ipn"])
        # --- enumerations
        if RG != DOC_REGISTERS[variant]:
            return "%s: REGISTERS is %s; the documented general-purpose registers are %s" % (variant, d["RG"], ",".join(DOC_REGISTERS[variant]))
        if lst(d["rn"]) != RG or lst(d["cr"]) != RG:
            return "%s: registers() lists %s / %s, REGISTERS is %s" % (variant, d["rn"], d["cr"], d["RG"])
        if len(set(RG)) != len(RG):
            return "%s: REGISTERS has duplicates" % variant
        if vspec == "A":
            want_vn, want_cv = RG, sorted(RG)
        else:
            want_vn = [r for r in RG if r in member_canon]
            want_cv = sorted(members)
        if d["vn"] == "P" or lst(d["vn"]) != want_vn:
            return "%s: valid_registers() under %s lists [%s], expected %s" % (variant, vspec, d["vn"], want_vn)
        if exp_cv_panic:
            # known finding (P), or - should the code ever skip / refuse unknown members - the known members only
            if d["cv"] != "P" and lst(d["cv"]) != sorted(m for m in members if m not in unknown_members):
                return "%s: CpuContext::valid_registers under %s lists [%s]" % (variant, vspec, d["cv"])
        elif d["cv"] == "P" or lst(d["cv"]) != want_cv:
            return "%s: CpuContext::valid_registers under %s lists [%s], expected %s" % (variant, vspec, d["cv"], want_cv)
        if d["ev"] != "1":
            return "%s: an enumeration reported a value different from get_register_always" % variant
        if d["mf"] != "1" or d["ma"] != "1" or d["mga"] != d["ga"]:
            return "%s: MinidumpContext::format_register / get_register_always differ from the CpuContext methods" % who
        if not d["sz"].isdigit() or int(d["sz"]) * 8 != names_table()[variant]["width"]:
            return "%s: register_size %s does not match the Register type" % (variant, d["sz"])
        # everything else about this case is as the property demands; what remains is the known finding itself, reported only
        # where c18_unreachable_exactly places it
        hit = [k for k in ("gr", "mg") if exp_gr_panic and d[k] == "P"] + (["cv"] if exp_cv_panic and d["cv"] == "P" else [])
        if hit:
            return ("UNKNOWN-MEMBER: validity %s holds a name the context does not know (%s) and %s reached unreachable!() "
                    "(get_register / MinidumpContext::get_register on that member; CpuContext::valid_registers over the set)"
                    % (vspec, ",".join(unknown_members), "+".join(hit)))
        return None

    def nontrivial(self, case, ans):
        return ";st=1;" in ans or (ans.startswith("rd=") and not ans.startswith(("rd=RF", "rd=UC"))) or (ans.startswith("wa=") and "1" in ans.split(";")[0])


PROP = C18()
